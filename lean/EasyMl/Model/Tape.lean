/-
  EasyMl.Model.Tape — code-shaped model of easy-ml's automatic differentiation
  (src/differentiation.rs, differentiation/{functions,record_operations,trace_operations}.rs).

  * `Op`, `Tape` — `Operation<T>` / the `Vec<Operation<T>>` inside `WengertList`
    (differentiation.rs:342-347, 322-326) with `appendNullary/Unary/Binary/NullaryRepeating`
    (differentiation.rs:809-876, 706-725).
  * `World` — the `WengertList`s alive in a program, indexed by an id (a `&WengertList` is
    compared by address, `same_lists`, record_operations.rs:116-118; the id plays the address).
  * `Rec` — `Record<'a, T>` (differentiation.rs:451-469): number, optional tape, index.
    Every scalar operator of record_operations.rs, `Record::unary/binary`, `Sum`, `reset`,
    `WengertList::clear`, the reverse sweep of `Record::try_derivatives`
    (differentiation.rs:618-646).
  * `Fn.*` — the local derivative rules of functions.rs, read literally.
  * `Dual` — `Trace<T>` with the rules of trace_operations.rs, read literally.

  Ownership forms (value/reference) do not exist here: in the Rust code every by-value form
  forwards to the `&Record ∘ &Record` / `&Record ∘ &T` implementation; the correspondence runs
  every form and requires the single model answer.

  Core Lean only.  Polymorphic over the numeric classes (`Add … One`, `RealFns` of Model/Fp.lean).
-/
import EasyMl.Model.Basic
import EasyMl.Model.Fp

namespace EasyMl

/-! ## The tape -/

/-- `struct Operation<T>` (differentiation.rs:342). -/
structure Op (R : Type) where
  leftParent : Nat
  rightParent : Nat
  leftDerivative : R
  rightDerivative : R
  deriving Repr, Inhabited

/-- The `Vec<Operation<T>>` of a `WengertList`. -/
abbrev Tape (R : Type) := List (Op R)

namespace Tape
variable {R : Type}

/-- `BorrowedWengertList::append_nullary` (differentiation.rs:809): both parents are the entry's
    own index, both weights zero.  Returns the index handed out and the new tape. -/
def appendNullary [Zero R] (t : Tape R) : Nat × Tape R :=
  let index := t.length
  (index, t ++ [⟨index, index, 0, 0⟩])

/-- `append_unary` (differentiation.rs:834): right parent is the entry itself with weight zero. -/
def appendUnary [Zero R] (t : Tape R) (parent : Nat) (derivative : R) : Nat × Tape R :=
  let index := t.length
  (index, t ++ [⟨parent, index, derivative, 0⟩])

/-- `append_binary` (differentiation.rs:860). -/
def appendBinary (t : Tape R) (leftParent : Nat) (leftDerivative : R) (rightParent : Nat)
    (rightDerivative : R) : Nat × Tape R :=
  let index := t.length
  (index, t ++ [⟨leftParent, rightParent, leftDerivative, rightDerivative⟩])

/-- `WengertList::append_nullary_repeating` (differentiation.rs:706): `values` nullary entries,
    returns the index of the first (the current length, also when `values = 0`). -/
def appendNullaryRepeating [Zero R] (t : Tape R) (values : Nat) : Nat × Tape R :=
  let startingIndex := t.length
  (startingIndex,
    (List.range values).foldl (fun acc i => acc ++ [⟨startingIndex + i, startingIndex + i, 0, 0⟩]) t)

end Tape

/-- All `WengertList`s of a program, by id.  A list that was never touched is empty
    (`WengertList::new`, differentiation.rs:653). -/
abbrev World (R : Type) := Nat → Tape R

namespace World
variable {R : Type}

/-- every tape empty -/
def empty : World R := fun _ => []

/-- replace tape `h` -/
def update (w : World R) (h : Nat) (t : Tape R) : World R := fun j => if j = h then t else w j

/-- `WengertList::clear` (differentiation.rs:672). -/
def clear (w : World R) (h : Nat) : World R := w.update h []

/-- `Clone for WengertList` (differentiation.rs:790): a new list `dst` holding a copy of the
    entries of `src`; records keep pointing to the list they were made on. -/
def cloneTape (w : World R) (src dst : Nat) : World R := w.update dst (w src)

end World

/-! ## Local derivative rules (functions.rs) -/

namespace Fn
variable {R : Type}

namespace Addition
variable [Add R] [One R]
def function (x y : R) : R := x + y
def dx (_x _y : R) : R := 1
def dy (_x _y : R) : R := 1
end Addition

namespace Subtraction
variable [Sub R] [Neg R] [One R]
def function (x y : R) : R := x - y
def dx (_x _y : R) : R := 1
def dy (_x _y : R) : R := -1
end Subtraction

namespace Multiplication
variable [Mul R]
def function (x y : R) : R := x * y
def dx (_x y : R) : R := y
def dy (x _y : R) : R := x
end Multiplication

namespace Division
variable [Div R] [Mul R] [Neg R] [One R]
def function (x y : R) : R := x / y
/-- `T::one() / y` -/
def dx (_x y : R) : R := 1 / y
/-- `-x / (y.clone() * y)` -/
def dy (x y : R) : R := (-x) / (y * y)
end Division

namespace Power
variable [Sub R] [Mul R] [One R] [RealFns R]
def function (x y : R) : R := RealFns.pow x y
/-- `y.clone() * x.pow(y - T::one())` -/
def dx (x y : R) : R := y * RealFns.pow x (y - 1)
/-- `x.clone().pow(y) * x.ln()` -/
def dy (x y : R) : R := RealFns.pow x y * RealFns.ln x
end Power

namespace Sine
variable [RealFns R]
def function (x : R) : R := RealFns.sin x
def dx (x : R) : R := RealFns.cos x
end Sine

namespace Cosine
variable [Neg R] [RealFns R]
def function (x : R) : R := RealFns.cos x
/-- `-x.sin()` -/
def dx (x : R) : R := -(RealFns.sin x)
end Cosine

namespace Exponential
variable [RealFns R]
def function (x : R) : R := RealFns.exp x
def dx (x : R) : R := RealFns.exp x
end Exponential

namespace NaturalLogarithm
variable [Div R] [One R] [RealFns R]
def function (x : R) : R := RealFns.ln x
/-- `T::one() / x` -/
def dx (x : R) : R := 1 / x
end NaturalLogarithm

namespace SquareRoot
variable [Add R] [Mul R] [Div R] [One R] [RealFns R]
def function (x : R) : R := RealFns.sqrt x
/-- `T::one() / ((T::one() + T::one()) * x.sqrt())` -/
def dx (x : R) : R := 1 / ((1 + 1) * RealFns.sqrt x)
end SquareRoot

end Fn

/-! ## Records -/

/-- `struct Record<'a, T>` (differentiation.rs:451): `history` is the id of the tape. -/
structure Rec (R : Type) where
  number : R
  history : Option Nat
  index : Nat
  deriving Repr, Inhabited

namespace Rec
variable {R : Type}

/-- `Record::constant` (differentiation.rs:503); also the struct literal
    `Record { number, history: None, index: 0 }` every operator returns for constant operands. -/
def constant (c : R) : Rec R := ⟨c, none, 0⟩

def isConstant (r : Rec R) : Bool := r.history.isNone

/-- `same_list` (record_operations.rs:106). -/
def sameList (a b : Rec R) : Bool :=
  match a.history, b.history with
  | some la, some lb => la == lb
  | _, _ => true

/-- `Clone for Record` (record_operations.rs:80): number, list and position are copied; the tape
    is not touched. -/
def clone (r : Rec R) : Rec R := ⟨r.number, r.history, r.index⟩

/-- `Clone::clone_from` — `Record` does not override the trait's default `*self = source.clone()`:
    whatever the destination held is replaced by the clone. -/
def cloneFrom (_dst src : Rec R) : Rec R := src.clone

/-- `Record::from_existing` (differentiation.rs:547): "the inputs are not checked for validity". -/
def fromExisting (number : R × Nat) (history : Option Nat) : Rec R := ⟨number.1, history, number.2⟩

/-- `Display for Record` (record_operations.rs:50): "a record is displayed by showing its number
    component". -/
def display (render : R → String) (r : Rec R) : String := render r.number

section Basic
variable [Zero R]

/-- `Record::variable` / `WengertList::variable` (differentiation.rs:528, 683). -/
def mkVar (x : R) (h : Nat) (w : World R) : Rec R × World R :=
  let (i, t) := (w h).appendNullary
  (⟨x, some h, i⟩, w.update h t)

/-- `Record::reset` / `do_reset` (differentiation.rs:559-573): a constant is left alone, a
    variable gets a fresh nullary entry on its tape. -/
def reset (r : Rec R) (w : World R) : Rec R × World R :=
  match r.history with
  | none => (r, w)
  | some h =>
    let (i, t) := (w h).appendNullary
    ({ r with index := i }, w.update h t)

/-- `Record { number, history: Some(history), index: history.append_unary(parent, d) }` -/
def pushUnary (w : World R) (h : Nat) (parent : Nat) (d : R) (number : R) : Rec R × World R :=
  let (i, t) := (w h).appendUnary parent d
  (⟨number, some h, i⟩, w.update h t)

/-- `Record { number, history: Some(history), index: history.append_binary(lp, ld, rp, rd) }` -/
def pushBinary (w : World R) (h : Nat) (lp : Nat) (ld : R) (rp : Nat) (rd : R) (number : R) :
    Rec R × World R :=
  let (i, t) := (w h).appendBinary lp ld rp rd
  (⟨number, some h, i⟩, w.update h t)

/-- `Record::unary` (differentiation.rs:905). -/
def unary (a : Rec R) (fx dfx : R → R) (w : World R) : Rec R × World R :=
  match a.history with
  | none => (constant (fx a.number), w)
  | some h => pushUnary w h a.index (dfx a.number) (fx a.number)

/-- `Record::binary` (differentiation.rs:954): the `same_list` assertion comes first. -/
def binary (a b : Rec R) (fxy dfx dfy : R → R → R) (w : World R) : Outcome (Rec R × World R) :=
  if !sameList a b then .panic .explicit else
  match a.history, b.history with
  | none, none => .ok (constant (fxy a.number b.number), w)
  | some h, none => .ok (pushUnary w h a.index (dfx a.number b.number) (fxy a.number b.number))
  | none, some h => .ok (pushUnary w h b.index (dfy a.number b.number) (fxy a.number b.number))
  | some h, some _ =>
    .ok (pushBinary w h a.index (dfx a.number b.number) b.index (dfy a.number b.number)
      (fxy a.number b.number))

end Basic

section Arith
variable [Add R] [Sub R] [Mul R] [Div R] [Neg R] [Zero R] [One R]
open Fn

/-- `&Record + &T` (record_operations.rs:195). -/
def addNum (a : Rec R) (c : R) (w : World R) : Rec R × World R :=
  match a.history with
  | none => (constant (Addition.function a.number c), w)
  | some h => pushUnary w h a.index (Addition.dx a.number c) (Addition.function a.number c)

/-- `&Record + &Record` (record_operations.rs:151). -/
def add (a b : Rec R) (w : World R) : Outcome (Rec R × World R) :=
  if !sameList a b then .panic .explicit else
  match a.history, b.history with
  | none, none => .ok (constant (Addition.function a.number b.number), w)
  | some _, none => .ok (a.addNum b.number w)
  | none, some _ => .ok (b.addNum a.number w)
  | some h, some _ =>
    .ok (pushBinary w h a.index (Addition.dx a.number b.number) b.index
      (Addition.dy a.number b.number) (Addition.function a.number b.number))

/-- `&Record * &T` (record_operations.rs:386). -/
def mulNum (a : Rec R) (c : R) (w : World R) : Rec R × World R :=
  match a.history with
  | none => (constant (Multiplication.function a.number c), w)
  | some h =>
    pushUnary w h a.index (Multiplication.dx a.number c) (Multiplication.function a.number c)

/-- `&Record * &Record` (record_operations.rs:344). -/
def mul (a b : Rec R) (w : World R) : Outcome (Rec R × World R) :=
  if !sameList a b then .panic .explicit else
  match a.history, b.history with
  | none, none => .ok (constant (Multiplication.function a.number b.number), w)
  | some _, none => .ok (a.mulNum b.number w)
  | none, some _ => .ok (b.mulNum a.number w)
  | some h, some _ =>
    .ok (pushBinary w h a.index (Multiplication.dx a.number b.number) b.index
      (Multiplication.dy a.number b.number) (Multiplication.function a.number b.number))

/-- `&Record - &T` (record_operations.rs:470). -/
def subNum (a : Rec R) (c : R) (w : World R) : Rec R × World R :=
  match a.history with
  | none => (constant (Subtraction.function a.number c), w)
  | some h => pushUnary w h a.index (Subtraction.dx a.number c) (Subtraction.function a.number c)

/-- `sub_swapped`: `lhs - record` (record_operations.rs:551); the weight is `d/dy`. -/
def subSwapped (a : Rec R) (lhs : R) (w : World R) : Rec R × World R :=
  match a.history with
  | none => (constant (Subtraction.function lhs a.number), w)
  | some h => pushUnary w h a.index (Subtraction.dy lhs a.number) (Subtraction.function lhs a.number)

/-- `&Record - &Record` (record_operations.rs:420). -/
def sub (a b : Rec R) (w : World R) : Outcome (Rec R × World R) :=
  if !sameList a b then .panic .explicit else
  match a.history, b.history with
  | none, none => .ok (constant (Subtraction.function a.number b.number), w)
  | some _, none => .ok (a.subNum b.number w)
  | none, some _ => .ok (b.subSwapped a.number w)
  | some h, some _ =>
    .ok (pushBinary w h a.index (Subtraction.dx a.number b.number) b.index
      (Subtraction.dy a.number b.number) (Subtraction.function a.number b.number))

/-- `&Record / &T` (record_operations.rs:721). -/
def divNum (a : Rec R) (c : R) (w : World R) : Rec R × World R :=
  match a.history with
  | none => (constant (Division.function a.number c), w)
  | some h => pushUnary w h a.index (Division.dx a.number c) (Division.function a.number c)

/-- `div_swapped`: `lhs / record` (record_operations.rs:578). -/
def divSwapped (a : Rec R) (lhs : R) (w : World R) : Rec R × World R :=
  match a.history with
  | none => (constant (Division.function lhs a.number), w)
  | some h => pushUnary w h a.index (Division.dy lhs a.number) (Division.function lhs a.number)

/-- `&Record / &Record` (record_operations.rs:677). -/
def div (a b : Rec R) (w : World R) : Outcome (Rec R × World R) :=
  if !sameList a b then .panic .explicit else
  match a.history, b.history with
  | none, none => .ok (constant (Division.function a.number b.number), w)
  | some _, none => .ok (a.divNum b.number w)
  | none, some _ => .ok (b.divSwapped a.number w)
  | some h, some _ =>
    .ok (pushBinary w h a.index (Division.dx a.number b.number) b.index
      (Division.dy a.number b.number) (Division.function a.number b.number))

/-- `Neg` (record_operations.rs:754, 782; since fix G-15): the number is negated directly, for a
    constant and for a variable alike; a variable gets a unary entry with the weight `-T::one()`. -/
def neg (a : Rec R) (w : World R) : Rec R × World R :=
  match a.history with
  | none => (constant (-a.number), w)
  | some h => pushUnary w h a.index (-1) (-a.number)

/-- One round of the loop of `Sum for Record` (record_operations.rs:834-881); the `same_list`
    assertion sits only in the both-have-a-tape arm. -/
def sumStep (total next : Rec R) (w : World R) : Outcome (Rec R × World R) :=
  match total.history, next.history with
  | none, none => .ok (constant (total.number + next.number), w)
  | some h, none => .ok (pushUnary w h total.index 1 (total.number + next.number))
  | none, some h => .ok (pushUnary w h next.index 1 (total.number + next.number))
  | some h, some _ =>
    if !sameList total next then .panic .explicit else
    .ok (pushBinary w h total.index 1 next.index 1 (total.number + next.number))

/-- The loop of `Sum for Record`: when a round panics the entries appended by the earlier rounds
    stay on the tape, so the world is returned in both cases. -/
def sumLoop : List (Rec R) → Rec R → World R → World R × Outcome (Rec R)
  | [], total, w => (w, .ok total)
  | next :: rest, total, w =>
    match sumStep total next w with
    | .ok (total', w') => sumLoop rest total' w'
    | .panic k => (w, .panic k)

/-- `Sum for Record` (record_operations.rs:823): starts from `Record::zero()`, a constant. -/
def sum (items : List (Rec R)) (w : World R) : World R × Outcome (Rec R) :=
  sumLoop items (constant 0) w

end Arith

section Real
variable [Add R] [Sub R] [Mul R] [Div R] [Neg R] [Zero R] [One R] [RealFns R]
open Fn

/-- `Sin for &Record` (record_operations.rs:891). -/
def sin (a : Rec R) (w : World R) : Rec R × World R :=
  match a.history with
  | none => (constant (Sine.function a.number), w)
  | some h => pushUnary w h a.index (Sine.dx a.number) (Sine.function a.number)

/-- `Cos for &Record` (record_operations.rs:937). -/
def cos (a : Rec R) (w : World R) : Rec R × World R :=
  match a.history with
  | none => (constant (Cosine.function a.number), w)
  | some h => pushUnary w h a.index (Cosine.dx a.number) (Cosine.function a.number)

/-- `Exp for &Record` (record_operations.rs:965). -/
def exp (a : Rec R) (w : World R) : Rec R × World R :=
  match a.history with
  | none => (constant (Exponential.function a.number), w)
  | some h => pushUnary w h a.index (Exponential.dx a.number) (Exponential.function a.number)

/-- `Ln for &Record` (record_operations.rs:995). -/
def ln (a : Rec R) (w : World R) : Rec R × World R :=
  match a.history with
  | none => (constant (NaturalLogarithm.function a.number), w)
  | some h =>
    pushUnary w h a.index (NaturalLogarithm.dx a.number) (NaturalLogarithm.function a.number)

/-- `Sqrt for &Record` (record_operations.rs:1025). -/
def sqrt (a : Rec R) (w : World R) : Rec R × World R :=
  match a.history with
  | none => (constant (SquareRoot.function a.number), w)
  | some h => pushUnary w h a.index (SquareRoot.dx a.number) (SquareRoot.function a.number)

/-- `&Record ^ &T` (record_operations.rs:1155). -/
def powNum (a : Rec R) (c : R) (w : World R) : Rec R × World R :=
  match a.history with
  | none => (constant (Power.function a.number c), w)
  | some h => pushUnary w h a.index (Power.dx a.number c) (Power.function a.number c)

/-- `&T ^ &Record` (record_operations.rs:1183); the weight is `d/dy`. -/
def numPow (c : R) (b : Rec R) (w : World R) : Rec R × World R :=
  match b.history with
  | none => (constant (Power.function c b.number), w)
  | some h => pushUnary w h b.index (Power.dy c b.number) (Power.function c b.number)

/-- `&Record ^ &Record` (record_operations.rs:1056). -/
def pow (a b : Rec R) (w : World R) : Outcome (Rec R × World R) :=
  if !sameList a b then .panic .explicit else
  match a.history, b.history with
  | none, none => .ok (constant (Power.function a.number b.number), w)
  | some _, none => .ok (a.powNum b.number w)
  | none, some _ => .ok (numPow a.number b w)
  | some h, some _ =>
    .ok (pushBinary w h a.index (Power.dx a.number b.number) b.index
      (Power.dy a.number b.number) (Power.function a.number b.number))

end Real

end Rec

/-! ## Comparisons (`PartialEq` / `PartialOrd` for `Record`, record_operations.rs:799-817) -/

/-- The element type's `partial_cmp`, from the decisions of `NumOrd`; total for the exact element
    types of the correspondence (`Fp`: order of the signed representative, `Rat`). -/
def numPartialCmp {R : Type} [NumOrd R] (x y : R) : Option Ordering :=
  some (if NumOrd.lt x y then .lt else if NumOrd.eq x y then .eq else .gt)

/-- `PartialOrd::lt/le/gt/ge` are the trait's default methods on top of `partial_cmp`. -/
def ordLt : Option Ordering → Bool
  | some .lt => true
  | _ => false
def ordLe : Option Ordering → Bool
  | some .lt => true
  | some .eq => true
  | _ => false
def ordGt : Option Ordering → Bool
  | some .gt => true
  | _ => false
def ordGe : Option Ordering → Bool
  | some .gt => true
  | some .eq => true
  | _ => false

namespace Rec
variable {R : Type} [NumOrd R]

/-- `PartialEq::eq`: "only the number parts of the record are compared".  There is no
    `same_list` test and the lists are not touched: the world is returned as it was. -/
def eq (a b : Rec R) (w : World R) : Bool × World R := (NumOrd.eq a.number b.number, w)

/-- `PartialOrd::partial_cmp`: `self.number.partial_cmp(&other.number)`. -/
def partialCmp (a b : Rec R) (w : World R) : Option Ordering × World R :=
  (numPartialCmp a.number b.number, w)

end Rec

/-! ## The reverse sweep (`Record::try_derivatives`, differentiation.rs:618-646) -/

section Sweep
variable {R : Type} [Add R] [Mul R] [Zero R] [One R]

/-- `derivatives[p] = derivatives[p].clone() + x` with Rust's bounds check. -/
def accumulate (d : List R) (p : Nat) (x : R) : Outcome (List R) :=
  if h : p < d.length then .ok (d.set p (d[p] + x)) else .panic .index

/-- The body of the loop for entry `i` (`operations[i]`, `derivatives[i]` are in range by the
    loop bounds): read the adjoint once, then the two accumulations in order.  A parent that is
    the entry itself (the placeholder of `append_nullary` / `append_unary`) is skipped
    (`if operation.left_parent != i`), so that an infinite adjoint is not turned into NaN by
    `inf * 0`. -/
def sweepEntry (op : Op R) (i : Nat) (d : List R) : Outcome (List R) :=
  if h : i < d.length then
    let derivative := d[i]
    match (if op.leftParent = i then .ok d
           else accumulate d op.leftParent (derivative * op.leftDerivative)) with
    | .ok d1 =>
      if op.rightParent = i then .ok d1
      else accumulate d1 op.rightParent (derivative * op.rightDerivative)
    | .panic k => .panic k
  else .panic .index

/-- `for i in (0..k).rev()`: entries `k-1, …, 0`. -/
def sweepFrom (ops : Tape R) : Nat → List R → Outcome (List R)
  | 0, d => .ok d
  | i + 1, d =>
    match ops[i]? with
    | none => .panic .index
    | some op =>
      match sweepEntry op i d with
      | .ok d' => sweepFrom ops i d'
      | .panic k => .panic k

/-- `vec![zero; len]`, `derivatives[index] = one` (panics when `index` is not on the tape, which
    happens for a record that was not reset after `clear`), then the backwards loop. -/
def reverseSweep (ops : Tape R) (index : Nat) : Outcome (List R) :=
  let d := List.replicate ops.length (0 : R)
  if index < ops.length then sweepFrom ops ops.length (d.set index 1) else .panic .index

/-- `Record::try_derivatives`: `None` for a constant. -/
def Rec.tryDerivatives (r : Rec R) (w : World R) : Outcome (Option (List R)) :=
  match r.history with
  | none => .ok none
  | some h =>
    match reverseSweep (w h) r.index with
    | .ok d => .ok (some d)
    | .panic k => .panic k

/-- `Record::derivatives` (differentiation.rs:601): panics for a constant. -/
def Rec.derivatives (r : Rec R) (w : World R) : Outcome (List R) :=
  match r.tryDerivatives w with
  | .ok (some d) => .ok d
  | .ok none => .panic .explicit
  | .panic k => .panic k

/-- `Derivatives::at` / `Index<&Record>` (differentiation.rs:382, 395): plain indexing by the
    record's position, whatever tape the record belongs to. -/
def derivativeAt (d : List R) (input : Rec R) : Outcome R :=
  if h : input.index < d.length then .ok d[input.index] else .panic .index

end Sweep

/-! ## Dual numbers: `Trace<T>` (differentiation.rs:139, trace_operations.rs) -/

structure Dual (R : Type) where
  number : R
  derivative : R
  deriving Repr, Inhabited

namespace Dual
variable {R : Type}

section Arith
variable [Add R] [Sub R] [Mul R] [Div R] [Zero R] [One R]

/-- `Trace::constant` (differentiation.rs:170). -/
def constant (c : R) : Dual R := ⟨c, 0⟩
/-- `Trace::variable` (differentiation.rs:184). -/
def mkVar (x : R) : Dual R := ⟨x, 1⟩

/-- `Trace::derivative(function, x)` (differentiation.rs:200): "a shorthand for
    `(function(Trace::variable(x))).derivative`". -/
def derivativeOf (function : Dual R → Dual R) (x : R) : R := (function (mkVar x)).derivative

/-- `Trace::unary` (differentiation.rs:230). -/
def unary (a : Dual R) (fx dfx : R → R) : Dual R :=
  ⟨fx a.number, a.derivative * dfx a.number⟩

/-- `Trace::binary` (differentiation.rs:266). -/
def binary (a b : Dual R) (fxy dfx dfy : R → R → R) : Dual R :=
  ⟨fxy a.number b.number,
   (a.derivative * dfx a.number b.number) + (b.derivative * dfy a.number b.number)⟩

/-- trace_operations.rs:155 -/
def add (a b : Dual R) : Dual R := ⟨a.number + b.number, a.derivative + b.derivative⟩
/-- trace_operations.rs:230 -/
def addNum (a : Dual R) (c : R) : Dual R := ⟨a.number + c, a.derivative⟩
/-- trace_operations.rs:305: `u'v + uv'` -/
def mul (a b : Dual R) : Dual R :=
  ⟨a.number * b.number, (a.derivative * b.number) + (a.number * b.derivative)⟩
/-- trace_operations.rs:328 -/
def mulNum (a : Dual R) (c : R) : Dual R := ⟨a.number * c, a.derivative * c⟩
/-- trace_operations.rs:349 -/
def sub (a b : Dual R) : Dual R := ⟨a.number - b.number, a.derivative - b.derivative⟩
/-- trace_operations.rs:370 -/
def subNum (a : Dual R) (c : R) : Dual R := ⟨a.number - c, a.derivative⟩
/-- trace_operations.rs:391: `(u'v - uv') / v^2` -/
def div (a b : Dual R) : Dual R :=
  ⟨a.number / b.number,
   ((a.derivative * b.number) - (a.number * b.derivative)) / (b.number * b.number)⟩
/-- trace_operations.rs:418: `(u' * c) / (c * c)` -/
def divNum (a : Dual R) (c : R) : Dual R := ⟨a.number / c, (a.derivative * c) / (c * c)⟩
/-- trace_operations.rs:439, 453: `Trace::zero() - self` -/
def neg (a : Dual R) : Dual R := sub (constant 0) a
/-- `Sum for Trace` (trace_operations.rs:131) -/
def sum (items : List (Dual R)) : Dual R :=
  items.foldl (fun total next => ⟨total.number + next.number, total.derivative + next.derivative⟩)
    (constant 0)

end Arith

section Real
variable [Add R] [Sub R] [Mul R] [Div R] [Neg R] [Zero R] [One R] [RealFns R]

/-- trace_operations.rs:467: `u' cos(u)` -/
def sin (a : Dual R) : Dual R := ⟨RealFns.sin a.number, a.derivative * RealFns.cos a.number⟩
/-- trace_operations.rs:505: `-self.derivative.clone() * self.number.clone().sin()` -/
def cos (a : Dual R) : Dual R := ⟨RealFns.cos a.number, (-a.derivative) * RealFns.sin a.number⟩
/-- trace_operations.rs:525 -/
def exp (a : Dual R) : Dual R := ⟨RealFns.exp a.number, a.derivative * RealFns.exp a.number⟩
/-- trace_operations.rs:545: `u' / u` -/
def ln (a : Dual R) : Dual R := ⟨RealFns.ln a.number, a.derivative / a.number⟩
/-- trace_operations.rs:565: `u' / (2 sqrt u)` -/
def sqrt (a : Dual R) : Dual R :=
  ⟨RealFns.sqrt a.number, a.derivative / ((1 + 1) * RealFns.sqrt a.number)⟩
/-- trace_operations.rs:589: `(u' * v * u^(v-1)) + (v' * u^v * ln u)` -/
def pow (a b : Dual R) : Dual R :=
  ⟨RealFns.pow a.number b.number,
   (a.derivative * b.number * RealFns.pow a.number (b.number - 1))
   + (b.derivative * RealFns.pow a.number b.number * RealFns.ln a.number)⟩
/-- trace_operations.rs:672 -/
def powNum (a : Dual R) (c : R) : Dual R :=
  ⟨RealFns.pow a.number c, a.derivative * c * RealFns.pow a.number (c - 1)⟩
/-- trace_operations.rs:753: `v' * c^v * ln c` -/
def numPow (c : R) (b : Dual R) : Dual R :=
  ⟨RealFns.pow c b.number, b.derivative * RealFns.pow c b.number * RealFns.ln c⟩

end Real

/-- `Clone for Trace` (trace_operations.rs:76). -/
def clone (a : Dual R) : Dual R := ⟨a.number, a.derivative⟩

/-- `Clone::clone_from`, the trait's default `*self = source.clone()` -/
def cloneFrom (_dst src : Dual R) : Dual R := src.clone

/-- `Display for Trace` (trace_operations.rs:46): the number. -/
def display (render : R → String) (a : Dual R) : String := render a.number

/-- `PartialEq for Trace` (trace_operations.rs:102): numbers only. -/
def eq [NumOrd R] (a b : Dual R) : Bool := NumOrd.eq a.number b.number

/-- `PartialOrd for Trace` (trace_operations.rs:120). -/
def partialCmp [NumOrd R] (a b : Dual R) : Option Ordering := numPartialCmp a.number b.number

end Dual

end EasyMl
