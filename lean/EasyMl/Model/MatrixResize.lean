/-
  EasyMl.Model.MatrixResize — code-shaped model of the resizing / in-place operations of
  `Matrix<T>` (`src/matrices/mod.rs`) and of the `Slice` algebra (`src/matrices/slices.rs`),
  property C11.  Core Lean only (executed by the `emlmodel` driver).

  Conventions
  * `Vec<T>` is a `List α`; `Vec::insert` is `vecInsert` (panics, kind `index`, when the index
    exceeds the length); `Vec::retain` with the running `(r, c)` counters is `retainRC`;
    `Vec::pop` is taking the head of the reversed list.
  * Every mutating operation returns a `Res`: the matrix **as it is left behind** (what a caller
    that caught the panic with `catch_unwind` keeps using) and the panic kind, if any.  The
    code is followed statement by statement, so an operation that panics after having mutated
    returns the half-mutated matrix — that is how the three defects of the unrepaired code
    (`…Old` definitions at the end of the file) show up, and what the frame theorem of
    `Props/C11.lean` excludes for the repaired code.
  * The operations modelled here are the **repaired** ones (`fixes/E-0*.patch`); the pre-fix
    behaviour is kept as the `…Old` definitions.
  * `usize` arithmetic: the only arithmetic on unvalidated arguments is comparison.  Index
    computations `column + row * columns` happen after the range checks, where they are bounded
    by `data.len() + columns ≤ isize::MAX + columns`, so no overflow outcome is modelled here.
    `columns - 1` inside the `retain` closures cannot underflow for `columns ≥ 1` (part of
    `Matrix.Inv`); it is written as truncated subtraction.
-/
import EasyMl.Model.Matrix
import EasyMl.Model.Tensor

namespace EasyMl

/-! ### `Slice` (slices.rs:22-95) -/

/-- `matrices::slices::Slice` -/
inductive Slice where
  | all
  | none
  | single (i : Nat)
  | range (start stop : Nat)
  | not (s : Slice)
  | and (a b : Slice)
  | or (a b : Slice)
  deriving Repr, DecidableEq, Inhabited

/-- `Slice::accepts` (slices.rs:62-72) -/
def Slice.accepts : Slice → Nat → Bool
  | .all, _ => true
  | .none, _ => false
  | .single i, k => i == k
  | .range start stop, k => decide (start ≤ k) && decide (k < stop)
  | .not s, k => !(s.accepts k)
  | .and a b, k => a.accepts k && b.accepts k
  | .or a b, k => a.accepts k || b.accepts k

/-- `Slice2D::accepts` (slices.rs:160-162) -/
def Slice.accepts2D (rows columns : Slice) (r c : Nat) : Bool :=
  rows.accepts r && columns.accepts c

/-! ### `Vec` primitives -/

/-- `Vec::insert(index, x)`: `none` is the panic "insertion index … should be <= len". -/
def vecInsert {α : Type} (l : List α) (i : Nat) (x : α) : Option (List α) :=
  if i ≤ l.length then some (l.insertIdx i x) else none

/-- `Vec::retain(|_| { let keep = keep(r, c); if c < columns - 1 { c += 1 } else { r += 1; c = 0 }; keep })`
    started with the counters at `(r, c)` — the loop shared by `remove_row`, `remove_column` and
    `retain_mut` (mod.rs:434-443, 467-476, 660-669). -/
def retainRC {α : Type} (columns : Nat) (keep : Nat → Nat → Bool) : List α → Nat → Nat → List α
  | [], _, _ => []
  | x :: xs, r, c =>
    let rest := if c < columns - 1 then retainRC columns keep xs r (c + 1)
                else retainRC columns keep xs (r + 1) 0
    if keep r c then x :: rest else rest

/-- the accepted indexes among `0..n`, counted by the `for i in 0..n { if accepts(i) { accepted += 1 } }`
    loops of `retain_mut` (mod.rs:631-648) -/
def countAccepted (s : Slice) (n : Nat) : Nat :=
  (List.range n).foldl (fun accepted i => if s.accepts i then accepted + 1 else accepted) 0

/-- the `[r, c]` pairs produced by `ShapeIterator::from([("row", rows), ("column", columns)])`
    and by the nested `for i in 0..rows { for j in 0..columns` loops: row-major order. -/
def indexPairs (rows columns : Nat) : List (Nat × Nat) :=
  (List.range rows).flatMap fun r => (List.range columns).map fun c => (r, c)

namespace Matrix

variable {α : Type}

/-- The matrix left behind by an operation, and the panic it ended with (if any). -/
structure Res (α : Type) where
  state : Matrix α
  panic : Option PanicKind
  deriving Repr, DecidableEq

/-! ### element access (mod.rs:1217-1229 `get`, 374-380 `set`; line numbers: /repo at the fix commits) -/

/-- `Matrix::get`: two asserts, then `self.data[index].clone()` -/
def getP (m : Matrix α) (row column : Nat) : Outcome α :=
  if row < m.rows then
    if column < m.columns then
      match m.data[m.getIndex row column]? with
      | some x => .ok x
      | none => .panic .index
    else .panic .explicit
  else .panic .explicit

/-- `Matrix::set` (also `*get_reference_mut(row, column) = value`) -/
def set (m : Matrix α) (row column : Nat) (value : α) : Res α :=
  if row < m.rows then
    if column < m.columns then
      if m.getIndex row column < m.data.length then
        ⟨{ m with data := m.data.set (m.getIndex row column) value }, none⟩
      else ⟨m, some .index⟩
    else ⟨m, some .explicit⟩
  else ⟨m, some .explicit⟩

/-! ### remove_row / remove_column (mod.rs:423-478, with fix E-01) -/

/-- `remove_row`: `assert!(rows > 1)`, (fix E-01) `assert!(row < rows)`, retain, `rows -= 1` -/
def removeRow (m : Matrix α) (row : Nat) : Res α :=
  if 1 < m.rows then
    if row < m.rows then
      ⟨{ data := retainRC m.columns (fun r _ => r != row) m.data 0 0,
         rows := m.rows - 1, columns := m.columns }, none⟩
    else ⟨m, some .explicit⟩
  else ⟨m, some .explicit⟩

/-- `remove_column`: `assert!(columns > 1)`, (fix E-01) `assert!(column < columns)`, retain,
    `columns -= 1` -/
def removeColumn (m : Matrix α) (column : Nat) : Res α :=
  if 1 < m.columns then
    if column < m.columns then
      ⟨{ data := retainRC m.columns (fun _ c => c != column) m.data 0 0,
         rows := m.rows, columns := m.columns - 1 }, none⟩
    else ⟨m, some .explicit⟩
  else ⟨m, some .explicit⟩

/-! ### insert_row / insert_row_with (mod.rs:1361-1423, with fix E-02) -/

/-- the loop of `insert_row` **before** fix 8d58bcc (`value.clone()` inside the loop):
    `for column in 0..columns { self.data.insert(self.get_index(row, column), value.clone()) }`.
    Kept because `Model/Survivor.lean` (C10) uses it for the panicking-`Clone` witness. -/
def insertRowLoop (columns row : Nat) (value : α) : List Nat → List α → List α × Option PanicKind
  | [], data => (data, none)
  | column :: rest, data =>
    match vecInsert data (column + row * columns) value with
    | some data' => insertRowLoop columns row value rest data'
    | none => (data, some .index)

/-- (fix E-02) `for (column, value) in new_values.into_iter().enumerate() { self.data.insert(self.get_index(row, column), value) }`,
    `column` being the running `enumerate` counter -/
def insertValuesLoop (columns row : Nat) : Nat → List α → List α → List α × Option PanicKind
  | _, [], data => (data, none)
  | column, v :: vs, data =>
    match vecInsert data (column + row * columns) v with
    | some data' => insertValuesLoop columns row (column + 1) vs data'
    | none => (data, some .index)

/-- `insert_row_with` after fix E-02: the first `columns` values are taken from the iterator and
    counted **before** anything is inserted. -/
def insertRowWith (m : Matrix α) (row : Nat) (values : List α) : Res α :=
  if row ≤ m.rows then
    let newValues := values.take m.columns
    if newValues.length = m.columns then
      match insertValuesLoop m.columns row 0 newValues m.data with
      | (data, none) => ⟨{ data := data, rows := m.rows + 1, columns := m.columns }, none⟩
      | (data, some k) => ⟨{ m with data := data }, some k⟩
    else ⟨m, some .explicit⟩
  else ⟨m, some .explicit⟩

/-- `insert_row` (after fix 8d58bcc): `let new_values = vec![value; columns]` is built before
    anything is modified, then the same enumerate-and-insert loop as `insert_row_with`. -/
def insertRow (m : Matrix α) (row : Nat) (value : α) : Res α :=
  if row ≤ m.rows then
    match insertValuesLoop m.columns row 0 (List.replicate m.columns value) m.data with
    | (data, none) => ⟨{ data := data, rows := m.rows + 1, columns := m.columns }, none⟩
    | (data, some k) => ⟨{ m with data := data }, some k⟩
  else ⟨m, some .explicit⟩

/-! ### insert_column / insert_column_with (mod.rs:1435-1498, with fix E-04) -/

/-- the loop of `insert_column` **before** fix 8d58bcc (`value.clone()` inside the loop); the
    list argument is the reversed range.  Kept beside `insertRowLoop`. -/
def insertColumnLoop (columns column : Nat) (value : α) : List Nat → List α → List α × Option PanicKind
  | [], data => (data, none)
  | row :: rest, data =>
    match vecInsert data (column + row * columns) value with
    | some data' => insertColumnLoop columns column value rest data'
    | none => (data, some .index)

/-- `for row in (0..rows).rev() { self.data.insert(self.get_index(row, column), array_values.pop().unwrap()) }`;
    `stack` is `array_values` **reversed**, so `pop` takes its head. -/
def insertColumnWithLoop (columns column : Nat) : List Nat → List α → List α → List α × Option PanicKind
  | [], _, data => (data, none)
  | row :: rest, stack, data =>
    match stack with
    | [] => (data, some .unwrap)
    | v :: stack' =>
      match vecInsert data (column + row * columns) v with
      | some data' => insertColumnWithLoop columns column rest stack' data'
      | none => (data, some .index)

/-- `insert_column_with` after fix E-04: only the first `rows` values of the iterator are
    collected (the unrepaired code collects all of them and pops from the back, so that surplus
    values displace the leading ones). -/
def insertColumnWith (m : Matrix α) (column : Nat) (values : List α) : Res α :=
  if column ≤ m.columns then
    let arrayValues := values.take m.rows
    if m.rows ≤ arrayValues.length then
      match insertColumnWithLoop m.columns column (List.range m.rows).reverse arrayValues.reverse
              m.data with
      | (data, none) => ⟨{ data := data, rows := m.rows, columns := m.columns + 1 }, none⟩
      | (data, some k) => ⟨{ m with data := data }, some k⟩
    else ⟨m, some .explicit⟩
  else ⟨m, some .explicit⟩

/-- `insert_column` (after fix 8d58bcc): `let mut new_values = vec![value; rows]` first, then the
    reverse loop popping from it, exactly like `insert_column_with`. -/
def insertColumn (m : Matrix α) (column : Nat) (value : α) : Res α :=
  if column ≤ m.columns then
    match insertColumnWithLoop m.columns column (List.range m.rows).reverse
            (List.replicate m.rows value).reverse m.data with
    | (data, none) => ⟨{ data := data, rows := m.rows, columns := m.columns + 1 }, none⟩
    | (data, some k) => ⟨{ m with data := data }, some k⟩
  else ⟨m, some .explicit⟩

/-! ### retain_mut / retain (mod.rs:625-680, 1504-1508, with fix E-03) -/

/-- `retain_mut` after fix E-03: the remaining row and column counts are computed and asserted
    to be positive **before** the data is filtered. -/
def retainMut (m : Matrix α) (rows columns : Slice) : Res α :=
  let remainingRows := countAccepted rows m.rows
  let remainingColumns := countAccepted columns m.columns
  if 0 < remainingRows then
    if 0 < remainingColumns then
      ⟨{ data := retainRC m.columns (Slice.accepts2D rows columns) m.data 0 0,
         rows := remainingRows, columns := remainingColumns }, none⟩
    else ⟨m, some .explicit⟩
  else ⟨m, some .explicit⟩

/-- `Clone for Matrix` = `self.map(|e| e)` = `from_flat_row_major(self.size(), data.clone())`
    (mod.rs:1302-1312, 1514-1518) -/
def clone (m : Matrix α) : Outcome (Matrix α) :=
  match fromFlatRowMajor m.rows m.columns m.data with
  | some c => .ok c
  | none => .panic .explicit

/-- `retain`: clone, `retain_mut` on the clone; `self` is never touched.  The driver replaces
    its matrix by the returned one (`state`) when there was no panic. -/
def retain (m : Matrix α) (rows columns : Slice) : Res α :=
  match clone m with
  | .panic k => ⟨m, some k⟩
  | .ok c =>
    match retainMut c rows columns with
    | ⟨r, none⟩ => ⟨r, none⟩
    | ⟨_, some k⟩ => ⟨m, some k⟩

/-! ### transpose / transpose_mut (mod.rs:1031-1074), from_fn (mod.rs:242-254) -/

/-- the `for [r, c] in iterator { data.push(producer((r, c))) }` loop of `from_fn` -/
def fromFnLoop (producer : Nat → Nat → Outcome α) : List (Nat × Nat) → Outcome (List α)
  | [] => .ok []
  | (r, c) :: rest =>
    match producer r c with
    | .panic k => .panic k
    | .ok x =>
      match fromFnLoop producer rest with
      | .panic k => .panic k
      | .ok xs => .ok (x :: xs)

/-- `Matrix::from_fn` -/
def fromFn (rows columns : Nat) (producer : Nat → Nat → Outcome α) : Outcome (Matrix α) :=
  match fromFnLoop producer (indexPairs rows columns) with
  | .panic k => .panic k
  | .ok data =>
    match fromFlatRowMajor rows columns data with
    | some m => .ok m
    | none => .panic .explicit

/-- `transpose` as a value: `from_fn((columns, rows), |(column, row)| self.get(row, column))` -/
def transposeP (m : Matrix α) : Outcome (Matrix α) :=
  fromFn m.columns m.rows fun column row => m.getP row column

/-- `transpose` (allocating; the driver replaces its matrix by the result) -/
def transpose (m : Matrix α) : Res α :=
  match transposeP m with
  | .ok t => ⟨t, none⟩
  | .panic k => ⟨m, some k⟩

/-- the square branch of `transpose_mut`: for every `(i, j)` in row-major order, skipping
    `i > j`: `temp = get(i, j); set(i, j, get(j, i)); set(j, i, temp)` -/
def transposeMutLoop : List (Nat × Nat) → Matrix α → Res α
  | [], m => ⟨m, none⟩
  | (i, j) :: rest, m =>
    if j < i then transposeMutLoop rest m
    else
      match m.getP i j with
      | .panic k => ⟨m, some k⟩
      | .ok temp =>
        match m.getP j i with
        | .panic k => ⟨m, some k⟩
        | .ok x =>
          match m.set i j x with
          | ⟨m1, some k⟩ => ⟨m1, some k⟩
          | ⟨m1, none⟩ =>
            match m1.set j i temp with
            | ⟨m2, some k⟩ => ⟨m2, some k⟩
            | ⟨m2, none⟩ => transposeMutLoop rest m2

/-- `transpose_mut` -/
def transposeMut (m : Matrix α) : Res α :=
  if m.rows ≠ m.columns then
    match transposeP m with
    | .ok t => ⟨{ data := t.data, rows := t.rows, columns := t.columns }, none⟩
    | .panic k => ⟨m, some k⟩
  else transposeMutLoop (indexPairs m.rows m.columns) m

/-! ### map_mut / map_mut_with_index (mod.rs:1268-1284) -/

/-- `map_mut`: `for value in self.data.iter_mut() { *value = f(value.clone()) }` -/
def mapMut (m : Matrix α) (f : α → α) : Res α :=
  ⟨{ m with data := m.data.map f }, none⟩

/-- `map_mut_with_index`: the row-major `&mut` iterator with index visits every `(i, j)` of the
    *size* and rewrites the element at `get_index(i, j)`. -/
def mapMutWithIndex (m : Matrix α) (f : α → Nat → Nat → α) : Res α :=
  let data' := (indexPairs m.rows m.columns).foldl
    (fun data (ij : Nat × Nat) => data.modify (m.getIndex ij.1 ij.2) (fun x => f x ij.1 ij.2))
    m.data
  ⟨{ m with data := data' }, none⟩

/-! ### map / map_with_index (allocating), scalar (mod.rs:1316-1364, 1266-1277) -/

/-- `map` with an `α → α` function (the driver replaces its matrix by the result):
    `from_flat_row_major(self.size(), self.data.iter().map(f).collect())` -/
def mapAlloc (m : Matrix α) (f : α → α) : Res α :=
  match fromFlatRowMajor m.rows m.columns (m.data.map f) with
  | some r => ⟨r, none⟩
  | none => ⟨m, some .explicit⟩

/-- the item the mapped, indexed, copying iterator yields at `(i, j)`: `f(element, i, j)` -/
def mappedGetP (m : Matrix α) (f : α → Nat → Nat → α) (i j : Nat) : Outcome α :=
  match m.getP i j with
  | .ok x => .ok (f x i j)
  | .panic k => .panic k

/-- `map_with_index`: the copying row-major iterator with index visits every `(i, j)` of the size,
    the mapped values are collected and handed to `from_flat_row_major(self.size(), …)` -/
def mapWithIndex (m : Matrix α) (f : α → Nat → Nat → α) : Res α :=
  match fromFn m.rows m.columns (m.mappedGetP f) with
  | .ok r => ⟨r, none⟩
  | .panic k => ⟨m, some k⟩

/-- `scalar`: two asserts (exactly one row, exactly one column), then `get(0, 0)` -/
def scalarP (m : Matrix α) : Outcome α :=
  if m.rows = 1 then
    if m.columns = 1 then m.getP 0 0 else .panic .explicit
  else .panic .explicit

/-- `try_into_scalar`: `Ok(first element)` iff the size is `(1, 1)` (`none` = `Err`); the
    `unwrap` of the first element panics on an empty storage -/
def tryIntoScalar (m : Matrix α) : Outcome (Option α) :=
  if m.rows = 1 ∧ m.columns = 1 then
    match m.data with
    | x :: _ => .ok (some x)
    | [] => .panic .unwrap
  else .ok none

/-! ### row / column / diagonal getters (iterators.rs: `RowIterator`, `ColumnIterator`, `DiagonalIterator`) -/

/-- the items an iterator collects through `get_reference_unchecked(row, column).clone()` along a
    list of positions.  An access outside the storage is undefined behaviour in the real code; the
    `verif-hooks` monitor turns it into a panic of kind `hook`, which is how it is modelled. -/
def collectUnchecked (m : Matrix α) : List (Nat × Nat) → Outcome (List α)
  | [] => .ok []
  | (r, c) :: rest =>
    match m.data[m.getIndex r c]? with
    | none => .panic .hook
    | some x =>
      match collectUnchecked m rest with
      | .panic k => .panic k
      | .ok xs => .ok (x :: xs)

/-- `row_iter(row).collect()`: `assert!(index_is_valid(row, 0))`, then the columns `0..columns` -/
def rowIter (m : Matrix α) (row : Nat) : Outcome (List α) :=
  if row < m.rows ∧ 0 < m.columns then
    collectUnchecked m ((List.range m.columns).map fun c => (row, c))
  else .panic .explicit

/-- `column_iter(column).collect()`: `assert!(index_is_valid(0, column))`, then the rows `0..rows` -/
def columnIter (m : Matrix α) (column : Nat) : Outcome (List α) :=
  if 0 < m.rows ∧ column < m.columns then
    collectUnchecked m ((List.range m.rows).map fun r => (r, column))
  else .panic .explicit

/-- `diagonal_iter().collect()`: the positions `(i, i)` for `i` in `0..min(rows, columns)` -/
def diagonalIter (m : Matrix α) : Outcome (List α) :=
  collectUnchecked m ((List.range (min m.rows m.columns)).map fun i => (i, i))

/-! ### equality and clone (mod.rs: `impl PartialEq for Matrix`, `impl Clone for Matrix`) -/

/-- `PartialEq::eq`: the row counts, the column counts, then
    `self.data.iter().zip(other.data.iter()).all(|(x, y)| x == y)` (the `zip` stops at the shorter
    storage: only the invariant makes this an honest comparison) -/
def eqP [BEq α] (a b : Matrix α) : Bool :=
  if a.rows != b.rows then false
  else if a.columns != b.columns then false
  else (a.data.zip b.data).all fun p => p.1 == p.2

/-! ### conversion to a tensor, writes through `MatrixMut` (mod.rs:1004-1016, 1560-1575; traits.rs:179-187) -/

/-- `TryFrom<(Matrix<T>, [Dimension; 2])> for Tensor<T, 2>` / `into_tensor`: the shape
    `[(row_name, rows), (column_name, columns)]` is checked (`InvalidShapeError::is_valid`: names
    differ, no zero length), then `Tensor::from(shape, data)`, which panics when the element count
    does not match.  `.ok none` is the `Err` result. -/
def intoTensorRows {ν : Type} [DecidableEq ν] (m : Matrix α) (rowName columnName : ν) :
    Outcome (Option (Tensor ν α)) :=
  let shape : Shape ν := [(rowName, m.rows), (columnName, m.columns)]
  if hasDuplicates (shape.map (·.1)) || shape.any (·.2 == 0) then .ok none
  else
    match Tensor.tryFrom shape m.data with
    | some t => .ok (some t)
    | none => .panic .explicit

/-- writing through `MatrixMut::try_get_reference_mut`: `none` outside the matrix, never a panic
    for a storage that has the element -/
def trySet (m : Matrix α) (row column : Nat) (value : α) : Option (Matrix α) :=
  if row < m.rows ∧ column < m.columns then
    if m.getIndex row column < m.data.length then
      some { m with data := m.data.set (m.getIndex row column) value }
    else none
  else none

/-! ### Display (`format_view`, views.rs:855-891, used by `impl Display for Matrix`) -/

/-- one row of `format_view`: for every column the value (through `try_get_reference`, a missing
    cell is the `panic!`), followed by `", "` unless it is the last column -/
def formatRowLoop (get : Nat → Option String) (columns : Nat) : List Nat → Outcome (List String)
  | [] => .ok []
  | c :: rest =>
    match get c with
    | none => .panic .explicit
    | some v =>
      match formatRowLoop get columns rest with
      | .panic k => .panic k
      | .ok ts => .ok (v :: (if c < columns - 1 then [", "] else []) ++ ts)

/-- the rows of `format_view`: two spaces before every row but the first, a newline after every
    row but the last -/
def formatRowsLoop (row : Nat → Outcome (List String)) (rows : Nat) : List Nat → Outcome (List String)
  | [] => .ok []
  | r :: rest =>
    match row r with
    | .panic k => .panic k
    | .ok ts =>
      match formatRowsLoop row rows rest with
      | .panic k => .panic k
      | .ok tss =>
        .ok ((if 0 < r then ["  "] else []) ++ ts ++ (if r < rows - 1 then ["\n"] else []) ++ tss)

/-- the pieces `format_view` writes for a matrix, in order (`show` renders one element; the
    precision argument only affects that rendering) -/
def formatTokens (sh : α → String) (m : Matrix α) : Outcome (List String) :=
  match formatRowsLoop
      (fun r => formatRowLoop (fun c => (m.tryGet r c).map sh) m.columns (List.range m.columns))
      m.rows (List.range m.rows) with
  | .panic k => .panic k
  | .ok ts => .ok ("[ " :: ts ++ [" ]"])

/-- `format!("{}", matrix)` -/
def display (sh : α → String) (m : Matrix α) : Outcome String :=
  match formatTokens sh m with
  | .panic k => .panic k
  | .ok ts => .ok (String.join ts)

/-! ### operations as data, histories -/

/-- The operation alphabet of C11. -/
inductive Op (α : Type) where
  | insertRow (row : Nat) (value : α)
  | insertRowWith (row : Nat) (values : List α)
  | insertColumn (column : Nat) (value : α)
  | insertColumnWith (column : Nat) (values : List α)
  | removeRow (row : Nat)
  | removeColumn (column : Nat)
  | retainMut (rows columns : Slice)
  | retain (rows columns : Slice)
  | transpose
  | transposeMut
  | set (row column : Nat) (value : α)
  | mapMut (f : α → α)
  | mapMutWithIndex (f : α → Nat → Nat → α)
  | map (f : α → α)
  | mapWithIndex (f : α → Nat → Nat → α)

/-- Run one operation: the matrix left behind and the panic, if any. -/
def exec (m : Matrix α) : Op α → Res α
  | .insertRow row v => m.insertRow row v
  | .insertRowWith row vs => m.insertRowWith row vs
  | .insertColumn column v => m.insertColumn column v
  | .insertColumnWith column vs => m.insertColumnWith column vs
  | .removeRow row => m.removeRow row
  | .removeColumn column => m.removeColumn column
  | .retainMut rows columns => m.retainMut rows columns
  | .retain rows columns => m.retain rows columns
  | .transpose => m.transpose
  | .transposeMut => m.transposeMut
  | .set row column v => m.set row column v
  | .mapMut f => m.mapMut f
  | .mapMutWithIndex f => m.mapMutWithIndex f
  | .map f => m.mapAlloc f
  | .mapWithIndex f => m.mapWithIndex f

/-- `step` in the usual `Outcome` form: the new matrix, or the panic (the matrix that survives a
    panic is `(exec m op).state`; `panic_frame` proves it is `m`). -/
def step (m : Matrix α) (op : Op α) : Outcome (Matrix α) :=
  match exec m op with
  | ⟨s, none⟩ => .ok s
  | ⟨_, some k⟩ => .panic k

/-- A history: every operation acts on the matrix the previous one left behind (after a caught
    panic the caller keeps using the same object). -/
def run (m : Matrix α) : List (Op α) → Matrix α
  | [] => m
  | op :: ops => run (exec m op).state ops

/-- The panic flags observed along a history. -/
def runTrace (m : Matrix α) : List (Op α) → List Bool
  | [] => []
  | op :: ops => (exec m op).panic.isSome :: runTrace (exec m op).state ops

/-! ### user code that panics part way: closures and iterators (`XOp`)

  The closure-taking operations call user code once per element, the `_with` forms call the
  iterator's `next`.  `XOp` adds, beside every ordinary operation, the variants in which that user
  code panics on its `k`-th call (0-based).  What the caller that caught the panic keeps:
  * `map_mut` (mod.rs:1282): `for value in self.data.iter_mut() { *value = f(value.clone()) }` —
    the elements before the `k`-th are already mapped, the others are not; the size is untouched.
  * `map_mut_with_index` (mod.rs:1292): the same along the row-major `&mut` iterator.
  * `map`, `map_with_index` (allocating): `self` is never touched.
  * `insert_row_with` / `insert_column_with` (after fixes E-02 / E-04): the values are taken out of
    the iterator (`take(n).collect()`, i.e. `min(n, len + 1)` calls of `next`) before anything is
    modified, so a panicking `next` leaves the matrix untouched. -/

/-- `for value in data.iter_mut() { *value = f(value.clone()) }` where `f` panics on the call
    after `k` successful ones -/
def mapMutLoop (f : α → α) : Nat → List α → List α × Option PanicKind
  | _, [] => ([], none)
  | 0, x :: xs => (x :: xs, some .explicit)
  | k + 1, x :: xs =>
    let r := mapMutLoop f k xs
    (f x :: r.1, r.2)

/-- `map_mut` with a closure that panics on its `k`-th call -/
def mapMutPanic (m : Matrix α) (f : α → α) (k : Nat) : Res α :=
  let r := mapMutLoop f k m.data
  ⟨{ m with data := r.1 }, r.2⟩

/-- the `for_each` over the indexed row-major `&mut` iterator, the closure panicking on the call
    after `k` successful ones -/
def mapIdxLoop (columns : Nat) (f : α → Nat → Nat → α) :
    Nat → List (Nat × Nat) → List α → List α × Option PanicKind
  | _, [], data => (data, none)
  | 0, _ :: _, data => (data, some .explicit)
  | k + 1, ij :: rest, data =>
    mapIdxLoop columns f k rest (data.modify (ij.2 + ij.1 * columns) (fun x => f x ij.1 ij.2))

/-- `map_mut_with_index` with a closure that panics on its `k`-th call -/
def mapMutWithIndexPanic (m : Matrix α) (f : α → Nat → Nat → α) (k : Nat) : Res α :=
  let r := mapIdxLoop m.columns f k (indexPairs m.rows m.columns) m.data
  ⟨{ m with data := r.1 }, r.2⟩

/-- `map` with a closure that panics on its `k`-th call: called once per stored element -/
def mapPanic (m : Matrix α) (f : α → α) (k : Nat) : Res α :=
  if k < m.data.length then ⟨m, some .explicit⟩ else m.mapAlloc f

/-- `map_with_index` with a closure that panics on its `k`-th call: called once per `(i, j)` of
    the size -/
def mapWithIndexPanic (m : Matrix α) (f : α → Nat → Nat → α) (k : Nat) : Res α :=
  if k < (indexPairs m.rows m.columns).length then ⟨m, some .explicit⟩ else m.mapWithIndex f

/-- the number of `next` calls `values.take(n).collect()` makes on an iterator holding `len` values -/
def nextCalls (n len : Nat) : Nat := if n ≤ len then n else len + 1

/-- `insert_row_with` with an iterator whose `next` panics on its `k`-th call -/
def insertRowWithPanic (m : Matrix α) (row : Nat) (values : List α) (k : Nat) : Res α :=
  if row ≤ m.rows then
    if k < nextCalls m.columns values.length then ⟨m, some .explicit⟩ else m.insertRowWith row values
  else ⟨m, some .explicit⟩

/-- `insert_column_with` with an iterator whose `next` panics on its `k`-th call -/
def insertColumnWithPanic (m : Matrix α) (column : Nat) (values : List α) (k : Nat) : Res α :=
  if column ≤ m.columns then
    if k < nextCalls m.rows values.length then ⟨m, some .explicit⟩
    else m.insertColumnWith column values
  else ⟨m, some .explicit⟩

/-- Operations, including those whose user-supplied closure / iterator panics part way. -/
inductive XOp (α : Type) where
  | op (o : Op α)
  | mapMutPanic (f : α → α) (k : Nat)
  | mapMutWithIndexPanic (f : α → Nat → Nat → α) (k : Nat)
  | mapPanic (f : α → α) (k : Nat)
  | mapWithIndexPanic (f : α → Nat → Nat → α) (k : Nat)
  | insertRowWithPanic (row : Nat) (values : List α) (k : Nat)
  | insertColumnWithPanic (column : Nat) (values : List α) (k : Nat)

def xexec (m : Matrix α) : XOp α → Res α
  | .op o => m.exec o
  | .mapMutPanic f k => m.mapMutPanic f k
  | .mapMutWithIndexPanic f k => m.mapMutWithIndexPanic f k
  | .mapPanic f k => m.mapPanic f k
  | .mapWithIndexPanic f k => m.mapWithIndexPanic f k
  | .insertRowWithPanic row values k => m.insertRowWithPanic row values k
  | .insertColumnWithPanic column values k => m.insertColumnWithPanic column values k

/-- histories over `XOp` -/
def xrun (m : Matrix α) : List (XOp α) → Matrix α
  | [] => m
  | x :: xs => xrun (xexec m x).state xs

def xrunTrace (m : Matrix α) : List (XOp α) → List Bool
  | [] => []
  | x :: xs => (xexec m x).panic.isSome :: xrunTrace (xexec m x).state xs

/-! ### one iterator lent to a sequence of `_with` insertions (`values.by_ref()`) -/

/-- One insertion fed from a lent iterator holding `values`: the result of the insertion and what
    the iterator still holds afterwards.  The position is asserted before the iterator is
    touched; then `values.take(n).collect()` pulls `n` values (all of them when fewer are left). -/
def sharedStep (m : Matrix α) (isRow : Bool) (position : Nat) (values : List α) : Res α × List α :=
  if isRow then
    (m.insertRowWith position values, if position ≤ m.rows then values.drop m.columns else values)
  else
    (m.insertColumnWith position values,
      if position ≤ m.columns then values.drop m.rows else values)

/-- A sequence of insertions `(is_row, position)` sharing one iterator: the matrix left behind,
    the panic flag of every step, and what the iterator yields afterwards. -/
def sharedInserts (m : Matrix α) : List (Bool × Nat) → List α → Matrix α × List Bool × List α
  | [], values => (m, [], values)
  | (isRow, position) :: steps, values =>
    let r := sharedStep m isRow position values
    let rest := sharedInserts r.1.state steps r.2
    (rest.1, r.1.panic.isSome :: rest.2.1, rest.2.2)

/-! ### every public constructor (mod.rs:80-272, 1207-1229, 1753-1789) -/

/-- `from_flat_row_major`: `assert!(size.0.checked_mul(size.1) == Some(values.len()))`,
    `assert!(!values.is_empty())` -/
def fromFlatRowMajorC (rows columns : Nat) (values : List α) : Outcome (Matrix α) :=
  if rows * columns ≤ usizeMax ∧ rows * columns = values.length then
    if values ≠ [] then .ok ⟨values, rows, columns⟩ else .panic .explicit
  else .panic .explicit

/-- `empty(value, (rows, columns))`: `assert!(rows > 0 && columns > 0)`, the checked product,
    `vec![value; length]` -/
def emptyC (value : α) (rows columns : Nat) : Outcome (Matrix α) :=
  if 0 < rows ∧ 0 < columns then
    if rows * columns ≤ usizeMax then
      .ok ⟨List.replicate (rows * columns) value, rows, columns⟩
    else .panic .explicit
  else .panic .explicit

/-- `from_fn` with its leading overflow check (`fromFn` above is the part after it; `transpose`
    calls it with `columns * rows = data.len()`, where the check cannot fail) -/
def fromFnC (rows columns : Nat) (producer : Nat → Nat → α) : Outcome (Matrix α) :=
  if rows * columns ≤ usizeMax then fromFn rows columns fun r c => .ok (producer r c)
  else .panic .explicit

/-- `for (i, element) in values.into_iter().enumerate() { matrix.set(i, i, element) }`
    (`from_diagonal`), and with `values = [value.clone(); n]` the loop
    `for i in 0..size.0 { matrix.set(i, i, value.clone()) }` of `diagonal`; `i` is the counter -/
def setDiagLoop : Nat → List α → Matrix α → Res α
  | _, [], m => ⟨m, none⟩
  | i, x :: xs, m =>
    match m.set i i x with
    | ⟨m1, none⟩ => setDiagLoop (i + 1) xs m1
    | ⟨m1, some k⟩ => ⟨m1, some k⟩

/-- `diagonal(value, (rows, columns))`: `assert!(rows == columns)`, `empty(T::zero(), size)`, the
    diagonal writes -/
def diagonalC (zero value : α) (rows columns : Nat) : Outcome (Matrix α) :=
  if rows = columns then
    match emptyC zero rows columns with
    | .panic k => .panic k
    | .ok m =>
      match setDiagLoop 0 (List.replicate rows value) m with
      | ⟨m', none⟩ => .ok m'
      | ⟨_, some k⟩ => .panic k
  else .panic .explicit

/-- `from_diagonal(values)`: `empty(T::zero(), (n, n))` with `n = values.len()`, the diagonal writes -/
def fromDiagonalC (zero : α) (values : List α) : Outcome (Matrix α) :=
  match emptyC zero values.length values.length with
  | .panic k => .panic k
  | .ok m =>
    match setDiagLoop 0 values m with
    | ⟨m', none⟩ => .ok m'
    | ⟨_, some k⟩ => .panic k

/-- The public constructors of `Matrix<T>` as data (`zero` stands for `T::zero()`). -/
inductive Ctor (α : Type) where
  | fromScalar (value : α)                                   -- `from_scalar`, `unit`
  | row (values : List α)
  | column (values : List α)
  | fromRows (values : List (List α))                        -- `Matrix::from`
  | fromFlatRowMajor (rows columns : Nat) (values : List α)
  | fromFn (rows columns : Nat) (producer : Nat → Nat → α)
  | empty (value : α) (rows columns : Nat)
  | diagonal (zero value : α) (rows columns : Nat)
  | fromDiagonal (zero : α) (values : List α)

/-- Run a constructor: the matrix, or the panic. -/
def Ctor.build : Ctor α → Outcome (Matrix α)
  | .fromScalar value => .ok ⟨[value], 1, 1⟩
  | .row values => if values ≠ [] then .ok ⟨values, 1, values.length⟩ else .panic .explicit
  | .column values => if values ≠ [] then .ok ⟨values, values.length, 1⟩ else .panic .explicit
  | .fromRows values =>
    match Matrix.fromRows values with
    | some m => .ok m
    | none => .panic .explicit
  | .fromFlatRowMajor rows columns values => fromFlatRowMajorC rows columns values
  | .fromFn rows columns producer => fromFnC rows columns producer
  | .empty value rows columns => emptyC value rows columns
  | .diagonal zero value rows columns => diagonalC zero value rows columns
  | .fromDiagonal zero values => fromDiagonalC zero values

/-! ### the unrepaired code (pinned commit), kept for the defect witnesses -/

/-- `remove_row` before fix E-01: no check that the row exists. -/
def removeRowOld (m : Matrix α) (row : Nat) : Res α :=
  if 1 < m.rows then
    ⟨{ data := retainRC m.columns (fun r _ => r != row) m.data 0 0,
       rows := m.rows - 1, columns := m.columns }, none⟩
  else ⟨m, some .explicit⟩

/-- `remove_column` before fix E-01 -/
def removeColumnOld (m : Matrix α) (column : Nat) : Res α :=
  if 1 < m.columns then
    ⟨{ data := retainRC m.columns (fun _ c => c != column) m.data 0 0,
       rows := m.rows, columns := m.columns - 1 }, none⟩
  else ⟨m, some .explicit⟩

/-- the loop of `insert_row_with` before fix E-02: `values.next().unwrap_or_else(|| panic!(…))`
    is evaluated inside the loop, after earlier iterations have already inserted. -/
def insertRowWithLoopOld (columns row : Nat) : List Nat → List α → List α → List α × Option PanicKind
  | [], _, data => (data, none)
  | column :: rest, values, data =>
    match values with
    | [] => (data, some .explicit)
    | v :: vs =>
      match vecInsert data (column + row * columns) v with
      | some data' => insertRowWithLoopOld columns row rest vs data'
      | none => (data, some .index)

/-- `insert_row_with` before fix E-02 -/
def insertRowWithOld (m : Matrix α) (row : Nat) (values : List α) : Res α :=
  if row ≤ m.rows then
    match insertRowWithLoopOld m.columns row (List.range m.columns) values m.data with
    | (data, none) => ⟨{ data := data, rows := m.rows + 1, columns := m.columns }, none⟩
    | (data, some k) => ⟨{ m with data := data }, some k⟩
  else ⟨m, some .explicit⟩

/-- `insert_column_with` before fix E-04: all values are collected, then popped from the back. -/
def insertColumnWithOld (m : Matrix α) (column : Nat) (values : List α) : Res α :=
  if column ≤ m.columns then
    if m.rows ≤ values.length then
      match insertColumnWithLoop m.columns column (List.range m.rows).reverse values.reverse
              m.data with
      | (data, none) => ⟨{ data := data, rows := m.rows, columns := m.columns + 1 }, none⟩
      | (data, some k) => ⟨{ m with data := data }, some k⟩
    else ⟨m, some .explicit⟩
  else ⟨m, some .explicit⟩

/-- `retain_mut` before fix E-03: the data is filtered first, the counts are asserted afterwards
    (the third assert, `!self.data.is_empty()`, included). -/
def retainMutOld (m : Matrix α) (rows columns : Slice) : Res α :=
  let data := retainRC m.columns (Slice.accepts2D rows columns) m.data 0 0
  let remainingRows := countAccepted rows m.rows
  let remainingColumns := countAccepted columns m.columns
  if 0 < remainingRows then
    if 0 < remainingColumns then
      if data ≠ [] then
        ⟨{ data := data, rows := remainingRows, columns := remainingColumns }, none⟩
      else ⟨{ m with data := data }, some .explicit⟩
    else ⟨{ m with data := data }, some .explicit⟩
  else ⟨{ m with data := data }, some .explicit⟩

end Matrix
end EasyMl
