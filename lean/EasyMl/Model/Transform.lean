/-
  EasyMl.Model.Transform — code-shaped model of the tensor transformations and of tensor
  equality / similarity (C13).

    src/tensors/indexing.rs   ShapeIterator (`iter`, the odometer with its carry loop),
                              TensorIterator / TensorReferenceIterator / WithIndex,
                              TensorAccess over any source, TensorTranspose
    src/tensors/views/renamed.rs   TensorRename
    src/tensors/mod.rs        reorder, transpose, reorder_mut (square 2-D swap loop and
                              fallback), transpose_mut, reshape_mut/_owned, rename/_owned,
                              map*, elementwise*, first, scalar, into_matrix
    src/tensors/views.rs      the same operations on `TensorView<T, S, D>` (any source `S`)
    src/tensors/operations.rs tensor_equality, tensor_similarity
    src/matrices/mod.rs       Matrix -> Tensor conversion

  A `TensorRef` source is modelled by `TView`: its `view_shape` and its `get_reference`.
  Core Lean only.
-/
import EasyMl.Model.Tensor
import EasyMl.Model.Matrix

namespace EasyMl

variable {ν : Type} [DecidableEq ν] {α β : Type}

/-! ### `ShapeIterator` -/

/-- The carry loop of `iter` on dimensions `1..D-1` (`for d in (1..D).rev()`), right to left.
    Entering from the right end is the `indexes[D - 1] += 1`.  Returns the new tail of the index
    array and whether the dimension to the left is to be incremented. -/
def carryTail : List Nat → List Nat → List Nat × Bool
  | l :: ls, i :: is =>
    let r := carryTail ls is
    let i' := if r.2 then i + 1 else i
    if i' = l then (0 :: r.1, true) else (i' :: r.1, false)
  | _, _ => ([], true)

structure ShapeIter where
  lens : List Nat
  indexes : List Nat
  finished : Bool
  deriving Repr, DecidableEq

/-- `ShapeIterator::from` -/
def ShapeIter.start (lens : List Nat) : ShapeIter :=
  { lens := lens, indexes := lens.map fun _ => 0, finished := !(lens.all fun l => decide (l > 0)) }

/-- `Iterator::next for ShapeIterator` (the free function `iter`). -/
def ShapeIter.next (s : ShapeIter) : Option (List Nat) × ShapeIter :=
  if s.finished then (none, s)
  else
    match s.lens, s.indexes with
    | l0 :: ls, i0 :: is =>
      let r := carryTail ls is
      let i0' := if r.2 then i0 + 1 else i0
      (some s.indexes, { s with indexes := i0' :: r.1, finished := decide (i0' = l0) })
    | _, _ => (some s.indexes, { s with finished := true })

/-- Run the iterator to exhaustion (at most `fuel` items). -/
def ShapeIter.drain : Nat → ShapeIter → List (List Nat)
  | 0, _ => []
  | fuel + 1, s =>
    match s.next with
    | (none, _) => []
    | (some idx, s') => idx :: ShapeIter.drain fuel s'

/-- All indexes a `ShapeIterator` over lengths `lens` yields, in order. -/
def shapeIndexes (lens : List Nat) : List (List Nat) :=
  ShapeIter.drain (prod lens) (ShapeIter.start lens)

/-! ### sources (`TensorRef`) and the lazy views -/

/-- What the library can observe of a `TensorRef<T, D>`: `view_shape` and `get_reference`. -/
structure TView (ν α : Type) where
  shape : Shape ν
  get : List Nat → Option α

/-- `TensorRef for Tensor` -/
def Tensor.view (t : Tensor ν α) : TView ν α := { shape := t.shape, get := t.get }

/-- `TensorIterator` / `TensorReferenceIterator` over a source. -/
def TView.iter (v : TView ν α) : List α :=
  (shapeIndexes (v.shape.map (·.2))).filterMap v.get

/-- `….with_index()` -/
def TView.iterWithIndex (v : TView ν α) : List (List Nat × α) :=
  (shapeIndexes (v.shape.map (·.2))).filterMap fun idx => (v.get idx).map fun x => (idx, x)

/-- `TensorAccess::try_from(source, dimensions)` as a source of its own. -/
def TView.access [Inhabited ν] (v : TView ν α) (dimensions : List ν) : Option (TView ν α) :=
  match DimensionMappings.new v.shape dimensions with
  | none => none
  | some m =>
    some { shape := m.mapShapeToRequested v.shape,
           get := fun idx => v.get (m.mapDimensionsToSource idx) }

/-- `DimensionMappings::no_op_mapping` -/
def DimensionMappings.noOp (d : Nat) : DimensionMappings :=
  { sourceToRequested := List.range d, requestedToSource := List.range d }

/-- `TensorAccess::from_source_order(source)` -/
def TView.accessSourceOrder [Inhabited ν] (v : TView ν α) : TView ν α :=
  let m := DimensionMappings.noOp v.shape.length
  { shape := m.mapShapeToRequested v.shape, get := fun idx => v.get (m.mapDimensionsToSource idx) }

/-- `shape[d].0 = names[d]` for every `d` (used by `rename`, `transpose`, `TensorRename`,
    `TensorTranspose::shape`). -/
def setNames (shape : Shape ν) (names : List ν) : Shape ν :=
  List.zipWith (fun d n => (n, d.2)) shape names

/-- `TensorTranspose::try_from(source, dimensions)`: indexing of the access, names of the source. -/
def TView.transposeView [Inhabited ν] (v : TView ν α) (dimensions : List ν) : Option (TView ν α) :=
  match v.access dimensions with
  | none => none
  | some a => some { shape := setNames a.shape (v.shape.map (·.1)), get := a.get }

/-- `TensorRename::from(source, dimensions)` (panics on repeated names). -/
def TView.renameView (v : TView ν α) (dimensions : List ν) : Outcome (TView ν α) :=
  if hasDuplicates dimensions then .panic .explicit
  else .ok { shape := setNames v.shape dimensions, get := v.get }

/-- `Tensor::from(shape, data)` -/
def Tensor.fromOrPanic (shape : Shape ν) (data : List α) : Outcome (Tensor ν α) :=
  match Tensor.tryFrom shape data with
  | some t => .ok t
  | none => .panic .explicit

/-! ### allocating transformations (`TensorView<T, S, D>`, and `Tensor` where the code is the same) -/

/-- `reorder`: `TensorAccess::try_from`, then `Tensor::from(access.shape(), access.iter().collect())` -/
def TView.reorder [Inhabited ν] (v : TView ν α) (dimensions : List ν) : Outcome (Tensor ν α) :=
  match v.access dimensions with
  | none => .panic .explicit
  | some a => Tensor.fromOrPanic a.shape a.iter

/-- `transpose`: reorder, then put the original names back in place. -/
def TView.transpose [Inhabited ν] (v : TView ν α) (dimensions : List ν) : Outcome (Tensor ν α) :=
  match v.reorder dimensions with
  | .panic k => .panic k
  | .ok r => .ok { r with shape := setNames r.shape (v.shape.map (·.1)) }

def Tensor.reorder [Inhabited ν] (t : Tensor ν α) (dimensions : List ν) : Outcome (Tensor ν α) :=
  t.view.reorder dimensions

def Tensor.transpose [Inhabited ν] (t : Tensor ν α) (dimensions : List ν) : Outcome (Tensor ν α) :=
  t.view.transpose dimensions

/-- `TensorView::map` / `TensorAccess::map` -/
def TView.map (f : α → β) (v : TView ν α) : Outcome (Tensor ν β) :=
  Tensor.fromOrPanic v.shape (v.iter.map f)

/-- `TensorView::map_with_index` / `TensorAccess::map_with_index` -/
def TView.mapWithIndex (f : List Nat → α → β) (v : TView ν α) : Outcome (Tensor ν β) :=
  Tensor.fromOrPanic v.shape (v.iterWithIndex.map fun p => f p.1 p.2)

/-- `Tensor::map` (maps the data directly, keeps shape and strides) -/
def Tensor.map (f : α → β) (t : Tensor ν α) : Tensor ν β :=
  { data := t.data.map f, shape := t.shape, strides := t.strides }

/-- `Tensor::map_with_index` (`self.iter().with_index()`, keeps shape and strides) -/
def Tensor.mapWithIndex (f : List Nat → α → β) (t : Tensor ν α) : Tensor ν β :=
  { data := t.view.iterWithIndex.map fun p => f p.1 p.2, shape := t.shape, strides := t.strides }

/-- `TensorView::elementwise*` (without index) -/
def TView.elementwise [DecidableEq (Shape ν)] (f : α → α → α) (l r : TView ν α) :
    Outcome (Tensor ν α) :=
  if l.shape ≠ r.shape then .panic .explicit
  else Tensor.fromOrPanic l.shape (List.zipWith f l.iter r.iter)

/-- `TensorView::elementwise*_with_index` -/
def TView.elementwiseWithIndex [DecidableEq (Shape ν)] (f : List Nat → α → α → α)
    (l r : TView ν α) : Outcome (Tensor ν α) :=
  if l.shape ≠ r.shape then .panic .explicit
  else Tensor.fromOrPanic l.shape (List.zipWith (fun p y => f p.1 p.2 y) l.iterWithIndex r.iter)

/-- `Tensor::elementwise*` (left data read directly, shape and strides kept) -/
def Tensor.elementwise [DecidableEq (Shape ν)] (f : α → α → α) (t : Tensor ν α) (r : TView ν α) :
    Outcome (Tensor ν α) :=
  if t.shape ≠ r.shape then .panic .explicit
  else .ok { t with data := List.zipWith f t.data r.iter }

/-- `Tensor::elementwise*_with_index` (the index comes from the right operand's iterator) -/
def Tensor.elementwiseWithIndex [DecidableEq (Shape ν)] (f : List Nat → α → α → α)
    (t : Tensor ν α) (r : TView ν α) : Outcome (Tensor ν α) :=
  if t.shape ≠ r.shape then .panic .explicit
  else .ok { t with data := List.zipWith (fun x p => f p.1 x p.2) t.data r.iterWithIndex }

/-- `Tensor::first` (`.expect` on an empty `Vec`) -/
def Tensor.first (t : Tensor ν α) : Outcome α :=
  match t.data.head? with
  | some x => .ok x
  | none => .panic .explicit

/-- `TensorView::first` / `TensorAccess::first` (`self.iter().next().expect(..)`) -/
def TView.first (v : TView ν α) : Outcome α :=
  match v.iter.head? with
  | some x => .ok x
  | none => .panic .explicit

/-- `TensorView<T, S, 0>::scalar` (`get_reference([]).unwrap()`) -/
def TView.scalar (v : TView ν α) : Outcome α :=
  match v.get [] with
  | some x => .ok x
  | none => .panic .unwrap

/-- `TensorView<T, S, 0>::into_scalar` (`TensorOwnedIterator::from(source).next().unwrap()`) -/
def TView.intoScalar (v : TView ν α) : Outcome α :=
  match v.iter.head? with
  | some x => .ok x
  | none => .panic .unwrap

/-! ### in-place transformations -/

/-- `dimensions::is_square` -/
def isSquare (shape : Shape ν) : Bool :=
  match shape with
  | [] => true
  | d :: rest => rest.all fun e => e.2 == d.2

/-- One iteration of the swap loop in `reorder_mut`'s square branch.  `t` supplies the (old,
    unchanged during the loop) shape and strides; `acc` is the data so far. -/
def swapStep (t : Tensor ν α) (m : DimensionMappings) (acc : Outcome (List α)) (index : List Nat) :
    Outcome (List α) :=
  match acc with
  | .panic k => .panic k
  | .ok data =>
    let i := index.getD 0 0
    let j := index.getD 1 0
    if j ≥ i then
      let mapped := m.mapDimensionsToSource index
      match getIndexDirect index t.strides t.shape, getIndexDirect mapped t.strides t.shape with
      | some a, some b =>
        match data[a]?, data[b]? with
        | some x, some y => .ok ((data.set a y).set b x)
        | _, _ => .panic .unwrap
      | _, _ => .panic .unwrap
    else .ok data

/-- `Tensor::reorder_mut` -/
def Tensor.reorderMut [Inhabited ν] (t : Tensor ν α) (dimensions : List ν) : Outcome (Tensor ν α) :=
  if t.shape.length = 2 ∧ isSquare t.shape = true then
    match DimensionMappings.new t.shape dimensions with
    | none => .panic .explicit
    | some m =>
      let shape := m.mapShapeToRequested t.shape
      match (shapeIndexes (shape.map (·.2))).foldl (swapStep t m) (.ok t.data) with
      | .panic k => .panic k
      | .ok data => .ok { data := data, shape := shape, strides := computeStrides shape }
  else
    match t.reorder dimensions with
    | .panic k => .panic k
    | .ok r => .ok { data := r.data, shape := r.shape, strides := r.strides }

/-- `Tensor::transpose_mut` -/
def Tensor.transposeMut [Inhabited ν] (t : Tensor ν α) (dimensions : List ν) : Outcome (Tensor ν α) :=
  match t.reorderMut dimensions with
  | .panic k => .panic k
  | .ok r => .ok { r with shape := setNames r.shape (t.shape.map (·.1)) }

/-- `Tensor::reshape_mut` -/
def Tensor.reshapeMut (t : Tensor ν α) (shape : Shape ν) : Outcome (Tensor ν α) :=
  match validateDimensions shape t.data.length with
  | some _ => .panic .explicit
  | none => .ok { t with shape := shape, strides := computeStrides shape }

/-- `Tensor::reshape_owned` -/
def Tensor.reshapeOwned (t : Tensor ν α) (shape : Shape ν) : Outcome (Tensor ν α) :=
  Tensor.fromOrPanic shape t.data

/-- `Tensor::rename` / `rename_owned` (strides are left as they are) -/
def Tensor.rename (t : Tensor ν α) (dimensions : List ν) : Outcome (Tensor ν α) :=
  if hasDuplicates dimensions then .panic .explicit
  else .ok { t with shape := setNames t.shape dimensions }

/-- `Tensor::map_mut` -/
def Tensor.mapMut (f : α → α) (t : Tensor ν α) : Tensor ν α := { t with data := t.data.map f }

/-- `iter_reference_mut().with_index().for_each(|(i, x)| *x = f(i, x.clone()))` over a mutable
    source `σ` with the given checked read and write (used for `Tensor::map_mut_with_index`,
    `TensorView::map_mut*`, `TensorAccess::map_mut*`). -/
def mapMutVia {σ : Type} (lens : List Nat) (get : σ → List Nat → Option α)
    (set : σ → List Nat → α → Option σ) (f : List Nat → α → α) (s : σ) : σ :=
  (shapeIndexes lens).foldl
    (fun s idx =>
      match get s idx with
      | some x => (set s idx (f idx x)).getD s
      | none => s)
    s

/-- `Tensor::map_mut_with_index`, and `map_mut*` of a `TensorView<T, &mut Tensor, D>` -/
def Tensor.mapMutWithIndex (f : List Nat → α → α) (t : Tensor ν α) : Tensor ν α :=
  mapMutVia (t.shape.map (·.2)) Tensor.get Tensor.set f t

/-- `TensorAccess::map_mut_with_index` / `map_mut` on an access of a tensor; the result is the
    source tensor afterwards. -/
def Access.mapMutWithIndex [Inhabited ν] (f : List Nat → α → α) (a : Access ν α) : Tensor ν α :=
  (mapMutVia (a.shape.map (·.2)) Access.get Access.set f a).source

/-! ### Tensor ↔ Matrix -/

/-- `From<Tensor<T, 2>> for Matrix<T>` / `into_matrix` -/
def Tensor.intoMatrix (t : Tensor ν α) : Outcome (Matrix α) :=
  match t.shape with
  | [r, c] =>
    match Matrix.fromFlatRowMajor r.2 c.2 t.data with
    | some m => .ok m
    | none => .panic .explicit
  | _ => .panic .explicit

/-- `TryFrom<(Matrix<T>, [Dimension; 2])> for Tensor<T, 2>` / `into_tensor`:
    `none` is `Err(InvalidShapeError)`. -/
def Matrix.intoTensor (m : Matrix α) (rowName columnName : ν) : Outcome (Option (Tensor ν α)) :=
  let shape : Shape ν := [(rowName, m.rows), (columnName, m.columns)]
  if hasDuplicates (shape.map (·.1)) || shape.any (·.2 == 0) then .ok none
  else
    match Tensor.fromOrPanic shape m.data with
    | .ok t => .ok (some t)
    | .panic k => .panic k

/-! ### equality and similarity -/

/-- `tensor_equality` -/
def tensorEquality [DecidableEq α] (l r : TView ν α) : Bool :=
  decide (l.shape = r.shape) && (l.iter.zip r.iter).all fun p => decide (p.1 = p.2)

/-- `tensor_similarity` -/
def tensorSimilarity [DecidableEq α] [Inhabited ν] (l r : TView ν α) : Bool :=
  let leftShape := l.shape
  let accessOrder := leftShape.map (·.1)
  let leftAccess := l.accessSourceOrder
  match r.access accessOrder with
  | none => false
  | some rightAccess =>
    if leftShape ≠ rightAccess.shape then false
    else (leftAccess.iter.zip rightAccess.iter).all fun p => decide (p.1 = p.2)

/-! ### equality and similarity for an arbitrary element comparison

`tensor_equality` / `tensor_similarity` only require `T: PartialEq`; nothing makes `==` reflexive
(`f64`: `NaN != NaN`).  These are the same two functions with the element comparison as a
parameter; `tensorEquality` / `tensorSimilarity` above are the instances at `decide (· = ·)`. -/

/-- `tensor_equality` with the element type's `==` given as `rel` -/
def tensorEqualityBy (rel : α → α → Bool) (l r : TView ν α) : Bool :=
  decide (l.shape = r.shape) && (l.iter.zip r.iter).all fun p => rel p.1 p.2

/-- `tensor_similarity` with the element type's `==` given as `rel` -/
def tensorSimilarityBy [Inhabited ν] (rel : α → α → Bool) (l r : TView ν α) : Bool :=
  let leftShape := l.shape
  let accessOrder := leftShape.map (·.1)
  let leftAccess := l.accessSourceOrder
  match r.access accessOrder with
  | none => false
  | some rightAccess =>
    if leftShape ≠ rightAccess.shape then false
    else (leftAccess.iter.zip rightAccess.iter).all fun p => rel p.1 p.2

/-! ### histories of in-place transformations -/

/-- one in-place transformation of a `Tensor<T, D>` (all of them keep `D`) -/
inductive InPlace (ν α : Type) where
  | reorder (dimensions : List ν)      -- `reorder_mut`
  | transpose (dimensions : List ν)    -- `transpose_mut`
  | reshape (shape : Shape ν)          -- `reshape_mut`
  | rename (dimensions : List ν)       -- `rename`
  | map (f : α → α)                    -- `map_mut`
  | mapi (f : List Nat → α → α)        -- `map_mut_with_index`

/-- the number of dimensions the argument arrays of a step have (they are `[_; D]` in the code) -/
def InPlace.arity : InPlace ν α → Option Nat
  | .reorder d | .transpose d | .rename d => some d.length
  | .reshape s => some s.length
  | .map _ | .mapi _ => none

def Tensor.applyInPlace [Inhabited ν] (t : Tensor ν α) : InPlace ν α → Outcome (Tensor ν α)
  | .reorder d => t.reorderMut d
  | .transpose d => t.transposeMut d
  | .reshape s => t.reshapeMut s
  | .rename d => t.rename d
  | .map f => .ok (t.mapMut f)
  | .mapi f => .ok (t.mapMutWithIndex f)

/-- a history of in-place transformations; a panic ends it -/
def Tensor.applyAll [Inhabited ν] (t : Tensor ν α) : List (InPlace ν α) → Outcome (Tensor ν α)
  | [] => .ok t
  | step :: rest =>
    match t.applyInPlace step with
    | .ok t' => t'.applyAll rest
    | .panic k => .panic k

/-! ### further constructors and shape look-ups (driven by C01) -/

/-- `Tensor::from_fn`: `ShapeIterator::from(shape)`, `producer(index)` pushed for every index
    in turn, then `Tensor::from(shape, data)` (panics where this is `none`). -/
def Tensor.fromFn (shape : Shape ν) (producer : List Nat → α) : Option (Tensor ν α) :=
  Tensor.tryFrom shape ((shapeIndexes (shape.map (·.2))).map producer)

/-- `Tensor::from_scalar` / `From<T> for Tensor<T, 0>` (the struct is built directly). -/
def Tensor.fromScalar (value : α) : Tensor ν α := { data := [value], shape := [], strides := [] }

/-- `dimensions::position_of` -/
def dimPositionOf (shape : Shape ν) (dimension : ν) : Option Nat :=
  findPos (fun d => decide (d.1 = dimension)) shape

/-- `dimensions::contains` -/
def dimContains (shape : Shape ν) (dimension : ν) : Bool :=
  shape.any fun d => decide (d.1 = dimension)

/-- `dimensions::length_of` / `Tensor::length_of` / `TensorView::length_of` -/
def dimLengthOf (shape : Shape ν) (dimension : ν) : Option Nat :=
  (shape.find? fun d => decide (d.1 = dimension)).map (·.2)

/-- `dimensions::last_index_of` (`length.saturating_sub(1)`) -/
def dimLastIndexOf (shape : Shape ν) (dimension : ν) : Option Nat :=
  (dimLengthOf shape dimension).map (· - 1)

/-- `dimensions::names_of` -/
def dimNamesOf (shape : Shape ν) : List ν := shape.map (·.1)

/-- `InvalidShapeError::is_valid` -/
def shapeIsValid (shape : Shape ν) : Bool :=
  !hasDuplicates (shape.map (·.1)) && !shape.any (·.2 == 0)

end EasyMl
