/-
  EasyMl.Model.IterView — any tensor view of the C02 model (`View`, Model/View.lean) as a source
  of the C09 iterators: `view_shape()` gives the lengths, `get_reference_unchecked(indexes)` the
  storage cell `(leaf id, offset)`; a `.panic` outcome of the unchecked path (an `unwrap()` on
  `None`, undefined behaviour …) is `none`.  Core Lean only.
-/
import EasyMl.Model.Iter
import EasyMl.Model.View

namespace EasyMl.Iter
open EasyMl

variable {ν : Type} [DecidableEq ν] [Inhabited ν] {α : Type}

def TSource.ofView (v : View ν α) : TSource Cell :=
  { shape := lens v.shape
    cell := fun idx =>
      match v.getUnchecked idx with
      | .ok c => some c
      | .panic _ => none }

end EasyMl.Iter
