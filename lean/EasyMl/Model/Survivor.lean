/-
  EasyMl.Model.Survivor — code-shaped model of "a call that may panic, followed by use of the
  object that survived" for tensors (property C10; matrices are `Matrix.exec`/`Matrix.run` of
  Model/MatrixResize.lean, C11).

    src/tensors/mod.rs      Tensor::from / try_from (validate, then build), reshape_mut
                            (validate against `self.data.len()`, then assign shape and strides),
                            reshape_owned (= `Tensor::from(shape, self.data)`), rename
                            (duplicate check, then the name loop), reorder_mut / transpose_mut
                            (`DimensionMappings::new` / `reorder` first, mutation afterwards),
                            map_mut (`for value in self.data.iter_mut() { *value = f(value.clone()) }`),
                            map_mut_with_index (`iter_reference_mut().with_index().for_each(..)`)
    src/tensors/indexing.rs TensorAccess::from (panics on a name list that is no ordering),
                            TensorAccess::map_mut / map_mut_with_index
    src/matrices/mod.rs     Matrix::from_flat_row_major, Matrix::empty (size validation)

  An operation returns the tensor **left behind** and how the call ended.  The successful paths
  reuse the C13 model (Model/Transform.lean); what this file adds is
    * the survivor of a panicking call (the caller keeps using the same object after
      `catch_unwind`): for every library-raised panic the checks come before the first
      assignment, so the survivor is the tensor as it was;
    * user closures that panic on their `p`-th call: `map_mut*` has then already overwritten the
      first `p` visited cells (the shape, strides and element count are untouched);
    * the sequences of leaf storage offsets the iterators pass to the unchecked accessors
      (predicted from the C09 iterator model and the C01 offset function), which the harness
      compares with the access log of the `verif-hooks` monitor.

  Core Lean only: everything here is executed by the `emlmodel` driver.
-/
import EasyMl.Model.Transform
import EasyMl.Model.Iter
import EasyMl.Model.MatrixResize

namespace EasyMl.Survivor
open EasyMl

variable {ν : Type} [DecidableEq ν] {α : Type}

/-- how a call ended: returned, returned `Err`, or panicked -/
inductive Out where
  | ok
  | err
  | panic (k : PanicKind)
  deriving DecidableEq, Repr

/-- The tensor left behind by an operation and how the call ended. -/
structure Res (ν α : Type) where
  state : Tensor ν α
  out : Out

/-- an `Outcome`-valued transformation of the C13 model as an operation on the caller's object:
    on a panic the object is what it was (all library panics of these operations are raised
    before the first assignment to `self`) -/
def keepOnPanic (t : Tensor ν α) (r : Outcome (Tensor ν α)) : Res ν α :=
  match r with
  | .ok t' => ⟨t', .ok⟩
  | .panic k => ⟨t, .panic k⟩

/-! ### user closures that panic on their `p`-th call -/

/-- `for value in self.data.iter_mut() { *value = f(value.clone()) }` where the closure panics
    on call number `panicAt` (calls are numbered from `calls`): the cells before it are already
    overwritten.  Returns the data and whether the loop was left by the panic. -/
def mapLoop (f : α → α) (panicAt : Option Nat) : List α → Nat → List α × Bool
  | [], _ => ([], false)
  | x :: xs, calls =>
    if panicAt = some calls then (x :: xs, true)
    else
      let r := mapLoop f panicAt xs (calls + 1)
      (f x :: r.1, r.2)

/-- `Tensor::map_mut` with such a closure -/
def mapMut (t : Tensor ν α) (f : α → α) (panicAt : Option Nat) : Res ν α :=
  let r := mapLoop f panicAt t.data 0
  ⟨{ t with data := r.1 }, if r.2 then .panic .explicit else .ok⟩

/-- `iter_reference_mut().with_index().for_each(|(i, x)| *x = f(i, x.clone()))` over a mutable
    source `σ` (checked read/write stand for the unchecked ones; C09/C01 show the visited
    indexes are in bounds), the closure panicking on call number `panicAt`. -/
def mapViaLoop {σ : Type} (get : σ → List Nat → Option α) (set : σ → List Nat → α → Option σ)
    (f : List Nat → α → α) (panicAt : Option Nat) : List (List Nat) → Nat → σ → σ × Bool
  | [], _, s => (s, false)
  | idx :: rest, calls, s =>
    if panicAt = some calls then (s, true)
    else
      let s' := match get s idx with
        | some x => (set s idx (f idx x)).getD s
        | none => s
      mapViaLoop get set f panicAt rest (calls + 1) s'

/-- `Tensor::map_mut_with_index` (also `TensorView::map_mut*` over `&mut Tensor` and
    `TensorAccess::map_mut*` in source order) -/
def mapMutWithIndex (t : Tensor ν α) (f : List Nat → α → α) (panicAt : Option Nat) : Res ν α :=
  let r := mapViaLoop Tensor.get Tensor.set f panicAt (shapeIndexes (t.shape.map (·.2))) 0 t
  ⟨r.1, if r.2 then .panic .explicit else .ok⟩

/-- `TensorAccess::from(&mut tensor, names).map_mut_with_index(f)` (and `map_mut`): a name list
    that is no ordering of the tensor's names panics before anything is touched; otherwise the
    cells are visited in the order of the requested names. -/
def accessMapMut [Inhabited ν] (t : Tensor ν α) (names : List ν) (f : List Nat → α → α)
    (panicAt : Option Nat) : Res ν α :=
  match t.indexBy names with
  | none => ⟨t, .panic .explicit⟩
  | some a =>
    let r := mapViaLoop Access.get Access.set f panicAt (shapeIndexes (a.shape.map (·.2))) 0 a
    ⟨r.1.source, if r.2 then .panic .explicit else .ok⟩

/-- `*tensor.get_reference_mut(indexes)? = value` (checked write; `Err`-like `none` outside) -/
def setChecked (t : Tensor ν α) (idx : List Nat) (v : α) : Res ν α :=
  match t.set idx v with
  | some t' => ⟨t', .ok⟩
  | none => ⟨t, .err⟩

/-! ### the operation alphabet -/

inductive Op (ν α : Type) where
  /-- `Tensor::from(shape, data)`; on success the new tensor replaces the caller's object -/
  | from (shape : Shape ν) (data : List α)
  /-- `Tensor::try_from(shape, data)` -/
  | tryFrom (shape : Shape ν) (data : List α)
  | reshapeMut (shape : Shape ν)
  | reshapeOwned (shape : Shape ν)
  | rename (names : List ν)
  | transposeMut (names : List ν)
  | reorderMut (names : List ν)
  | mapMut (f : α → α) (panicAt : Option Nat)
  | mapMutWithIndex (f : List Nat → α → α) (panicAt : Option Nat)
  | accessMapMut (names : List ν) (f : List Nat → α → α) (panicAt : Option Nat)
  | set (idx : List Nat) (v : α)

/-- Run one operation on the caller's tensor. -/
def exec [Inhabited ν] (t : Tensor ν α) : Op ν α → Res ν α
  | .from shape data => keepOnPanic t (Tensor.fromOrPanic shape data)
  | .tryFrom shape data =>
    match Tensor.tryFrom shape data with
    | some t' => ⟨t', .ok⟩
    | none => ⟨t, .err⟩
  | .reshapeMut shape => keepOnPanic t (t.reshapeMut shape)
  | .reshapeOwned shape => keepOnPanic t (t.reshapeOwned shape)
  | .rename names =>
    -- `[Dimension; D]`: the arity is fixed by the type; a list of another length is not a call
    if names.length = t.shape.length then keepOnPanic t (t.rename names) else ⟨t, .err⟩
  | .transposeMut names => keepOnPanic t (t.transposeMut names)
  | .reorderMut names => keepOnPanic t (t.reorderMut names)
  | .mapMut f p => mapMut t f p
  | .mapMutWithIndex f p => mapMutWithIndex t f p
  | .accessMapMut names f p => accessMapMut t names f p
  | .set idx v => setChecked t idx v

/-- A history: every operation acts on the object the previous one left behind. -/
def run [Inhabited ν] (t : Tensor ν α) : List (Op ν α) → Tensor ν α
  | [] => t
  | op :: ops => run (exec t op).state ops

/-! ### a setter of a view adaptor called with invalid arguments: `TensorRename::set_names` -/

/-- `TensorRename::set_names(dimensions)`: `has_duplicates_names(&dimensions)` panics before the
    assignment, so the names the view had survive; returns the names afterwards and whether the
    call panicked.  (`[Dimension; D]` fixes the arity; a list of another length is not a call.) -/
def renameSetNames (names new : List ν) : List ν × Bool :=
  if new.length ≠ names.length then (names, true)
  else if hasDuplicates new then (names, true)
  else (new, false)

/-! ### the leaf accesses of an iteration -/

/-- one leaf access as the monitor records it: storage offset (`none`: the unchecked accessor
    was called outside the source — undefined behaviour in the Rust) -/
abbrev Access := Option Nat

/-- the leaf accesses among the items of a run of an element iterator (`none` items: the
    iterator had ended) -/
def accessesOf {σ : Type} (r : Outcome (List (Option (Option Nat)) × σ)) : Outcome (List Access) :=
  match r with
  | .panic k => .panic k
  | .ok (items, _) => .ok (items.filterMap id)

/-- The accesses of `n` calls of `next` on a reference/copying/owning tensor iterator over the
    source `src` (C09 model: `refNext shapeNext`): one access per yielded item. -/
def tensorAccesses (src : Iter.TSource Nat) (n : Nat) : Outcome (List Access) :=
  accessesOf (Iter.collect (Iter.refNext Iter.shapeNext src.cell) n (Iter.ShapeIter.new src.shape))

/-- the source a `Tensor` is for its iterators -/
def tensorSource (t : Tensor ν α) : Iter.TSource Nat := Iter.TSource.ofTensor t

/-- the source `TensorAccess::from(&tensor, names)` is for its iterators (`none`: the
    constructor panics) -/
def accessSource (t : Tensor ν α) (names : List ν) : Option (Iter.TSource Nat) :=
  match DimensionMappings.new t.shape names with
  | none => none
  | some m => some ((Iter.TSource.ofTensor t).access m)

/-- `TensorIndex::from(source, [(name, i)])` on dimension `d` (what `select` builds): the shape
    loses dimension `d`, an index of the view gets `i` spliced in at `d`.  `none`: the constructor
    panics (`i` is not below the length of the dimension, or there is no such dimension). -/
def indexSource (src : Iter.TSource Nat) (d i : Nat) : Option (Iter.TSource Nat) :=
  match src.shape[d]? with
  | none => none
  | some len =>
    if i < len then
      some { shape := src.shape.eraseIdx d
             cell := fun idx => src.cell (idx.take d ++ i :: idx.drop d) }
    else none

/-- which whole-matrix or line iterator -/
inductive MOrder where
  | rowMajor
  | columnMajor
  | row (r : Nat)
  | column (c : Nat)
  | diagonal
  deriving DecidableEq, Repr

/-- The accesses of `n` calls of `next` of a matrix iterator over `src`. -/
def matrixAccesses (src : Iter.MSource Nat) (order : MOrder) (n : Nat) : Outcome (List Access) :=
  let line (it : Outcome Iter.LineIter) : Outcome (List Access) :=
    match it with
    | .panic k => .panic k
    | .ok it => accessesOf (Iter.collect (Iter.refNext Iter.lineNext src.cell) n it)
  match order with
  | .rowMajor =>
    accessesOf (Iter.collect (Iter.refNext Iter.rowMajorNext src.cell) n (Iter.MatIter.new src.rows src.columns))
  | .columnMajor =>
    accessesOf (Iter.collect (Iter.refNext Iter.colMajorNext src.cell) n (Iter.MatIter.new src.rows src.columns))
  | .row r => line (Iter.LineIter.newRow src.rows src.columns r)
  | .column c => line (Iter.LineIter.newColumn src.rows src.columns c)
  | .diagonal => line (.ok (Iter.LineIter.newDiagonal src.rows src.columns))

/-! ### `insert_row` / `insert_column` with an element type whose `Clone` panics (fix L-13)

  `Matrix::insert_row(row, value)` and `insert_column(column, value)` fill the new line with
  clones of `value`.  `Clone` is user code: it may panic on its `p`-th call.  After fix L-13 the
  clones are made first (`vec![value; n]`: `n − 1` calls of `clone`, the value itself is moved
  into the last slot) and only then inserted, so a panicking `Clone` leaves the matrix untouched. -/

/-- does `vec![value; n]` panic when `Clone::clone` panics on call number `panicAt`? -/
def cloneFillPanics (n : Nat) (panicAt : Option Nat) : Bool :=
  match panicAt with
  | some p => decide (p + 1 < n)
  | none => false

/-- `insert_row` for an element type whose `Clone` panics on call `panicAt` (repaired code) -/
def insertRowCloning (m : Matrix α) (row : Nat) (value : α) (panicAt : Option Nat) : Matrix.Res α :=
  if row ≤ m.rows then
    if cloneFillPanics m.columns panicAt then ⟨m, some .explicit⟩ else m.insertRow row value
  else ⟨m, some .explicit⟩

/-- `insert_column`, the same -/
def insertColumnCloning (m : Matrix α) (column : Nat) (value : α) (panicAt : Option Nat) :
    Matrix.Res α :=
  if column ≤ m.columns then
    if cloneFillPanics m.rows panicAt then ⟨m, some .explicit⟩ else m.insertColumn column value
  else ⟨m, some .explicit⟩

/-- The unrepaired `insert_row`: `for column in 0..columns { self.data.insert(index, value.clone()) }`
    then `self.rows += 1` — a `clone` panicking on call `p < columns` leaves the `p` elements
    inserted so far in the data while `rows` is what it was.  Kept for the defect witness. -/
def insertRowCloningOld (m : Matrix α) (row : Nat) (value : α) (panicAt : Option Nat) : Matrix.Res α :=
  if row ≤ m.rows then
    match panicAt with
    | some p =>
      if p < m.columns then
        match Matrix.insertRowLoop m.columns row value (List.range p) m.data with
        | (data, _) => ⟨{ m with data := data }, some .explicit⟩
      else m.insertRow row value
    | none => m.insertRow row value
  else ⟨m, some .explicit⟩

/-! ### `Matrix::map_mut` / `map_mut_with_index` with a closure that panics -/

/-- `Matrix::map_mut` / `map_mut_with_index` (and the `MatrixView` forms, row-major) with a closure
    that panics on call `panicAt`: the elements visited before it are overwritten, the size and the
    stored element count are untouched (the loop `mapLoop` over the row-major data, each element
    paired with its position `n`, i.e. row `n / columns`, column `n % columns`). -/
def matrixMapPanic (m : Matrix α) (f : α → Nat → Nat → α) (panicAt : Option Nat) : Matrix.Res α :=
  let indexed := List.zip m.data (List.range m.data.length)
  let r := mapLoop (fun (p : α × Nat) => (f p.1 (p.2 / m.columns) (p.2 % m.columns), p.2)) panicAt
    indexed 0
  ⟨{ m with data := r.1.map (·.1) }, if r.2 then some .explicit else none⟩

/-! ### matrix constructors with a size check -/

/-- `Matrix::empty(value, (rows, columns))`: `assert!(rows > 0 && columns > 0)`, then
    `vec![value; rows * columns]` — the element count must be representable (fix L-12). -/
def matrixEmpty (rows columns : Nat) (value : α) : Option (Matrix α) :=
  if 0 < rows ∧ 0 < columns ∧ rows * columns ≤ usizeMax then
    some ⟨List.replicate (rows * columns) value, rows, columns⟩
  else none

end EasyMl.Survivor
