/-
  EasyMl.Model.Det — code-shaped model of determinant and inverse (`src/linear_algebra.rs`).

    (Heap's algorithm: EasyMl/Model/Heaps.lean)          linear_algebra.rs:494-545
    detView            determinant_less_generic           linear_algebra.rs:434-481
    determinant        determinant (Matrix)               linear_algebra.rs:346-364
    minorMatrix        minor / minor_mut                  linear_algebra.rs:256-285
    removeRow/Column   Matrix::remove_row/remove_column   matrices/mod.rs:415-460
    maskView           TensorMask::from_all + IndexRange  tensors/views/ranges.rs:509-537,
                                                          matrices/views/ranges.rs:149-164
    minorTensor        minor_tensor                       linear_algebra.rs:287-312
    inverse            inverse (Matrix)                   linear_algebra.rs:79-134
    inverseTensor      inverse_less_generic               linear_algebra.rs:180-240
    transposeSquare    Matrix::transpose_mut (square)
    transposeMutSquare Tensor::transpose_mut / reorder_mut (square, D = 2), names resolved through
                       DimensionMappings::new               tensors/mod.rs:1292-1302, 1359-1395
                                                          matrices/mod.rs:1040-1058,
                                                          tensors/mod.rs:1359-1395

  Everything is polymorphic in the element type through the core arithmetic classes and
  `NumOrd` (for `== T::zero()`); the driver runs it at `Fp` and `Rat`, the theorems
  (Props/C07) at commutative rings / fields of Mathlib.  Core Lean only.
-/
import EasyMl.Model.Heaps
import EasyMl.Model.Fp
import EasyMl.Model.Matrix
import EasyMl.Model.Tensor

namespace EasyMl.Det

/-! ### Determinant -/

/-- What `determinant`/`inverse` observe of a `TensorView<T, S, 2>`: its two lengths and the
    element at `[row, column]` (only ever asked in range). -/
structure View (α : Type) where
  rows : Nat
  cols : Nat
  get : Nat → Nat → α

section Det
variable {α : Type} [Add α] [Sub α] [Mul α] [Zero α] [One α]

/-- `if even_swap { T::one() } else { T::zero() - T::one() }` -/
def signature (even : Bool) : α := if even then 1 else 0 - 1

/-- `product = one; for (n, i) in permutation.iter().enumerate() { product = product * get([n, i]) }` -/
def permProduct (get : Nat → Nat → α) (perm : List Nat) : α :=
  perm.zipIdx.foldl (fun product (x : Nat × Nat) => product * get x.2 x.1) 1

/-- one call of the closure in `determinant_less_generic`: `sum = sum + signature * product` -/
def detStep (get : Nat → Nat → α) (sum : α) (perm : List Nat) (even : Bool) : α :=
  sum + signature even * permProduct get perm

/-- `determinant_less_generic` -/
def detView (v : View α) : Option α :=
  if v.rows != v.cols then none
  else if v.rows == 0 then none
  else if v.rows == 1 then some (v.get 0 0)
  else some (withEachPermutation (List.range v.rows) 0 (detStep v.get)).2

/-- The Leibniz sum in the code's order for an `n × n` view (`n ≥ 2` in the code). -/
def detModel (n : Nat) (get : Nat → Nat → α) : α :=
  (withEachPermutation (List.range n) 0 (detStep get)).2

/-- `TensorRefMatrix::from(matrix)` as a view (row-major `get_index`). -/
def viewOfMatrix (m : Matrix α) : View α :=
  ⟨m.rows, m.columns, fun r c => m.data.getD (m.getIndex r c) 0⟩

/-- `linear_algebra::determinant` (and `Matrix::determinant`) -/
def determinant (m : Matrix α) : Option α :=
  if m.rows != m.columns then none
  else if m.rows == 0 then none
  else if m.rows == 1 then some (m.data.getD 0 0)        -- `matrix.scalar()`
  else detView (viewOfMatrix m)

/-- `linear_algebra::determinant_tensor` (and `Tensor::determinant`, `TensorView::determinant`) -/
def determinantTensor (v : View α) : Option α := detView v

end Det

/-! ### Minors -/

section Minor
variable {α : Type}

/-- the `retain` closure with its `r`/`c` counters shared by `remove_row` and `remove_column` -/
def retainRC (columns : Nat) (keep : Nat → Nat → Bool) : List α → Nat → Nat → List α
  | [], _, _ => []
  | x :: xs, r, c =>
    let rest := if c < columns - 1 then retainRC columns keep xs r (c + 1)
                else retainRC columns keep xs (r + 1) 0
    if keep r c then x :: rest else rest

/-- `Matrix::remove_row` (its `assert!(rows > 1)` is the caller's obligation here) -/
def removeRow (m : Matrix α) (row : Nat) : Matrix α :=
  ⟨retainRC m.columns (fun r _ => r != row) m.data 0 0, m.rows - 1, m.columns⟩

/-- `Matrix::remove_column` -/
def removeColumn (m : Matrix α) (column : Nat) : Matrix α :=
  ⟨retainRC m.columns (fun _ c => c != column) m.data 0 0, m.rows, m.columns - 1⟩

/-- `IndexRange::clip`: the clipped length (`min(start + length, max) saturating_sub start`) -/
def clipLen (start length maxIndex : Nat) : Nat := min (start + length) maxIndex - start

/-- `IndexRange::mask` -/
def maskIdx (start length index : Nat) : Nat := if index < start then index else index + length

/-- `TensorMask::from_all(source, [Some(IndexRange::new(i, 1)), Some(IndexRange::new(j, 1))])`;
    `none` is the `Err` (a dimension would be left with length 0). -/
def maskView (v : View α) (i j : Nat) : Option (View α) :=
  let li := clipLen i 1 v.rows
  let lj := clipLen j 1 v.cols
  if v.rows - li = 0 ∨ v.cols - lj = 0 then none
  else some ⟨v.rows - li, v.cols - lj, fun r c => v.get (maskIdx i li r) (maskIdx j lj c)⟩

variable [Add α] [Sub α] [Mul α] [Zero α] [One α]

/-- `minor` / `minor_mut` on a clone of the matrix -/
def minorMatrix (m : Matrix α) (i j : Nat) : Option α :=
  if m.rows == 1 || m.columns == 1 then none
  else if m.rows != m.columns then none
  else determinant (removeColumn (removeRow m i) j)

/-- `minor_tensor`; the `expect` on the mask is the only reachable-looking panic site -/
def minorTensor (v : View α) (i j : Nat) : Outcome (Option α) :=
  if v.rows == 1 || v.cols == 1 then .ok none
  else if v.rows != v.cols then .ok none
  else match maskView v i j with
    | none => .panic .explicit
    | some minored => .ok (detView minored)

end Minor

/-! ### Inverse -/

section Inverse
variable {α : Type}

/-- all `[i, j]` of an `rows × cols` shape in row-major order
    (`for i in 0..rows { for j in 0..columns` / `ShapeIterator`) -/
def indexPairs (rows cols : Nat) : List (Nat × Nat) :=
  (List.range rows).flatMap fun i => (List.range cols).map fun j => (i, j)

/-- in-place transposition of a square `n × n` row-major buffer: for every `[i, j]` in row-major
    order with `j ≥ i`: `temp = d[i,j]; d[i,j] = d[j,i]; d[j,i] = temp`.
    (`Matrix::transpose_mut`, and `Tensor::reorder_mut` for a square 2-D tensor.) -/
def transposeSquare (n : Nat) (data : List α) : List α :=
  (indexPairs n n).foldl
    (fun d (ij : Nat × Nat) => if ij.1 > ij.2 then d else swap d (ij.2 + ij.1 * n) (ij.1 + ij.2 * n))
    data

/-- `cofactor_matrix.transpose_mut([shape[1].0, shape[0].0])` on the square cofactor tensor
    (`Tensor::transpose_mut` → `reorder_mut`, in-place branch `D == 2 && is_square`): the requested
    order is resolved **by name** through `DimensionMappings::new`; every `[i, j]` of the requested
    shape with `j ≥ i` is exchanged with `map_dimensions_to_source([i, j])`; the shape becomes the
    requested one and `transpose_mut` then puts the old names back over the new lengths.
    Returns the buffer and the shape.  (With two *equal* names the mapping is the identity and
    nothing moves — `TensorRef` promises unique names.) -/
def transposeMutSquare {ν : Type} [DecidableEq ν] [Inhabited ν] (shape : Shape ν) (n : Nat)
    (data : List α) : Outcome (List α × Shape ν) :=
  let requested : List ν := [(shape.getD 1 (default, 0)).1, (shape.getD 0 (default, 0)).1]
  match DimensionMappings.new shape requested with
  | none => .panic .explicit
  | some mapping =>
    let newShape := mapping.mapShapeToRequested shape
    let swapped := (indexPairs n n).foldl
      (fun d (ij : Nat × Nat) =>
        if ij.2 ≥ ij.1 then
          let mapped := mapping.mapDimensionsToSource [ij.1, ij.2]
          swap d (ij.2 + ij.1 * n) (mapped.getD 1 0 + mapped.getD 0 0 * n)
        else d)
      data
    .ok (swapped, List.zipWith (fun old new => (old.1, new.2)) shape newShape)

variable [Add α] [Sub α] [Mul α] [Div α] [Zero α] [One α] [NumOrd α]

/-- `i8::pow(-1, (i % 2 + j % 2))` converted into `T`: `one` or `zero - one` -/
def cofactorSign (i j : Nat) : α :=
  if (i % 2 + j % 2) % 2 == 0 then 1 else 0 - 1

/-- the double loop filling the cofactor matrix; `?` leaves with `None` on an absent minor,
    a panic inside `minor` propagates -/
def cofactorLoop (minor : Nat → Nat → Outcome (Option α)) :
    List (Nat × Nat) → List α → Outcome (Option (List α))
  | [], acc => .ok (some acc)
  | (i, j) :: rest, acc =>
    match minor i j with
    | .panic k => .panic k
    | .ok none => .ok none
    | .ok (some ijMinor) => cofactorLoop minor rest (acc ++ [cofactorSign i j * ijMinor])

/-- the cofactor matrix (row-major) filled by the double loop of `inverse` /
    `inverse_less_generic` -/
def cofactorMatrix (n : Nat) (minor : Nat → Nat → Outcome (Option α)) : Outcome (Option (List α)) :=
  cofactorLoop minor (indexPairs n n) []

/-- `map_mut(|element| element * determinant_reciprocal.clone())` with
    `determinant_reciprocal = T::one() / det` -/
def scaleByReciprocal (det : α) (l : List α) : List α :=
  let determinantReciprocal : α := 1 / det
  l.map fun element => element * determinantReciprocal

/-- `linear_algebra::inverse` (and `Matrix::inverse`) -/
def inverse (m : Matrix α) : Outcome (Option (Matrix α)) :=
  if m.rows != m.columns then .ok none
  else if m.rows == 1 then
    let element := m.data.getD 0 0
    if NumOrd.eq element (0 : α) then .ok none
    else .ok (some ⟨[1 / element], 1, 1⟩)
  else match determinant m with
    | none => .ok none
    | some det =>
      if NumOrd.eq det (0 : α) then .ok none
      else match cofactorMatrix m.rows (fun i j => .ok (minorMatrix m i j)) with
        | .panic k => .panic k
        | .ok none => .ok none
        | .ok (some cofactors) =>
          .ok (some ⟨scaleByReciprocal det (transposeSquare m.rows cofactors), m.rows, m.columns⟩)

/-- `linear_algebra::inverse_tensor` (and `Tensor::inverse`, `TensorView::inverse`); `names` are
    the two dimension names of the input's shape. -/
def inverseTensor {ν : Type} [DecidableEq ν] [Inhabited ν] (names : ν × ν) (v : View α) :
    Outcome (Option (Tensor ν α)) :=
  let shape : Shape ν := [(names.1, v.rows), (names.2, v.cols)]
  if v.rows != v.cols then .ok none
  else if v.rows == 1 then
    let element := v.get 0 0
    if NumOrd.eq element (0 : α) then .ok none
    else .ok (some ⟨[1 / element], shape, computeStrides shape⟩)
  else match detView v with
    | none => .ok none
    | some det =>
      if NumOrd.eq det (0 : α) then .ok none
      else match cofactorMatrix v.rows (minorTensor v) with
        | .panic k => .panic k
        | .ok none => .ok none
        | .ok (some cofactors) =>
          match transposeMutSquare shape v.rows cofactors with
          | .panic k => .panic k
          | .ok (transposed, newShape) =>
            .ok (some ⟨scaleByReciprocal det transposed, newShape, computeStrides newShape⟩)

end Inverse

end EasyMl.Det
