/-
  EasyMl.Model.ArithViews — C02's model of the library's view adaptors (`View`, Model/View.lean)
  as operands of the arithmetic model: `TView.ofView` exposes a `View` through the `TensorRef`
  interface (`shape` + `get`) that Model/Arith.lean works on.  Used by the C03 driver for
  `TensorStack` / `TensorChain` operands (and any composition under them); Lemmas/ArithViews.lean
  proves that every well-formed `View` yields a well-formed operand.  Core Lean only.
-/
import EasyMl.Model.Arith
import EasyMl.Model.View

namespace EasyMl.Arith
open EasyMl EasyMl.Spec

variable {ν : Type} [DecidableEq ν] [Inhabited ν] {α : Type}

/-- A C02 view as an arithmetic operand: its shape, and the element read at an in-range index
    tuple (arithmetic never reads any other). -/
def TView.ofView (w : View ν α) : TView ν α :=
  ⟨w.shape, fun idx =>
    if inBounds (EasyMl.lens w.shape) idx then
      (match w.read idx with
       | .ok (some a) => some a
       | _ => none)
    else none⟩

/-- Euclidean length of a vector tensor: `direct_iter_reference().map(|x| x * x).sum().sqrt()`
    (`Tensor::euclidean_length`, `src/tensors/mod.rs`). -/
def tensorEuclideanLength [Add α] [Mul α] [Zero α] [RealFns α] (t : Tensor ν α) : α :=
  RealFns.sqrt ((t.data.map fun x => x * x).foldl (· + ·) 0)

/-- `Matrix::euclidean_length` (`src/matrices/mod.rs`): a column vector computes
    `(self.transpose() * self).scalar().sqrt()`, a row vector `(self * self.transpose())…`, i.e.
    in both cases the 1×1 matrix product whose single cell is `scalar_product(data, data)`;
    any other size panics. -/
def matrixEuclideanLength [Add α] [Mul α] [Zero α] [RealFns α] (m : Matrix α) : Outcome α :=
  if m.columns = 1 then
    match mMatMul ⟨1, m.rows, fun _ c => m.tryGet c 0⟩ (MView.ofMatrix m) with
    | .ok p => match p.data with
      | [x] => .ok (RealFns.sqrt x)
      | _ => .panic .explicit
    | .panic k => .panic k
  else if m.rows = 1 then
    match mMatMul (MView.ofMatrix m) ⟨m.columns, 1, fun r _ => m.tryGet 0 r⟩ with
    | .ok p => match p.data with
      | [x] => .ok (RealFns.sqrt x)
      | _ => .panic .explicit
    | .panic k => .panic k
  else .panic .explicit

end EasyMl.Arith
