/-
  EasyMl.Model.Stats — code-shaped model of `mean`, `variance`, the three covariance entry points,
  `softmax` and `f1_score` of `src/linear_algebra.rs` (C14).

  Polymorphic over the numeric classes; the driver runs it at `Fp`/`Rat`, the theorems at Mathlib
  fields / ℝ.  `T::from_usize(n)` is `NatCast` (it never fails for the exact types; a type whose
  `from_usize` returns `None` makes the code panic, which is outside this model).
  `Iterator::sum::<T>()` is the left fold from `T::zero()` (as for the primitive types and the
  harness types).  Core Lean only.
-/
import EasyMl.Model.Arith

namespace EasyMl.Stats
open EasyMl EasyMl.Arith

variable {ν : Type} [DecidableEq ν] {α : Type}

section Numeric
variable [Add α] [Sub α] [Mul α] [Div α] [Zero α] [One α] [NatCast α]

/-- `Iterator::sum::<T>()` -/
def sum (l : List α) : α := l.foldl (· + ·) 0

/-- The loop of `mean`: `count = count + T::one(); sum = sum + next`. -/
def meanLoop (data : List α) : α × α :=
  data.foldl (fun (cs : α × α) x => (cs.1 + 1, cs.2 + x)) (0, 0)

/-- `linear_algebra::mean` (asserts a non-empty iterator) -/
def mean (data : List α) : Outcome α :=
  match data with
  | [] => .panic .explicit
  | _ :: _ => let cs := meanLoop data; .ok (cs.2 / cs.1)

/-- `linear_algebra::variance`: the mean of the squared deviations from the mean -/
def variance (data : List α) : Outcome α :=
  match data with
  | [] => .panic .explicit
  | _ :: _ =>
    match mean data with
    | .panic k => .panic k
    | .ok m => mean (data.map fun x => (x - m) * (x - m))

/-- One cell of every covariance entry point: both feature means are recomputed
    (`sum / samples`), then `Σ (x - mean_i) * (y - mean_j) / samples`. -/
def covCell (samples : α) (fi fj : List α) : α :=
  let mi := sum fi / samples
  let mj := sum fj / samples
  sum (List.zipWith (fun x y => (x - mi) * (y - mj)) fi fj) / samples

/-- `Matrix::column_iter(c)` / `column_reference_iter(c)` -/
def matrixColumn (m : Matrix α) (c : Nat) : List α :=
  (List.range m.rows).filterMap fun r => m.data[m.getIndex r c]?

/-- `Matrix::row_iter(r)` / `row_reference_iter(r)` -/
def matrixRow (m : Matrix α) (r : Nat) : List α :=
  (List.range m.columns).filterMap fun c => m.data[m.getIndex r c]?

/-- the cells of a `features × features` result in `map_mut_with_index` (row-major) order -/
def covCells (features : Nat) (samples : α) (feature : Nat → List α) : List α :=
  (List.range features).flatMap fun i =>
    (List.range features).map fun j => covCell samples (feature i) (feature j)

/-- `covariance_column_features`: each column is a feature, each row a sample. -/
def covarianceColumnFeatures (m : Matrix α) : Outcome (Matrix α) :=
  if 0 < m.columns then
    .ok ⟨covCells m.columns (m.rows : α) (matrixColumn m), m.columns, m.columns⟩
  else .panic .explicit

/-- `covariance_row_features`: each row is a feature, each column a sample. -/
def covarianceRowFeatures (m : Matrix α) : Outcome (Matrix α) :=
  if 0 < m.rows then
    .ok ⟨covCells m.rows (m.columns : α) (matrixRow m), m.rows, m.rows⟩
  else .panic .explicit

/-- `tensor.select([(feature_dimension, i)]).iter()` -/
def tensorFeature (v : TView ν α) (featureName : ν) (i : Nat) : Outcome (List α) :=
  match v.select featureName i with
  | .ok s => .ok s.elems
  | .panic k => .panic k

/-- one cell of the tensor `covariance` -/
def covTensorCell (v : TView ν α) (featureName : ν) (samples : α) : List Nat → Outcome α
  | [i, j] =>
    match tensorFeature v featureName i with
    | .panic k => .panic k
    | .ok fi =>
      match tensorFeature v featureName j with
      | .panic k => .panic k
      | .ok fj => .ok (covCell samples fi fj)
  | _ => .panic .explicit

/-- `linear_algebra::covariance(tensor, feature_dimension)`: the feature dimension is looked up
    by name in the 2-dimensional input, the other dimension holds the samples; the result is
    `[("i", features), ("j", features)]` (`iName`, `jName` stand for the two literals). -/
def covarianceTensor (iName jName : ν) (v : TView ν α) (feature : ν) : Outcome (Tensor ν α) :=
  match v.shape with
  | [d0, d1] =>
    let pick : Option ((ν × Nat) × (ν × Nat)) :=
      if d0.1 = feature then some (d0, d1) else if d1.1 = feature then some (d1, d0) else none
    match pick with
    | none => .panic .explicit
    | some (fd, sd) =>
      let shape := [(iName, fd.2), (jName, fd.2)]
      match tensorFrom shape (List.replicate (elements shape) (0 : α)) with
      | .panic k => .panic k
      | .ok t0 =>
        match outcomeMapM (covTensorCell v fd.1 (sd.2 : α)) (viewIndices [fd.2, fd.2]) with
        | .panic k => .panic k
        | .ok cells => .ok { t0 with data := cells }
  | _ => .panic .explicit

/-- `f1_score` -/
def f1Score (precision recall : α) : α :=
  (1 + 1) * ((precision * recall) / (precision + recall))

end Numeric

section Real
variable [Add α] [Sub α] [Div α] [Zero α] [RealFns α] [NumOrd α]

/-- `Iterator::max_by(|a, b| a.partial_cmp(b))`: `reduce` keeping the later of two elements
    unless the earlier compares `Greater`. -/
def maxBy : List α → Option α
  | [] => none
  | x :: xs => some (xs.foldl (fun acc y => if NumOrd.lt y acc then acc else y) x)

/-- `linear_algebra::softmax`: shift by the maximum, exponentiate, normalise by the (left-folded)
    sum of the exponentials; empty input gives an empty list. -/
def softmax (data : List α) : List α :=
  match maxBy data with
  | none => []
  | some mx =>
    let denominator : α := (data.map fun x => RealFns.exp (x - mx)).foldl (· + ·) 0
    data.map fun x => RealFns.exp (x - mx) / denominator

end Real

end EasyMl.Stats
