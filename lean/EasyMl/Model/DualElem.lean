/-
  EasyMl.Model.DualElem — forward-mode dual numbers (`Dual R`, the C05 model of `Trace<T>`,
  Model/Tape.lean) as an *element type* of the generic numeric routines: the numeric classes of
  `Model/Fp.lean` for `Dual R`, with the rules of `trace_operations.rs` (`Dual.add`, `mul`, `div`,
  `sqrt` …).  `==`, `<`, `<=` of a `Trace` look at the number only.  Core Lean only.
-/
import EasyMl.Model.Tape

namespace EasyMl

section
variable {R : Type} [Add R] [Sub R] [Mul R] [Div R] [Neg R] [Zero R] [One R]

instance : Add (Dual R) := ⟨Dual.add⟩
instance : Sub (Dual R) := ⟨Dual.sub⟩
instance : Mul (Dual R) := ⟨Dual.mul⟩
instance : Div (Dual R) := ⟨Dual.div⟩
instance : Neg (Dual R) := ⟨Dual.neg⟩
instance : Zero (Dual R) := ⟨Dual.constant 0⟩
instance : One (Dual R) := ⟨Dual.constant 1⟩

instance [RealFns R] : RealFns (Dual R) where
  sqrt := Dual.sqrt
  exp := Dual.exp
  ln := Dual.ln
  sin := Dual.sin
  cos := Dual.cos
  pow := Dual.pow
  pi := Dual.constant RealFns.pi

instance [NumOrd R] : NumOrd (Dual R) where
  lt a b := NumOrd.lt a.number b.number
  le a b := NumOrd.le a.number b.number
  eq a b := NumOrd.eq a.number b.number

end
end EasyMl
