/-
  EasyMl.Model.TapeFast — array-backed twins of the list-based definitions, for LARGE cases.

  The list-based model (Model/Tape.lean, Model/TapeExec.lean, Spec/Prog.lean) is quadratic
  (`t ++ [op]`, `List.set`, `getD`); the drivers answer cases of tens of thousands of tape entries
  with these `Array` versions.  They are the same functions: Lemmas/TapeFast.lean PROVES
    `fval = Instr.val`, `ftan = Instr.tan`, `fdep = Instr.dep`      on `vs.toList`, …
    `fexec` = `Instr.exec` on one tape                              (`fexec_eq`)
    `freverseSweep` = `reverseSweep`                                (`freverseSweep_eq`)
    `fgrad` = `Prog.grad`                                           (`fgrad_eq`)
  (and the C04 driver additionally runs both on every ordinary case).

  Core Lean only.
-/
import EasyMl.Model.TapeExec

namespace EasyMl.Fast
open EasyMl EasyMl.Spec

variable {R : Type} [Add R] [Sub R] [Mul R] [Div R] [Neg R] [Zero R] [One R] [RealFns R]

def gv (vs : Array R) (a : Nat) : R := vs.getD a 0

/-- `Instr.val` on arrays -/
def fval (env : Nat → R) (vs : Array R) : Instr R → R
  | .const c => c
  | .var => env vs.size
  | .arith o a b => o.app (gv vs a) (gv vs b)
  | .arithNum o a c => o.app (gv vs a) c
  | .swapped o c a => o.toArith.app c (gv vs a)
  | .neg a => -(gv vs a)
  | .sum as => sumList (as.map (gv vs))
  | .real f a => f.app (gv vs a)
  | .pow a b => RealFns.pow (gv vs a) (gv vs b)
  | .powNum a c => RealFns.pow (gv vs a) c
  | .numPow c a => RealFns.pow c (gv vs a)
  | .unary f _ a => f (gv vs a)
  | .binary f _ _ a b => f (gv vs a) (gv vs b)

/-- `Instr.tan` on arrays -/
def ftan (seed : Nat → R) (vs ts : Array R) : Instr R → R
  | .const _ => 0
  | .var => seed vs.size
  | .arith o a b => o.tan (gv vs a) (gv ts a) (gv vs b) (gv ts b)
  | .arithNum o a c => o.tan (gv vs a) (gv ts a) c 0
  | .swapped o c a => o.toArith.tan c 0 (gv vs a) (gv ts a)
  | .neg a => -(gv ts a)
  | .sum as => sumList (as.map (gv ts))
  | .real f a => f.deriv (gv vs a) * gv ts a
  | .pow a b => powDx (gv vs a) (gv vs b) * gv ts a + powDy (gv vs a) (gv vs b) * gv ts b
  | .powNum a c => powDx (gv vs a) c * gv ts a
  | .numPow c a => powDy c (gv vs a) * gv ts a
  | .unary _ df a => df (gv vs a) * gv ts a
  | .binary _ dfx dfy a b =>
    dfx (gv vs a) (gv vs b) * gv ts a + dfy (gv vs a) (gv vs b) * gv ts b

def fdep (ds : Array Bool) (ins : Instr R) : Bool :=
  ins.isVar || ins.operands.any (ds.getD · false)

def gr (recs : Array (Rec R)) (a : Nat) : Rec R := recs.getD a (Rec.constant 0)

/-- `Rec.unary` on an array tape -/
def fUnary (tape : Array (Op R)) (a : Rec R) (F D : R → R) : Array (Op R) × Rec R :=
  match a.history with
  | none => (tape, Rec.constant (F a.number))
  | some h => (tape.push ⟨a.index, tape.size, D a.number, 0⟩, ⟨F a.number, some h, tape.size⟩)

/-- `Rec.binary` on an array tape (all records of a C04 case are on the one tape, the
    `same_list` test is kept) -/
def fBinary (tape : Array (Op R)) (a b : Rec R) (F DX DY : R → R → R) :
    Array (Op R) × Outcome (Rec R) :=
  if !Rec.sameList a b then (tape, .panic .explicit) else
  let n := F a.number b.number
  match a.history, b.history with
  | none, none => (tape, .ok (Rec.constant n))
  | some h, none =>
    (tape.push ⟨a.index, tape.size, DX a.number b.number, 0⟩, .ok ⟨n, some h, tape.size⟩)
  | none, some h =>
    (tape.push ⟨b.index, tape.size, DY a.number b.number, 0⟩, .ok ⟨n, some h, tape.size⟩)
  | some h, some _ =>
    (tape.push ⟨a.index, b.index, DX a.number b.number, DY a.number b.number⟩,
      .ok ⟨n, some h, tape.size⟩)

/-- the loop of `Sum for Record` on an array tape -/
def fSum (tape : Array (Op R)) (items : List (Rec R)) : Array (Op R) × Outcome (Rec R) :=
  let rec go : List (Rec R) → Rec R → Array (Op R) → Array (Op R) × Outcome (Rec R)
    | [], total, tape => (tape, .ok total)
    | next :: rest, total, tape =>
      let n := total.number + next.number
      match total.history, next.history with
      | none, none => go rest (Rec.constant n) tape
      | some h, none => go rest ⟨n, some h, tape.size⟩ (tape.push ⟨total.index, tape.size, 1, 0⟩)
      | none, some h => go rest ⟨n, some h, tape.size⟩ (tape.push ⟨next.index, tape.size, 1, 0⟩)
      | some h, some _ =>
        if !Rec.sameList total next then (tape, .panic .explicit)
        else go rest ⟨n, some h, tape.size⟩ (tape.push ⟨total.index, next.index, 1, 1⟩)
  go items (Rec.constant 0) tape

open Fn in
/-- `Instr.exec 0` on an array tape: every operator through its shape
    (`Rec.addNum_eq … Rec.pow_eq` of Lemmas/TapeProg.lean) -/
def fexec (env : Nat → R) (recs : Array (Rec R)) (tape : Array (Op R)) :
    Instr R → Array (Op R) × Outcome (Rec R)
  | .const c => (tape, .ok (Rec.constant c))
  | .var => (tape.push ⟨tape.size, tape.size, 0, 0⟩, .ok ⟨env recs.size, some 0, tape.size⟩)
  | .arith .add a b => fBinary tape (gr recs a) (gr recs b) Addition.function Addition.dx Addition.dy
  | .arith .sub a b =>
    fBinary tape (gr recs a) (gr recs b) Subtraction.function Subtraction.dx Subtraction.dy
  | .arith .mul a b =>
    fBinary tape (gr recs a) (gr recs b) Multiplication.function Multiplication.dx Multiplication.dy
  | .arith .div a b => fBinary tape (gr recs a) (gr recs b) Division.function Division.dx Division.dy
  | .arithNum .add a c => ok (fUnary tape (gr recs a) (Addition.function · c) (Addition.dx · c))
  | .arithNum .sub a c => ok (fUnary tape (gr recs a) (Subtraction.function · c) (Subtraction.dx · c))
  | .arithNum .mul a c =>
    ok (fUnary tape (gr recs a) (Multiplication.function · c) (Multiplication.dx · c))
  | .arithNum .div a c => ok (fUnary tape (gr recs a) (Division.function · c) (Division.dx · c))
  | .swapped .sub c a => ok (fUnary tape (gr recs a) (Subtraction.function c) (Subtraction.dy c))
  | .swapped .div c a => ok (fUnary tape (gr recs a) (Division.function c) (Division.dy c))
  | .neg a => ok (fUnary tape (gr recs a) (fun x => -x) (fun _ => -1))
  | .sum as => fSum tape (as.map (gr recs))
  | .real .sin a => ok (fUnary tape (gr recs a) Sine.function Sine.dx)
  | .real .cos a => ok (fUnary tape (gr recs a) Cosine.function Cosine.dx)
  | .real .exp a => ok (fUnary tape (gr recs a) Exponential.function Exponential.dx)
  | .real .ln a => ok (fUnary tape (gr recs a) NaturalLogarithm.function NaturalLogarithm.dx)
  | .real .sqrt a => ok (fUnary tape (gr recs a) SquareRoot.function SquareRoot.dx)
  | .pow a b => fBinary tape (gr recs a) (gr recs b) Power.function Power.dx Power.dy
  | .powNum a c => ok (fUnary tape (gr recs a) (Power.function · c) (Power.dx · c))
  | .numPow c a => ok (fUnary tape (gr recs a) (Power.function c) (Power.dy c))
  | .unary f df a => ok (fUnary tape (gr recs a) f df)
  | .binary f dfx dfy a b => fBinary tape (gr recs a) (gr recs b) f dfx dfy
where
  ok (x : Array (Op R) × Rec R) : Array (Op R) × Outcome (Rec R) := (x.1, .ok x.2)

/-! ### the reverse sweep (the loop of Model/Tape.lean `sweepFrom`, on arrays) -/

def faccumulate (d : Array R) (p : Nat) (x : R) : Outcome (Array R) :=
  if h : p < d.size then .ok (d.set p (d[p] + x)) else .panic .index

def fsweepEntry (op : Op R) (i : Nat) (d : Array R) : Outcome (Array R) :=
  if h : i < d.size then
    let derivative := d[i]
    match (if op.leftParent = i then .ok d
           else faccumulate d op.leftParent (derivative * op.leftDerivative)) with
    | .ok d1 =>
      if op.rightParent = i then .ok d1
      else faccumulate d1 op.rightParent (derivative * op.rightDerivative)
    | .panic k => .panic k
  else .panic .index

def fsweepFrom (ops : Array (Op R)) : Nat → Array R → Outcome (Array R)
  | 0, d => .ok d
  | i + 1, d =>
    match ops[i]? with
    | none => .panic .index
    | some op =>
      match fsweepEntry op i d with
      | .ok d' => fsweepFrom ops i d'
      | .panic k => .panic k

def freverseSweep (ops : Array (Op R)) (index : Nat) : Outcome (Array R) :=
  if h : index < ops.size then
    fsweepFrom ops ops.size ((Array.replicate ops.size (0 : R)).set index 1 (by simpa using h))
  else .panic .index

/-! ### the forward gradient of the specification, one pass -/

def fgradStep (env : Nat → R) (i : Nat) : Array R × Array R → Instr R → Array R × Array R
  | (vs, ts), ins =>
    -- value and derivative first, then the pushes: the arrays stay unshared (in-place push)
    let v := fval env vs ins
    let t := ftan (unitSeed i) vs ts ins
    (vs.push v, ts.push t)

/-- `Prog.grad env prog.toList i` -/
def fgrad (env : Nat → R) (prog : Array (Instr R)) (i : Nat) : Array R :=
  (prog.foldl (fgradStep env i) (#[], #[])).2

end EasyMl.Fast
