/-
  EasyMl.Model.RecordContainerSurface — the rest of the public surface of `RecordContainer`
  (`RecordTensor`, `RecordMatrix`), code-shaped, on top of Model/RecordContainer.lean:

    mod.rs                    `do_unary_assign`, `do_binary_left_assign`,
                              `do_binary_right_assign`, `do_reset` (the by-value forms), the four
                              `From` conversions `Record` ↔ 0-dimensional `RecordTensor`, the
                              container as a `TensorRef`/`TensorMut`/`MatrixRef`/`MatrixMut`
                              source (`get_reference`, `view_shape`, `…_unchecked`, `view_rows`,
                              `view_columns`, `try_get_reference`, `get_reference_mut`)
    container_operations.rs   `Clone for RecordContainer` (`clone`; `clone_from` is std's default)
    iterators.rs              `AsRecords` (`from_tensor`, `from_matrix_row_major`,
                              `from_matrix_column_major`, `from`, `with_index`, `From` for
                              `WithIndex`), its `Iterator` / `ExactSizeIterator` impls

  The iterators are the C09 model's (`ShapeIter`, `MatIter`, `copyNext`, `withIndexNext`,
  Model/Iter.lean) over the container as a source; `AsRecords` is one more adaptor on top.

  Core Lean only.
-/
import EasyMl.Model.RecordContainer
import EasyMl.Model.Iter

namespace EasyMl

namespace Cont
variable {R : Type}

/-! ### the by-value (`do_…`) forms, as written: the by-reference form on the moved-in container -/

section DoForms
variable [Zero R]

/-- `do_unary_assign(mut self, fx, dfx_dx) -> Self` (mod.rs:1467, 2306):
    `self.unary_assign(fx, dfx_dx); self`. -/
def doUnaryAssign (c : Cont R) (fx dfx : R → R) (w : World R) : Cont R × World R :=
  let r := c.unaryAssign fx dfx w
  (r.1, r.2)

/-- `do_binary_left_assign(mut self, rhs, …) -> Self` (mod.rs:1478, 2317):
    `self.binary_left_assign(rhs, fxy, dfxy_dx, dfxy_dy); self`. -/
def doBinaryLeftAssign (a b : Cont R) (fxy dfx dfy : R → R → R) (w : World R) :
    Outcome (Cont R × World R) :=
  match a.binaryLeftAssign b fxy dfx dfy w with
  | .ok (a', w') => .ok (a', w')
  | .panic k => .panic k

/-- `do_binary_right_assign(&self, mut rhs, …) -> rhs` (mod.rs:1678, 2489):
    `self.binary_right_assign(&mut rhs, fxy, dfxy_dx, dfxy_dy); rhs` — `x` stays the left
    operand, `y` the right one. -/
def doBinaryRightAssign (a b : Cont R) (fxy dfx dfy : R → R → R) (w : World R) :
    Outcome (Cont R × World R) :=
  match a.binaryRightAssign b fxy dfx dfy w with
  | .ok (b', w') => .ok (b', w')
  | .panic k => .panic k

/-- What seeded change C06-r6m2 made of `RecordMatrix::do_binary_right_assign`:
    `rhs.do_binary_left_assign(self, |y, x| fxy(x, y), |y, x| dfxy_dx(x, y), |y, x| dfxy_dy(x, y))`
    — the two partial derivatives are not exchanged along with the operands. -/
def doBinaryRightAssignSeeded (a b : Cont R) (fxy dfx dfy : R → R → R) (w : World R) :
    Outcome (Cont R × World R) :=
  b.doBinaryLeftAssign a (fun y x => fxy x y) (fun y x => dfx x y) (fun y x => dfy x y) w

/-- `do_reset(mut x) -> Self` (mod.rs:371, 622): `x.reset(); x`. -/
def doReset (c : Cont R) (w : World R) : Cont R × World R :=
  let r := c.reset w
  (r.1, r.2)

end DoForms

/-! ### `Clone` -/

/-- `Clone for RecordContainer` (container_operations.rs:60): the numbers (with their positions)
    are cloned, the tape reference is copied; the tape is not touched. -/
def clone (c : Cont R) : Cont R := ⟨c.shape, c.elems.map fun e => (e.1, e.2), c.history⟩

/-- `Clone::clone_from` (not overridden: `*self = source.clone()`). -/
def cloneFrom (_self source : Cont R) : Cont R := source.clone

/-! ### `Record` ↔ 0-dimensional `RecordTensor`, the four impls as written -/

/-- `From<Record> for RecordTensor<…, 0>` (mod.rs:2685):
    `from_existing(record.history, Tensor::from([], vec![(record.number, record.index)]))`. -/
def fromRecord (r : Rec R) : Cont R := ⟨[], [(r.number, r.index)], r.history⟩

/-- `From<&Record> for RecordTensor<…, 0>` (mod.rs:2703): the same with the number cloned. -/
def fromRecordRef (r : Rec R) : Cont R := ⟨[], [(r.clone.number, r.index)], r.history⟩

/-- `From<&RecordTensor<…, 0>> for Record` (mod.rs:2670):
    `Record::from_existing(scalar.view().scalar(), scalar.history)`; `scalar()` of a
    0-dimensional view is its only element. -/
def intoRecordRef (c : Cont R) : Outcome (Rec R) :=
  match c.elems with
  | e :: _ => .ok (Rec.fromExisting e c.history)
  | [] => .panic .unwrap

/-- `From<RecordTensor<…, 0>> for Record` (mod.rs:2650): `Record::from(&scalar)`. -/
def intoRecord (c : Cont R) : Outcome (Rec R) := c.intoRecordRef

/-- What seeded change C06-r6m1 made of `From<&Record>`: the container is built with the
    checked constructors — `RecordTensor::variables(history, [number])` allocates a *new* entry
    on the tape, `constants` for a constant. -/
def fromRecordRefSeeded [Zero R] (r : Rec R) (w : World R) : Cont R × World R :=
  match r.history with
  | some h => Cont.variables h [] [r.number] w
  | none => (Cont.constants [] [r.number], w)

/-! ### the container as a source (`TensorRef` / `TensorMut` / `MatrixRef` / `MatrixMut`)

Every method delegates to the source of `numbers`; the model's container stores the source's
elements in row-major order of its shape, so the delegate is the row-major lookup. -/

/-- `TensorRef::view_shape` (mod.rs:2522). -/
def viewShape (c : Cont R) : Shape String := c.shape

/-- `TensorRef::get_reference` (mod.rs:2518): `None` out of range. -/
def getReference (c : Cont R) (indexes : List Nat) : Option (R × Nat) :=
  match Cont.position c.shape indexes with
  | none => none
  | some k => c.elems[k]?

/-- `TensorRef::get_reference_unchecked` (mod.rs:2526): `none` stands for a call outside the
    source (undefined behaviour in the Rust). -/
def getReferenceUnchecked (c : Cont R) (indexes : List Nat) : Option (R × Nat) := c.getReference indexes

/-- `MatrixRef::view_rows` / `view_columns` (mod.rs:2578, 2582). -/
def viewRows (c : Cont R) : Nat :=
  match c.shape with
  | (_, r) :: _ => r
  | [] => 0

def viewColumns (c : Cont R) : Nat :=
  match c.shape with
  | _ :: (_, k) :: _ => k
  | _ => 0

/-- `MatrixRef::try_get_reference` (mod.rs:2574). -/
def tryGetReference (c : Cont R) (row column : Nat) : Option (R × Nat) := c.getReference [row, column]

/-- a write through `TensorMut::get_reference_mut` / `MatrixMut::try_get_reference_mut`
    (mod.rs:2549, 2626) or their unchecked forms: `None` (nothing written) out of range. -/
def writeReference (c : Cont R) (indexes : List Nat) (e : R × Nat) : Option (Cont R) :=
  match Cont.position c.shape indexes with
  | none => none
  | some k => if k < c.elems.length then some { c with elems := c.elems.set k e } else none

/-! ### containers over views -/

/-- `RecordTensor::from_existing(history, view)` / `RecordMatrix::from_existing` over a view of
    the container's own source (`view()`, `index_by`, `TensorRange`, `TensorReverse`,
    `rename_view`, … and their compositions): the view shows, in row-major order of its shape
    `vshape`, the source's elements at the row-major `offsets` (which offsets a view shows is the
    subject of the view model, C02). -/
def viewBy (c : Cont R) (vshape : Shape String) (offsets : List Nat) : Cont R :=
  ⟨vshape, offsets.filterMap fun o => c.elems[o]?, c.history⟩

/-! ### `AsRecords` -/

section AsRecords
open Iter
variable {σ π : Type}

/-- `Iterator for AsRecords<I, T>` (iterators.rs:304):
    `self.numbers.next().map(|number| Record::from_existing(number, self.history))`.
    The items of the C09 copying iterators are `Option`s (`none`: a position outside the
    source). -/
def asRecordsNext (history : Option Nat) (next : σ → Outcome (Option (Option (R × Nat)) × σ)) (s : σ) :
    Outcome (Option (Option (Rec R)) × σ) :=
  match next s with
  | .panic k => .panic k
  | .ok (x, s') => .ok (x.map fun e => e.map fun e => Rec.fromExisting e history, s')

/-- `size_hint` (iterators.rs:310): `self.numbers.size_hint()`. -/
def asRecordsSizeHint (sizeHint : σ → Outcome (Nat × Option Nat)) (s : σ) : Outcome (Nat × Option Nat) :=
  sizeHint s

/-- `Iterator for WithIndex<AsRecords<WithIndex<I>, T>>` (iterators.rs:345):
    `.map(|(i, number)| (i, Record::from_existing(number, history)))` over the inner
    `WithIndex` iterator. -/
def asRecordsWithIndexNext (history : Option Nat)
    (next : σ → Outcome (Option (π × Option (R × Nat)) × σ)) (s : σ) :
    Outcome (Option (π × Option (Rec R)) × σ) :=
  match next s with
  | .panic k => .panic k
  | .ok (x, s') => .ok (x.map fun p => (p.1, p.2.map fun e => Rec.fromExisting e history), s')

/-- `TensorIterator::from(&record_tensor)`: the copying iterator of C09 over the container. -/
def tensorIterNext (c : Cont R) : ShapeIter → Outcome (Option (Option (R × Nat)) × ShapeIter) :=
  copyNext shapeNext c.getReferenceUnchecked id

def tensorIterStart (c : Cont R) : ShapeIter := ShapeIter.new (c.viewShape.map (·.2))

/-- `iter_as_records` (mod.rs:331) = `AsRecords::from_tensor(self)` (iterators.rs:118) =
    `AsRecords::from(tensor.history, TensorIterator::from(tensor))`. -/
def iterAsRecordsNext (c : Cont R) : ShapeIter → Outcome (Option (Option (Rec R)) × ShapeIter) :=
  asRecordsNext c.history c.tensorIterNext

def iterAsRecordsSizeHint (_c : Cont R) : ShapeIter → Outcome (Nat × Option Nat) :=
  asRecordsSizeHint ShapeIter.sizeHint

/-- `iter_as_records().with_index()` / `WithIndex::from(iter_as_records())` (iterators.rs:253, 288) -/
def iterAsRecordsWithIndexNext (c : Cont R) :
    ShapeIter → Outcome (Option (List Nat × Option (Rec R)) × ShapeIter) :=
  asRecordsWithIndexNext c.history (withIndexNext (fun s => s.indexes) c.tensorIterNext)

def matrixCell (c : Cont R) (p : Nat × Nat) : Option (R × Nat) := c.tryGetReference p.1 p.2

def matIterStart (c : Cont R) : MatIter := MatIter.new c.viewRows c.viewColumns

/-- `iter_row_major_as_records` (mod.rs:534) = `AsRecords::from_matrix_row_major` (iterators.rs:177). -/
def iterRowMajorAsRecordsNext (c : Cont R) : MatIter → Outcome (Option (Option (Rec R)) × MatIter) :=
  asRecordsNext c.history (copyNext rowMajorNext c.matrixCell id)

/-- `iter_column_major_as_records` (mod.rs:549) = `AsRecords::from_matrix_column_major`
    (iterators.rs:190). -/
def iterColumnMajorAsRecordsNext (c : Cont R) : MatIter → Outcome (Option (Option (Rec R)) × MatIter) :=
  asRecordsNext c.history (copyNext colMajorNext c.matrixCell id)

def iterRowMajorWithIndexNext (c : Cont R) :
    MatIter → Outcome (Option ((Nat × Nat) × Option (Rec R)) × MatIter) :=
  asRecordsWithIndexNext c.history
    (withIndexNext (fun s => (s.rowCounter, s.columnCounter)) (copyNext rowMajorNext c.matrixCell id))

end AsRecords

end Cont

end EasyMl
