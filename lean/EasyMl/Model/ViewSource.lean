/-
  EasyMl.Model.ViewSource — a view of the C02 model (`View`, Model/View.lean) as a *source* of
  the whole-view consumers modelled in Model/Transform.lean (C13): `TensorIterator` and friends,
  `map`, `map_with_index`, `elementwise*`, `==`, `first`, `scalar`, `reorder`, `transpose`,
  `TensorAccess::from_source_order` …  The source interface is `view_shape()` and
  `get_reference(indexes)`; the consumers only ever ask inside the shape.  Core Lean only.
-/
import EasyMl.Model.ArithViews
import EasyMl.Model.Transform

namespace EasyMl

variable {ν : Type} [DecidableEq ν] [Inhabited ν] {α : Type}

/-- `impl TensorRef for <any adaptor stack>`: the shape the stack reports and the element its
    checked getter reads (the same function C03 uses for arithmetic operands) -/
def View.asSource (w : View ν α) : TView ν α :=
  { shape := (Arith.TView.ofView w).shape, get := (Arith.TView.ofView w).get }

end EasyMl
