/-
  EasyMl.Model.Tensor — code-shaped model of `Tensor<T, D>` construction and of named-dimension
  addressing (`src/tensors/mod.rs`, `src/tensors/dimensions.rs`, `TensorAccess` in
  `src/tensors/indexing.rs`).

  A shape is a list of (name, length) pairs; `D` is the length of the list, so everything here
  is for every dimensionality.  Core Lean only.
-/
import EasyMl.Model.Basic

namespace EasyMl

variable {ν : Type} [DecidableEq ν] {α : Type}

abbrev Shape (ν : Type) := List (ν × Nat)

/-- `dimensions::elements`: product of the lengths. -/
def elements (shape : Shape ν) : Nat := prod (shape.map (·.2))

/-- `compute_strides`: `strides[d] = Π shape[d+1..]`, written as in the Rust
    (`from_fn(|d| shape.iter().skip(d + 1).map(|d| d.1).product())`). -/
def computeStrides (shape : Shape ν) : List Nat :=
  (List.range shape.length).map fun d => prod ((shape.drop (d + 1)).map (·.2))

/-- `dimensions::has_duplicates` (for each `i ≥ 1`, is `shape[i-1]`'s name in `shape[i..]`). -/
def hasDuplicates : List ν → Bool
  | [] => false
  | n :: rest => rest.contains n || hasDuplicates rest

/-- `get_index_direct`: per-dimension bound check, then accumulate `n * stride`. -/
def getIndexDirectGo : List Nat → List Nat → List Nat → Nat → Option Nat
  | n :: is, s :: ss, l :: ls, acc => if n ≥ l then none else getIndexDirectGo is ss ls (acc + n * s)
  | _, _, _, acc => some acc

def getIndexDirect (indexes strides : List Nat) (shape : Shape ν) : Option Nat :=
  getIndexDirectGo indexes strides (shape.map (·.2)) 0

/-- The tensor: flat data, shape, strides (all three are fields of the Rust struct). -/
structure Tensor (ν α : Type) where
  data : List α
  shape : Shape ν
  strides : List Nat

/-- Which validation failed, in the order `validate_dimensions_or_panic` tests them. -/
inductive ShapeError where
  | wrongCount | duplicateNames | zeroLength
  deriving DecidableEq, Repr

/-- `InvalidShapeError::validate_dimensions_or_panic` / `validate_dimensions`. -/
def validateDimensions (shape : Shape ν) (dataLen : Nat) : Option ShapeError :=
  if dataLen ≠ elements shape then some .wrongCount
  else if hasDuplicates (shape.map (·.1)) then some .duplicateNames
  else if shape.any (·.2 == 0) then some .zeroLength
  else none

/-- `Tensor::try_from` (and `Tensor::from`, which panics where this returns `none`). -/
def Tensor.tryFrom (shape : Shape ν) (data : List α) : Option (Tensor ν α) :=
  match validateDimensions shape data.length with
  | some _ => none
  | none => some { data := data, shape := shape, strides := computeStrides shape }

/-- `TensorRef::get_reference for Tensor`: offset of the addressed cell, if in bounds
    (the Rust then does `self.data.get(i)`). -/
def Tensor.offset (t : Tensor ν α) (indexes : List Nat) : Option Nat :=
  getIndexDirect indexes t.strides t.shape

def Tensor.get (t : Tensor ν α) (indexes : List Nat) : Option α :=
  match t.offset indexes with
  | some i => t.data[i]?
  | none => none

/-- `TensorMut::get_reference_mut` followed by a write through the reference. -/
def Tensor.set (t : Tensor ν α) (indexes : List Nat) (v : α) : Option (Tensor ν α) :=
  match t.offset indexes with
  | some i => if i < t.data.length then some { t with data := t.data.set i v } else none
  | none => none

/-! ### `DimensionMappings` -/

structure DimensionMappings where
  sourceToRequested : List Nat
  requestedToSource : List Nat
  deriving DecidableEq, Repr

/-- position of the first element satisfying `p` (`iter().enumerate().find(..)`) -/
def findPos (p : ν → Bool) : List ν → Option Nat
  | [] => none
  | x :: xs => if p x then some 0 else (findPos p xs).map (· + 1)

/-- One iteration `d` of the `for d in 0..D` loop of `DimensionMappings::new`. -/
def mappingAt (source : List ν) (requested : List ν) (d : Nat) : Option (Nat × Nat) :=
  match source[d]?, requested[d]? with
  | some dimension, some r =>
    if r = dimension then some (d, d)
    else
      match findPos (fun x => x = dimension) requested with
      | none => none
      | some nInRequested =>
        match findPos (fun x => x = r) source with
        | none => none
        | some nInSource => some (nInRequested, nInSource)
  | _, _ => none

/-- `DimensionMappings::new` (source and requested both have `D` entries by typing). -/
def DimensionMappings.new (source : Shape ν) (requested : List ν) : Option DimensionMappings :=
  if source.length ≠ requested.length then none else
  match (List.range source.length).mapM (mappingAt (source.map (·.1)) requested) with
  | none => none
  | some l => some { sourceToRequested := l.map (·.1), requestedToSource := l.map (·.2) }

/-- `map_dimensions_to_source`: `from_fn(|d| indexes[source_to_requested[d]])`. -/
def DimensionMappings.mapDimensionsToSource (m : DimensionMappings) (indexes : List Nat) : List Nat :=
  m.sourceToRequested.map fun i => indexes.getD i 0

/-- `map_shape_to_requested`: `from_fn(|d| source[requested_to_source[d]])`. -/
def DimensionMappings.mapShapeToRequested [Inhabited ν] (m : DimensionMappings)
    (source : Shape ν) : Shape ν :=
  m.requestedToSource.map fun i => source.getD i (default, 0)

/-- `TensorAccess<T, Tensor<T, D>, D>` -/
structure Access (ν α : Type) where
  source : Tensor ν α
  mapping : DimensionMappings

/-- `TensorAccess::try_from` / `Tensor::index_by` (panics where this is `none`). -/
def Tensor.indexBy (t : Tensor ν α) (dimensions : List ν) : Option (Access ν α) :=
  match DimensionMappings.new t.shape dimensions with
  | some m => some { source := t, mapping := m }
  | none => none

def Access.shape [Inhabited ν] (a : Access ν α) : Shape ν :=
  a.mapping.mapShapeToRequested a.source.shape

/-- `try_get_reference`: offset in the source's data of the addressed element -/
def Access.offset (a : Access ν α) (indexes : List Nat) : Option Nat :=
  a.source.offset (a.mapping.mapDimensionsToSource indexes)

def Access.get (a : Access ν α) (indexes : List Nat) : Option α :=
  a.source.get (a.mapping.mapDimensionsToSource indexes)

def Access.set (a : Access ν α) (indexes : List Nat) (v : α) : Option (Access ν α) :=
  match a.source.set (a.mapping.mapDimensionsToSource indexes) v with
  | some t => some { a with source := t }
  | none => none

end EasyMl
