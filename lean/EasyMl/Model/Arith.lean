/-
  EasyMl.Model.Arith — code-shaped model of tensor and matrix arithmetic (C03):
  `src/tensors/operations.rs`, `src/matrices/operations.rs`, the scalar/`map` helpers in
  `src/tensors/mod.rs`, `src/tensors/views.rs`, `src/matrices/mod.rs`, `src/matrices/views.rs`.

  Operands.  The Rust operator impls come in 16 owned/borrowed × container/view forms; ownership
  does not exist in the model, container/view does (`Operand.tensor` / `Operand.view`), because the
  code reads a `Tensor` operand through `direct_iter_reference` (flat storage order) and a
  `TensorView` operand through `iter_reference` (`ShapeIterator` order over the view shape).
  A view is modelled by what the `TensorRef` trait exposes: `view_shape` and `get_reference`
  (`TView`).  A handful of adaptors (`TensorAccess`, `TensorTranspose`, `TensorRange`,
  `TensorReverse`, `TensorRename`, `TensorIndex`) are modelled here on that interface so that the
  correspondence runs operands whose iteration order differs from their storage order; the full
  adaptor model belongs to C02 and can replace them.

  Everything is polymorphic over the numeric classes (`Add`, `Sub`, `Mul`, `Div`, `Neg`, `Zero`)
  so the driver runs it at `Fp`/`Rat`/`Int` and the theorems at Mathlib semirings.  Core Lean only.
-/
import EasyMl.Model.Tensor
import EasyMl.Spec.Tensor
import EasyMl.Model.Matrix
import EasyMl.Model.Fp

namespace EasyMl.Arith
open EasyMl

variable {ν : Type} [DecidableEq ν] {α : Type}

/-! ### Small helpers -/

/-- `mapM` in `Outcome`, written structurally (the first panic wins, as in a Rust loop). -/
def outcomeMapM {β γ : Type} (f : β → Outcome γ) : List β → Outcome (List γ)
  | [] => .ok []
  | x :: xs =>
    match f x with
    | .panic k => .panic k
    | .ok y =>
      match outcomeMapM f xs with
      | .panic k => .panic k
      | .ok ys => .ok (y :: ys)

/-- The index tuples a `ShapeIterator` over lengths `lens` yields, in its order (last dimension
    fastest; nothing at all if some length is 0; the single empty tuple for `D = 0`). -/
def viewIndices : List Nat → List (List Nat)
  | [] => [[]]
  | l :: ls => (List.range l).flatMap fun i => (viewIndices ls).map (i :: ·)

/-- `Tensor::from` (panics where `Tensor::try_from` fails). -/
def tensorFrom (shape : Shape ν) (data : List α) : Outcome (Tensor ν α) :=
  match Tensor.tryFrom shape data with
  | some t => .ok t
  | none => .panic .explicit

/-! ### Tensor views: the `TensorRef` interface -/

/-- What `TensorRef<T, D>` exposes: `view_shape()` and `get_reference(indexes)`. -/
structure TView (ν α : Type) where
  shape : Shape ν
  get : List Nat → Option α

namespace TView

def lens (v : TView ν α) : List Nat := v.shape.map (·.2)

/-- `TensorReferenceIterator::from(&source)`: `ShapeIterator` over the view shape, reading each
    index through the source. -/
def elems (v : TView ν α) : List α := (viewIndices v.lens).filterMap v.get

/-- `impl TensorRef for Tensor` -/
def ofTensor (t : Tensor ν α) : TView ν α := ⟨t.shape, t.get⟩

/-- `TensorAccess::try_from(source, names)` as a `TensorRef` (`index_by`). -/
def access [Inhabited ν] (v : TView ν α) (names : List ν) : Option (TView ν α) :=
  match DimensionMappings.new v.shape names with
  | none => none
  | some m =>
    some ⟨m.mapShapeToRequested v.shape, fun idx => v.get (m.mapDimensionsToSource idx)⟩

/-- `TensorTranspose::try_from(source, names)`: the data is accessed in the order `names`, the
    dimension *names* stay in the source's order. -/
def transpose [Inhabited ν] (v : TView ν α) (names : List ν) : Option (TView ν α) :=
  match access v names with
  | none => none
  | some a => some ⟨List.zipWith (fun s o => (s.1, o.2)) v.shape a.shape, a.get⟩

/-- `IndexRange::map` for every dimension (`map_indexes_by_range`). -/
def mapByRange : List Nat → List (Nat × Nat) → Option (List Nat)
  | i :: is, (start, len) :: rs =>
    if i < len then (mapByRange is rs).map ((i + start) :: ·) else none
  | [], [] => some []
  | _, _ => none

/-- `TensorRange::from_all(source, [Some((start, length)); D])`, only for ranges that lie inside
    the source and are not empty (the lenient clipping of other ranges is C02/C16's subject; this
    local model answers `none` for them and the generator never produces them). -/
def range (v : TView ν α) (ranges : List (Nat × Nat)) : Option (TView ν α) :=
  if ranges.length = v.shape.length ∧
      (List.zip v.lens ranges).all (fun (l, (s, n)) => decide (1 ≤ n ∧ s + n ≤ l)) then
    some ⟨List.zipWith (fun d r => (d.1, r.2)) v.shape ranges,
          fun idx => match mapByRange idx ranges with
            | some src => v.get src
            | none => none⟩
  else none

/-- `IndexRange::mask` for every dimension, behind the per-dimension bound check of the masked
    shape (`map_indexes_by_mask`). -/
def mapByMask : List Nat → List Nat → List (Nat × Nat) → Option (List Nat)
  | i :: is, l :: ls, (start, len) :: ms =>
    if i < l - len then (mapByMask is ls ms).map ((if i < start then i else i + len) :: ·) else none
  | [], [], [] => some []
  | _, _, _ => none

/-- `TensorMask::from_all(source, [Some((start, length)); D])`, only for masks that lie inside the
    source and leave at least one index per dimension (other masks: `none`, never generated). -/
def mask (v : TView ν α) (masks : List (Nat × Nat)) : Option (TView ν α) :=
  if masks.length = v.shape.length ∧
      (List.zip v.lens masks).all (fun (l, (s, n)) => decide (s + n ≤ l ∧ 1 ≤ l - n)) then
    some ⟨List.zipWith (fun d m => (d.1, d.2 - m.2)) v.shape masks,
          fun idx => match mapByMask idx v.lens masks with
            | some src => v.get src
            | none => none⟩
  else none

/-- `reverse_indexes`: `length - 1 - index` for the reversed dimensions. -/
def reverseIndexes : List Nat → List (ν × Nat) → List ν → List Nat
  | i :: is, d :: ds, names =>
    (if names.contains d.1 then d.2 - 1 - i else i) :: reverseIndexes is ds names
  | _, _, _ => []

/-- `TensorReverse::from(source, names)` for names that are distinct dimensions of the source
    (others panic in the Rust constructor; `none` here), on in-range indexes. -/
def reverse (v : TView ν α) (names : List ν) : Option (TView ν α) :=
  if names.all (fun n => (v.shape.map (·.1)).contains n) ∧ ¬ hasDuplicates names then
    some ⟨v.shape, fun idx =>
      if Spec.inBounds v.lens idx then v.get (reverseIndexes idx v.shape names) else none⟩
  else none

/-- `TensorRename::from(source, names)` (unique names, same count). -/
def rename (v : TView ν α) (names : List ν) : Option (TView ν α) :=
  if names.length = v.shape.length ∧ ¬ hasDuplicates names then
    some ⟨List.zipWith (fun n d => (n, d.2)) names v.shape, v.get⟩
  else none

/-- `TensorIndex::from(source, [(name, i)])` (one provided index): the first dimension that has
    this name *and* admits the index is fixed to `i` (panics if there is none). -/
def select (v : TView ν α) (name : ν) (i : Nat) : Outcome (TView ν α) :=
  match findPos (fun d => decide (d.1 = name ∧ i < d.2)) v.shape with
  | none => .panic .explicit
  | some p => .ok ⟨v.shape.eraseIdx p, fun idx => v.get (idx.insertIdx p i)⟩

end TView

/-! ### Operands of the tensor operators -/

inductive Operand (ν α : Type) where
  | tensor (t : Tensor ν α)
  | view (v : TView ν α)

namespace Operand

/-- `Tensor::shape` / `TensorView::shape` -/
def shape : Operand ν α → Shape ν
  | .tensor t => t.shape
  | .view v => v.shape

/-- The element sequence the iterator-based operator impls consume:
    `direct_iter_reference()` (the flat `Vec`) for a `Tensor`, `iter_reference()` for a view. -/
def seq : Operand ν α → List α
  | .tensor t => t.data
  | .view v => v.elems

/-- The operand as a `TensorRef` (what `tensor_view_matrix_product` receives). -/
def asView : Operand ν α → TView ν α
  | .tensor t => TView.ofTensor t
  | .view v => v

end Operand

/-- `tensor_view_addition_iter` / `tensor_view_subtraction_iter` (and, with an arbitrary `op`,
    `elementwise*` of `Tensor`/`TensorView`): `assert_same_dimensions`, then
    `Tensor::from(left_shape, left.zip(right).map(op).collect())`. -/
def elementwise (op : α → α → α) (l r : Operand ν α) : Outcome (Tensor ν α) :=
  if l.shape = r.shape then tensorFrom l.shape (List.zipWith op l.seq r.seq)
  else .panic .explicit

/-- `Tensor::map` (same shape and strides, no validation) / `TensorView::map`
    (`Tensor::from(self.shape(), …)`). -/
def mapOperand (f : α → α) : Operand ν α → Outcome (Tensor ν α)
  | .tensor t => .ok { t with data := t.data.map f }
  | .view v => tensorFrom v.shape (v.elems.map f)

/-- `tensor ⊕ scalar` for `⊕ ∈ {+, -, *, /}`: `self.map(|x| x ⊕ rhs.clone())`. -/
def scalarOp (op : α → α → α) (x : Operand ν α) (s : α) : Outcome (Tensor ν α) :=
  mapOperand (fun e => op e s) x

/-- `scalar_product`: `zip`, `map(x * y)`, then `reduce(|x, y| x + y)` — a left fold that starts
    from the first product (no zero is added); `None` for empty input (`unwrap` panics). -/
def scalarProduct [Add α] [Mul α] (l r : List α) : Option α :=
  match List.zipWith (· * ·) l r with
  | [] => none
  | p :: ps => some (ps.foldl (· + ·) p)

/-- `Tensor::scalar_product` / `TensorView::scalar_product` (1-dimensional operands):
    `assert_same_dimensions`, the (then redundant) length test of
    `tensor_view_vector_product_iter`, `scalar_product`. -/
def vectorProduct [Add α] [Mul α] (l r : Operand ν α) : Outcome α :=
  if l.shape = r.shape then
    match l.shape, r.shape with
    | [dl], [dr] =>
      if dl.2 = dr.2 then
        match scalarProduct l.seq r.seq with
        | some x => .ok x
        | none => .panic .unwrap
      else .panic .explicit
    | _, _ => .panic .explicit
  else .panic .explicit

/-- One cell of `tensor_view_matrix_product`: `TensorIndex` row `i` of the left operand and
    column `j` of the right one, then `scalar_product(...)` (whose `unwrap` can panic). -/
def matMulCell [Add α] [Mul α] (l r : TView ν α) (rowName colName : ν) :
    List Nat → Outcome α
  | [i, j] =>
    match l.select rowName i with
    | .panic k => .panic k
    | .ok row =>
      match r.select colName j with
      | .panic k => .panic k
      | .ok col =>
        match scalarProduct row.elems col.elems with
        | some x => .ok x
        | none => .panic .unwrap
  | _ => .panic .explicit

/-- `tensor_view_matrix_product`: inner-length check, duplicate-result-name check,
    `Tensor::empty([left[0], right[1]], zero)`, then every cell in `iter_reference_mut` order. -/
def matMul [Add α] [Mul α] [Zero α] (l r : TView ν α) : Outcome (Tensor ν α) :=
  match l.shape, r.shape with
  | [l0, l1], [r0, r1] =>
    if l1.2 = r0.2 then
      if l0.1 = r1.1 then .panic .explicit
      else
        match tensorFrom [l0, r1] (List.replicate (elements [l0, r1]) (0 : α)) with
        | .panic k => .panic k
        | .ok t0 =>
          match outcomeMapM (matMulCell l r l0.1 r1.1) (viewIndices [l0.2, r1.2]) with
          | .panic k => .panic k
          | .ok cells => .ok { t0 with data := cells }
    else .panic .explicit
  | _, _ => .panic .explicit

/-! ### Matrices -/

/-- What `MatrixRef<T>` exposes: `view_rows`, `view_columns`, `try_get_reference`. -/
structure MView (α : Type) where
  rows : Nat
  columns : Nat
  get : Nat → Nat → Option α

namespace MView

/-- `impl MatrixRef for Matrix` -/
def ofMatrix (m : Matrix α) : MView α := ⟨m.rows, m.columns, m.tryGet⟩

/-- `MatrixRefTensor::from(source)` (`src/interop/mod.rs`): a 2-dimensional `TensorRef` seen as a
    `MatrixRef` — rows and columns are the two lengths, `try_get_reference(r, c)` is
    `get_reference([r, c])`; the dimension names are forgotten. -/
def ofTView {ν : Type} (v : TView ν α) : Option (MView α) :=
  match v.shape with
  | [d0, d1] => some ⟨d0.2, d1.2, fun r c => v.get [r, c]⟩
  | _ => none

/-- `RowMajorReferenceIterator::from(source)` -/
def elems (v : MView α) : List α :=
  (List.range v.rows).flatMap fun r => (List.range v.columns).filterMap fun c => v.get r c

/-- `RowReferenceIterator::from(source, row)` (asserts `index_is_valid(row, 0)`) -/
def row (v : MView α) (r : Nat) : Outcome (List α) :=
  if r < v.rows ∧ 0 < v.columns then .ok ((List.range v.columns).filterMap fun c => v.get r c)
  else .panic .explicit

/-- `ColumnReferenceIterator::from(source, column)` (asserts `index_is_valid(0, column)`) -/
def column (v : MView α) (c : Nat) : Outcome (List α) :=
  if 0 < v.rows ∧ c < v.columns then .ok ((List.range v.rows).filterMap fun r => v.get r c)
  else .panic .explicit

/-- `MatrixRange::from(source, rows, columns)` for ranges inside the source
    (`(start, length)` each; clipping of other ranges is not modelled here: `none`). -/
def range (v : MView α) (rs cs : Nat × Nat) : Option (MView α) :=
  if 1 ≤ rs.2 ∧ rs.1 + rs.2 ≤ v.rows ∧ 1 ≤ cs.2 ∧ cs.1 + cs.2 ≤ v.columns then
    some ⟨rs.2, cs.2, fun r c => if r < rs.2 ∧ c < cs.2 then v.get (r + rs.1) (c + cs.1) else none⟩
  else none

/-- `MatrixReverse::from(source, Reverse { rows, columns })` on in-range indexes. -/
def reverse (v : MView α) (revRows revCols : Bool) : MView α :=
  ⟨v.rows, v.columns, fun r c =>
    if r < v.rows ∧ c < v.columns then
      v.get (if revRows then v.rows - 1 - r else r) (if revCols then v.columns - 1 - c else c)
    else none⟩

end MView

inductive MOperand (α : Type) where
  | matrix (m : Matrix α)
  | view (v : MView α)

namespace MOperand

def size : MOperand α → Nat × Nat
  | .matrix m => (m.rows, m.columns)
  | .view v => (v.rows, v.columns)

/-- `direct_row_major_reference_iter()` for a `Matrix`, `RowMajorReferenceIterator` for a view -/
def seq : MOperand α → List α
  | .matrix m => m.data
  | .view v => v.elems

def asView : MOperand α → MView α
  | .matrix m => MView.ofMatrix m
  | .view v => v

end MOperand

/-- `Matrix::from_flat_row_major` (two asserts) -/
def matrixFromFlat (size : Nat × Nat) (values : List α) : Outcome (Matrix α) :=
  match Matrix.fromFlatRowMajor size.1 size.2 values with
  | some m => .ok m
  | none => .panic .explicit

/-- `matrix_view_addition_iter` / `matrix_view_subtraction_iter` -/
def mElementwise (op : α → α → α) (l r : MOperand α) : Outcome (Matrix α) :=
  if l.size = r.size then matrixFromFlat l.size (List.zipWith op l.seq r.seq)
  else .panic .explicit

/-- `Matrix::map` / `MatrixView::map` -/
def mMap (f : α → α) (x : MOperand α) : Outcome (Matrix α) :=
  matrixFromFlat x.size (x.seq.map f)

/-- `matrix ⊕ scalar` -/
def mScalarOp (op : α → α → α) (x : MOperand α) (s : α) : Outcome (Matrix α) :=
  mMap (fun e => op e s) x

/-- `Neg`: `self.map(|v| -v)` -/
def mNeg [Neg α] (x : MOperand α) : Outcome (Matrix α) := mMap (fun e => -e) x

/-- one cell of `matrix_view_multiplication` -/
def mMatMulCell [Add α] [Mul α] (l r : MView α) (ij : Nat × Nat) : Outcome α :=
  match l.row ij.1 with
  | .panic k => .panic k
  | .ok row =>
    match r.column ij.2 with
    | .panic k => .panic k
    | .ok col =>
      match scalarProduct row col with
      | some x => .ok x
      | none => .panic .unwrap

/-- `matrix_view_multiplication`: the inner-size assert, `Matrix::empty(zero, (rows, columns))`
    (asserts at least 1×1), then each cell in row-major order. -/
def mMatMul [Add α] [Mul α] [Zero α] (l r : MView α) : Outcome (Matrix α) :=
  if l.columns = r.rows then
    if 0 < l.rows ∧ 0 < r.columns then
      match outcomeMapM (mMatMulCell l r)
          ((List.range l.rows).flatMap fun i => (List.range r.columns).map fun j => (i, j)) with
      | .panic k => .panic k
      | .ok cells => .ok ⟨cells, l.rows, r.columns⟩
    else .panic .explicit
  else .panic .explicit

end EasyMl.Arith
