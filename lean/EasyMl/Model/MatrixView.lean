/-
  EasyMl.Model.MatrixView — code-shaped model of the matrix views (C12) and of the fallible
  matrix entry points (C16): `Matrix` checked getters, `MatrixRange`, `MatrixReverse`,
  `MatrixMap`, `MatrixPart` / `Matrix::partition` / `partition_quadrants`, `TensorRefMatrix`,
  `MatrixRefTensor`, `try_into_scalar`, `into_tensor`.

  A `MatrixRef` implementation is modelled by `view_rows`, `view_columns` and its checked getter
  `try_get_reference`, which answers with the flat offset (in the leaf `Matrix`'s row-major
  `data`) of the addressed cell — the leaves hold their offsets as ids.  Adaptors are functions
  from views to views, so nested compositions are terms of the model.  `usize` arithmetic is
  explicit (`cadd/csub/cmul`), as are slice indexing (`idxC`) and `split_at_mut`.

  The pinned code vs. the repaired code (fixes D-04, D-06) is selected by the `Arith` record of
  `Model/Fallible.lean`.  Core Lean only.
-/
import EasyMl.Model.Fallible
import EasyMl.Model.Matrix
import EasyMl.Model.MatrixResize

namespace EasyMl.MatrixView
open EasyMl.Fallible

structure MView where
  rows : Nat
  columns : Nat
  get : Nat → Nat → Outcome (Option Nat)

/-- What the model keeps of a `Matrix<u64>` whose data are the ids `0..dataLen`. -/
structure MatrixMeta where
  dataLen : Nat
  rows : Nat
  columns : Nat
  deriving Repr, DecidableEq

/-- `Matrix::_try_get_reference` (src/matrices/mod.rs:346-352):
    `if row < rows && column < columns { Some(&self.data[column + row * columns]) } else { None }` -/
def MatrixMeta.get (m : MatrixMeta) (row column : Nat) : Outcome (Option Nat) :=
  if row < m.rows ∧ column < m.columns then
    match cmul row m.columns with
    | .panic k => .panic k
    | .ok p =>
      match cadd column p with
      | .panic k => .panic k
      | .ok i => if i < m.dataLen then .ok (some i) else .panic .index
  else .ok none

def MView.ofMatrix (m : MatrixMeta) : MView := ⟨m.rows, m.columns, m.get⟩

/-- the shape shared by the checked getters of `MatrixRange` and `MatrixReverse`: map the row
    (`?`), map the column (`?`), then ask the source -/
def MView.getVia (src : MView) (f g : Nat → Outcome (Option Nat)) (row column : Nat) :
    Outcome (Option Nat) :=
  match f row with
  | .panic k => .panic k
  | .ok none => .ok none
  | .ok (some r) =>
    match g column with
    | .panic k => .panic k
    | .ok none => .ok none
    | .ok (some c) => src.get r c

/-- `MatrixRange::from` (src/matrices/views/ranges.rs:68-88): both ranges are clipped to the
    source's size; the getter maps both coordinates (`IndexRange::map`). -/
def MView.range (A : Arith) (src : MView) (rows columns : IndexRange) : Outcome MView :=
  match A.clip rows src.rows with
  | .panic k => .panic k
  | .ok rs =>
    match A.clip columns src.columns with
    | .panic k => .panic k
    | .ok cs =>
      .ok { rows := rs.length
            columns := cs.length
            get := src.getVia rs.map cs.map }

/-- `MatrixReverse` (src/matrices/views/reverse.rs:123-139): the empty-view guard, then
    `reverse_indexes` (pinned) / `try_reverse_indexes(..)?` (repaired) on `[row, column]`. -/
def MView.reverse (A : Arith) (src : MView) (rows columns : Bool) : MView where
  rows := src.rows
  columns := src.columns
  get := fun row column =>
    if src.rows = 0 ∨ src.columns = 0 then .ok none
    else
      src.getVia (if rows then A.reverseChecked src.rows else fun i => .ok (some i))
        (if columns then A.reverseChecked src.columns else fun i => .ok (some i)) row column

/-- `MatrixMap` (src/matrices/views/map.rs): same cells, the element is passed through `f`
    (which cell is addressed is all the model keeps). -/
def MView.map (src : MView) : MView := ⟨src.rows, src.columns, src.get⟩

/-- `MatrixRefTensor` (src/interop/mod.rs:229-306): `rows = view_shape()[0].1`,
    `columns = view_shape()[1].1`, `try_get_reference(r, c) = source.get_reference([r, c])` -/
def MView.ofTensor {ν : Type} (t : TView ν) : Outcome MView :=
  match idxC t.shape 0 with
  | .panic k => .panic k
  | .ok (_, rows) =>
    match idxC t.shape 1 with
    | .panic k => .panic k
    | .ok (_, columns) => .ok ⟨rows, columns, fun r c => t.get [r, c]⟩

/-- `TensorRefMatrix::with_names` (src/interop/mod.rs:112-130): `Err` carries the rejected shape -/
def tensorRefMatrixWithNames {ν : Type} [DecidableEq ν] (src : MView) (rowName columnName : ν) :
    Outcome (Except (Shape ν) (TView ν)) :=
  let shape : Shape ν := [(rowName, src.rows), (columnName, src.columns)]
  if isValidShape shape then
    .ok (.ok
      { shape := shape
        get := fun idx =>
          match idxC idx 0 with
          | .panic k => .panic k
          | .ok r =>
            match idxC idx 1 with
            | .panic k => .panic k
            | .ok c => src.get r c })
  else .ok (.error shape)

/-- `Matrix::try_into_scalar` (src/matrices/mod.rs:678-684): the single element's id -/
def tryIntoScalar (m : MatrixMeta) : Outcome (Option Nat) :=
  if m.rows = 1 ∧ m.columns = 1 then
    match unwrapC (if 0 < m.dataLen then some 0 else none) with
    | .ok v => .ok (some v)
    | .panic k => .panic k
  else .ok none

/-- `Matrix::into_tensor` / `TryFrom<(Matrix<T>, [Dimension; 2])>` (src/matrices/mod.rs:1518-1532):
    `is_valid` on the shape, then the *panicking* `Tensor::from` -/
def matrixIntoTensor {ν : Type} [DecidableEq ν] (A : Arith) (m : MatrixMeta) (rowName columnName : ν) :
    Outcome (Except (Shape ν) (TensorMeta ν)) :=
  let shape : Shape ν := [(rowName, m.rows), (columnName, m.columns)]
  if !isValidShape shape then .ok (.error shape)
  else
    match tensorTryFrom A shape m.dataLen with
    | .panic k => .panic k
    | .ok (.ok t) => .ok (.ok t)
    | .ok (.error _) => .panic .explicit

/-! ### `Matrix::partition` (src/matrices/mod.rs:720-803) -/

/-- `check_axis`: every index `<= length`; each index after the first must exceed the *first*
    one (`previous` is never advanced: `Some(i) => { assert!(index > i); Some(i) }`). -/
def checkAxisGo (length : Nat) : List Nat → Option Nat → Outcome Unit
  | [], _ => .ok ()
  | index :: rest, previous =>
    if ¬ index ≤ length then .panic .explicit
    else
      match previous with
      | none => checkAxisGo length rest (some index)
      | some i => if ¬ index > i then .panic .explicit else checkAxisGo length rest (some i)

def checkAxis (partitions : List Nat) (length : Nat) : Outcome Unit :=
  checkAxisGo length partitions none

/-- the inner `for c in 0..column_slices` loop: split the next row of the matrix at the column
    boundaries.  `bounds` are the column partitions followed by `columns`; `data` is the not yet
    distributed rest of the matrix (offsets).  Returns the pieces and the rest. -/
def splitRow : List Nat → Nat → List Nat → Outcome (List (List Nat) × List Nat)
  | [], _, data => .ok ([], data)
  | columnIndex :: bounds, index, data =>
    match csub columnIndex index with
    | .panic k => .panic k
    | .ok columnsIncluded =>
      -- `data.split_at_mut(columns_included)` panics when `mid > len`
      if columnsIncluded ≤ data.length then
        match splitRow bounds columnIndex (data.drop columnsIncluded) with
        | .panic k => .panic k
        | .ok (pieces, rest) => .ok (data.take columnsIncluded :: pieces, rest)
      else .panic .index

/-- the `for _ in 0..rows_included` loop: each of the `n` rows is split and piece `c` is pushed
    to the `c`-th `Vec` of this row of parts -/
def splitRows (bounds : List Nat) : Nat → List (List (List Nat)) → List Nat →
    Outcome (List (List (List Nat)) × List Nat)
  | 0, parts, data => .ok (parts, data)
  | n + 1, parts, data =>
    match splitRow bounds 0 data with
    | .panic k => .panic k
    | .ok (pieces, rest) =>
      splitRows bounds n (List.zipWith (fun part piece => part ++ [piece]) parts pieces) rest

/-- the outer `for r in 0..row_slices` loop; `rowBounds` are the row partitions followed by
    `rows`.  Returns, in row-major grid order, each part's `Vec<&mut [T]>` (as offsets). -/
def partitionWalk (columnBounds : List Nat) : List Nat → Nat → List Nat →
    Outcome (List (List (List Nat)))
  | [], _, _ => .ok []
  | rowIndex :: rowBounds, index, data =>
    match csub rowIndex index with
    | .panic k => .panic k
    | .ok rowsIncluded =>
      match splitRows columnBounds rowsIncluded (List.replicate columnBounds.length []) data with
      | .panic k => .panic k
      | .ok (parts, rest) =>
        match partitionWalk columnBounds rowBounds rowIndex rest with
        | .panic k => .panic k
        | .ok later => .ok (parts ++ later)

/-- a `MatrixPart`: the row slices (as offsets into the matrix data) and its size -/
structure MatrixPart where
  data : List (List Nat)
  rows : Nat
  columns : Nat
  deriving Repr, DecidableEq

/-- the final `map` of `partition`: `rows = slices.len()`, `columns = first row's len or 0`,
    and the `0×0` normalisation when `columns == 0` -/
def MatrixPart.ofSlices (slices : List (List Nat)) : MatrixPart :=
  let rows := slices.length
  let columns := (slices.head?.map (·.length)).getD 0
  if columns = 0 then ⟨slices, 0, 0⟩ else ⟨slices, rows, columns⟩

/-- `Matrix::partition` -/
def partition (m : MatrixMeta) (rowPartitions columnPartitions : List Nat) :
    Outcome (List MatrixPart) :=
  match checkAxis rowPartitions m.rows with
  | .panic k => .panic k
  | .ok () =>
    match checkAxis columnPartitions m.columns with
    | .panic k => .panic k
    | .ok () =>
      -- `total_slices = row_slices * column_slices` (the capacity of the outer `Vec`)
      match cmul (rowPartitions.length + 1) (columnPartitions.length + 1) with
      | .panic k => .panic k
      | .ok _ =>
        match partitionWalk (columnPartitions ++ [m.columns]) (rowPartitions ++ [m.rows]) 0
            (List.range m.dataLen) with
        | .panic k => .panic k
        | .ok parts => .ok (parts.map MatrixPart.ofSlices)

/-- `MatrixPart::try_get_reference` (src/matrices/views/partitions.rs:55-60) -/
def MatrixPart.get (p : MatrixPart) (row column : Nat) : Outcome (Option Nat) :=
  if row ≥ p.rows ∨ column ≥ p.columns then .ok none
  else
    match idxC p.data row with
    | .panic k => .panic k
    | .ok slice =>
      match idxC slice column with
      | .panic k => .panic k
      | .ok o => .ok (some o)

def MView.ofPart (p : MatrixPart) : MView := ⟨p.rows, p.columns, p.get⟩

/-- `Matrix::partition_quadrants`: `partition(&[row], &[column])` and four `next().unwrap()`s -/
def partitionQuadrants (m : MatrixMeta) (row column : Nat) :
    Outcome (MatrixPart × MatrixPart × MatrixPart × MatrixPart) :=
  match partition m [row] [column] with
  | .panic k => .panic k
  | .ok [a, b, c, d] => .ok (a, b, c, d)
  | .ok _ => .panic .unwrap

/-! ### nested compositions of matrix views (C12)

  `MExpr` is the syntax of a composition; `MExpr.eval` builds it with the model's constructors
  and pairs the checked getter with the *unchecked* one (`get_reference_unchecked`), which
  answers the flat offset it would dereference (`.panic .hook` where the leaf access would be
  outside the data, i.e. undefined behaviour in the real code). -/

inductive MExpr where
  /-- a `Matrix` of the given size holding the ids `0..rows·columns` -/
  | leaf (rows columns : Nat)
  /-- a column-major source: `MatrixRefTensor::from(TensorAccess::from(t, [r, c]))` over a tensor
      `t` of shape `[(c, columns), (r, rows)]` holding the ids `0..rows·columns` (its
      `data_layout` is `ColumnMajor`; cell `(i, j)` is the tensor's element `j·rows + i`) -/
  | leafCM (rows columns : Nat)
  /-- the part at grid position `(kr, kc)` of `Matrix::partition(rp, cp)` of a `rows × columns`
      matrix holding the ids: `parts[kr * (cp.len() + 1) + kc]` (the parts come in row-major
      grid order), a `MatrixPart` -/
  | part (rows columns : Nat) (rp cp : List Nat) (kr kc : Nat)
  /-- `MatrixRange::from(e, rows, columns)` -/
  | range (e : MExpr) (rows columns : IndexRange)
  /-- `MatrixReverse::from(e, Reverse { rows, columns })` -/
  | reverse (e : MExpr) (rows columns : Bool)
  /-- `MatrixMap::from(e, f)` -/
  | map (e : MExpr)
  /-- `MatrixRefTensor::from(TensorRefMatrix::from(e)?)` -/
  | viaTensor (e : MExpr)
  /-- the transposed view obtained through the tensor side:
      `MatrixRefTensor::from(TensorAccess::from(TensorRefMatrix::from(e)?, [column, row]))` -/
  | swapped (e : MExpr)
  deriving Repr, DecidableEq

structure MViewU where
  view : MView
  /-- `get_reference_unchecked` -/
  uget : Nat → Nat → Outcome Nat

/-- `Matrix::_get_reference_unchecked`: `self.data.get_unchecked(column + row * columns)` -/
def MatrixMeta.uget (m : MatrixMeta) (row column : Nat) : Outcome Nat :=
  match cmul row m.columns with
  | .panic k => .panic k
  | .ok p =>
    match cadd column p with
    | .panic k => .panic k
    | .ok i => if i < m.dataLen then .ok i else .panic .hook

/-- the unchecked getters of `MatrixRange`: `self.rows.map(row).unwrap()` … -/
def rangeUget (src : Nat → Nat → Outcome Nat) (rs cs : IndexRange) (row column : Nat) : Outcome Nat :=
  match rs.map row with
  | .panic k => .panic k
  | .ok r' =>
    match unwrapC r' with
    | .panic k => .panic k
    | .ok r =>
      match cs.map column with
      | .panic k => .panic k
      | .ok c' =>
        match unwrapC c' with
        | .panic k => .panic k
        | .ok c => src r c

/-- the unchecked getters of `MatrixReverse`: `reverse_indexes` (unchecked subtraction) -/
def reverseUget (src : Nat → Nat → Outcome Nat) (rows columns : Nat) (fr fc : Bool)
    (row column : Nat) : Outcome Nat :=
  match (if fr then reverseOne rows row else .ok row) with
  | .panic k => .panic k
  | .ok r =>
    match (if fc then reverseOne columns column else .ok column) with
    | .panic k => .panic k
    | .ok c => src r c

/-- The checked getter of the column-major source.  The tensor, the `TensorAccess` and the
    wrapper are the subject of C01/C02/C16; here their composition is taken in closed form (the
    bounds checks of `get_index_direct` on the swapped coordinates, then `j * rows + i`). -/
def cmGet (rows columns : Nat) (row column : Nat) : Outcome (Option Nat) :=
  if column < columns ∧ row < rows then
    match cmul column rows with
    | .panic k => .panic k
    | .ok p =>
      match cadd p row with
      | .panic k => .panic k
      | .ok i => if i < rows * columns then .ok (some i) else .ok none
  else .ok none

/-- its unchecked getter (`get_index_direct(..).unwrap_unchecked()`, `get_unchecked`) -/
def cmUget (rows columns : Nat) (row column : Nat) : Outcome Nat :=
  match cmul column rows with
  | .panic k => .panic k
  | .ok p =>
    match cadd p row with
    | .panic k => .panic k
    | .ok i => if i < rows * columns then .ok i else .panic .hook

/-- `MatrixPart::get_reference_unchecked`:
    `self.data.get_unchecked(row).get_unchecked(column)` -/
def MatrixPart.uget (p : MatrixPart) (row column : Nat) : Outcome Nat :=
  match p.data[row]? with
  | none => .panic .hook
  | some slice =>
    match slice[column]? with
    | none => .panic .hook
    | some o => .ok o

def MExpr.eval (A : Arith) : MExpr → Outcome (Except (Shape Bool) MViewU)
  | .leaf rows columns =>
    let m : MatrixMeta := ⟨rows * columns, rows, columns⟩
    .ok (.ok ⟨MView.ofMatrix m, m.uget⟩)
  | .leafCM rows columns =>
    .ok (.ok ⟨⟨rows, columns, cmGet rows columns⟩, cmUget rows columns⟩)
  | .part rows columns rp cp kr kc =>
    match partition ⟨rows * columns, rows, columns⟩ rp cp with
    | .panic k => .panic k
    | .ok parts =>
      match idxC parts (kr * (cp.length + 1) + kc) with
      | .panic k => .panic k
      | .ok p => .ok (.ok ⟨MView.ofPart p, p.uget⟩)
  | .range e rows columns =>
    match e.eval A with
    | .panic k => .panic k
    | .ok (.error s) => .ok (.error s)
    | .ok (.ok src) =>
      match A.clip rows src.view.rows with
      | .panic k => .panic k
      | .ok rs =>
        match A.clip columns src.view.columns with
        | .panic k => .panic k
        | .ok cs =>
          .ok (.ok ⟨⟨rs.length, cs.length, src.view.getVia rs.map cs.map⟩,
                    rangeUget src.uget rs cs⟩)
  | .reverse e rows columns =>
    match e.eval A with
    | .panic k => .panic k
    | .ok (.error s) => .ok (.error s)
    | .ok (.ok src) =>
      .ok (.ok ⟨src.view.reverse A rows columns,
                reverseUget src.uget src.view.rows src.view.columns rows columns⟩)
  | .map e => e.eval A
  | .viaTensor e =>
    match e.eval A with
    | .panic k => .panic k
    | .ok (.error s) => .ok (.error s)
    | .ok (.ok src) =>
      match tensorRefMatrixWithNames src.view true false with
      | .panic k => .panic k
      | .ok (.error s) => .ok (.error s)
      | .ok (.ok t) =>
        match MView.ofTensor t with
        | .panic k => .panic k
        | .ok v => .ok (.ok ⟨v, src.uget⟩)
  | .swapped e =>
    match e.eval A with
    | .panic k => .panic k
    | .ok (.error s) => .ok (.error s)
    | .ok (.ok src) =>
      match tensorRefMatrixWithNames src.view true false with
      | .panic k => .panic k
      | .ok (.error s) => .ok (.error s)
      | .ok (.ok t) =>
        -- `TensorAccess::from(t, [column, row])` (panics on names that are not the tensor's)
        match accessTryFrom t [false, true] with
        | .panic k => .panic k
        | .ok (.error _) => .panic .explicit
        | .ok (.ok a) =>
          match MView.ofTensor a with
          | .panic k => .panic k
          | .ok v => .ok (.ok ⟨v, fun row column => src.uget column row⟩)

/-! ### `data_layout` and matrix equality -/

/-- `matrices::views::DataLayout` -/
inductive MLayout where
  | rowMajor | columnMajor | other
  deriving DecidableEq, Repr

/-- `tensors::views::DataLayout<2>` as far as the wrappers look at it: linear with the matrix's
    row dimension first or second, or not linear -/
inductive TLayout2 where
  | linear (rowsFirst : Bool) | nonLinear | other
  deriving DecidableEq, Repr

/-- `data_layout()` of each adaptor: a `Matrix` and a `MatrixPart` are row-major, a range and a map pass their
    source's layout on, a reversal answers `Other`, `TensorRefMatrix` translates to the tensor
    vocabulary and `MatrixRefTensor` back (src/interop/mod.rs:158-172, 263-288) -/
def MExpr.layout : MExpr → MLayout
  | .leaf _ _ => .rowMajor
  | .leafCM _ _ => .columnMajor
  | .part _ _ _ _ _ _ => .rowMajor
  | .range e _ _ => e.layout
  | .reverse _ _ _ => .other
  | .map e => e.layout
  | .viaTensor e =>
    let t : TLayout2 :=
      match e.layout with
      | .rowMajor => .linear true
      | .columnMajor => .linear false
      | .other => .other
    match t with
    | .linear true => .rowMajor
    | .linear false => .columnMajor
    | .nonLinear => .other
    | .other => .other
  | .swapped e =>
    -- `TensorRefMatrix` translates, `TensorAccess` passes the layout on unchanged, and
    -- `MatrixRefTensor` compares it with the names of the *swapped* view shape: the matrix's
    -- row name is now the second dimension
    let t : TLayout2 :=
      match e.layout with
      | .rowMajor => .linear true
      | .columnMajor => .linear false
      | .other => .other
    match t with
    | .linear true => .columnMajor
    | .linear false => .rowMajor
    | .nonLinear => .other
    | .other => .other

/-- a matrix-like source as equality sees it: a size, a layout and its elements -/
structure Grid where
  rows : Nat
  columns : Nat
  layout : MLayout
  elem : Nat → Nat → Nat

/-- `RowMajorReferenceIterator` / `ColumnMajorReferenceIterator` over the source -/
def Grid.rowMajor (g : Grid) : List Nat := (indexPairs g.rows g.columns).map fun ij => g.elem ij.1 ij.2
def Grid.columnMajor (g : Grid) : List Nat := (indexPairs g.columns g.rows).map fun ji => g.elem ji.2 ji.1

/-- `matrix_equality` (src/matrices/views.rs:920-950), the function behind the three `PartialEq`
    impls (`MatrixView == MatrixView`, `MatrixView == Matrix`, `Matrix == MatrixView`): sizes,
    then an elementwise comparison in column-major order when both sources are column-major and
    in row-major order otherwise -/
def matrixEquality (l r : Grid) : Bool :=
  if l.rows ≠ r.rows then false
  else if l.columns ≠ r.columns then false
  else
    match l.layout, r.layout with
    | .columnMajor, .columnMajor => (l.columnMajor.zip r.columnMajor).all fun xy => xy.1 == xy.2
    | _, _ => (l.rowMajor.zip r.rowMajor).all fun xy => xy.1 == xy.2

/-! ### views that still give access to their source (C12, state after construction)

  `MatrixReverse` is the only public matrix adaptor with post-construction accessors:
  `source(self)`, `source_ref(&self)`, `source_ref_mut(&mut self)` (src/matrices/views/reverse.rs
  :74-92; `MatrixView` has the same three, it is a transparent wrapper; `MatrixRange`,
  `MatrixPart`, `TensorRefMatrix`, `MatrixRefTensor` have none).  Over an owned `Matrix`, a
  `&mut Matrix` or a `Box<Matrix>` the chain `view.source_ref_mut()…source_ref_mut()` reaches the
  matrix itself, which can then be written and *resized* (`insert_row`, `remove_column`,
  `retain_mut`, …: the operations of C11, `Matrix.exec`).

  `Live` mirrors the structs field by field: a `MatrixReverse` is `{ source, rows, columns }` —
  it keeps **no** copy of its source's size; every accessor reads `source.view_rows()` /
  `view_columns()` when it is called. -/

inductive Live (α : Type) where
  /-- the `Matrix<T>` at the bottom -/
  | matrix (m : Matrix α)
  /-- `MatrixReverse { source, rows, columns }` -/
  | reverse (source : Live α) (rows columns : Bool)
  deriving Repr

namespace Live
variable {α : Type}

/-- the matrix at the bottom of the chain -/
def leaf : Live α → Matrix α
  | .matrix m => m
  | .reverse s _ _ => s.leaf

/-- `source_ref_mut()` down to the matrix, then one operation on it: the object left behind
    (also after a panic) and the panic -/
def mutate : Live α → Matrix.Op α → Live α × Option PanicKind
  | .matrix m, op => (.matrix (m.exec op).state, (m.exec op).panic)
  | .reverse s fr fc, op => (.reverse (s.mutate op).1 fr fc, (s.mutate op).2)

/-- a history of such operations -/
def mutateAll : Live α → List (Matrix.Op α) → Live α
  | l, [] => l
  | l, op :: ops => mutateAll (l.mutate op).1 ops

/-- what the model keeps of the current matrix for the getters -/
def metaOf (m : Matrix α) : MatrixMeta := ⟨m.data.length, m.rows, m.columns⟩

/-- the `MatrixRef` / `MatrixMut` implementation of the object *as it is now*: `view_rows`,
    `view_columns`, checked and unchecked getters (answers are offsets into the current data of
    the matrix at the bottom) -/
def view (A : Arith) : Live α → MViewU
  | .matrix m => ⟨MView.ofMatrix (metaOf m), (metaOf m).uget⟩
  | .reverse s fr fc =>
    let v := s.view A
    ⟨v.view.reverse A fr fc, reverseUget v.uget v.view.rows v.view.columns fr fc⟩

/-- `source_ref()` (`k` times): the inner object, read-only -/
def sourceRef : Live α → Nat → Option (Live α)
  | l, 0 => some l
  | .matrix _, _ + 1 => none
  | .reverse s _ _, k + 1 => s.sourceRef k

/-- `source(self)`: unwrap one adaptor -/
def unwrap : Live α → Option (Live α)
  | .matrix _ => none
  | .reverse s _ _ => some s

/-- the specification-level description of the object as it is now: reversals over a leaf of
    the matrix's *current* size -/
def expr : Live α → MExpr
  | .matrix m => .leaf m.rows m.columns
  | .reverse s fr fc => .reverse s.expr fr fc

end Live

end EasyMl.MatrixView
