/-
  EasyMl.Model.TapeChecked — the `Rec` / `Dual` models of `Model/Tape.lean` instantiated at a
  bounded integer element type with the overflow checks on (`Record<i32>`, `Trace<i64>`, …).

  `Model/Tape.lean` is written over total operators `[Add R] [Sub R] …`.  A plain Rust integer's
  operators are not total: in the dev profile `a + b` panics when the mathematical result leaves
  `[T::MIN, T::MAX]`, `a / 0` panics.  The element type used here is therefore the *evaluation*
  of an integer expression, `Chk t := Outcome (Val t)`: a value of type `t`, or the first panic
  the evaluation ran into.  An operator evaluates its left operand, then its right operand (the
  order Rust evaluates `l op r`), then applies the checked operator of `Model/Numeric.lean`
  (`pAdd`, `pSub`, `pMul`, `pDiv`, `checked (-x)`) — agent K's `arithPlain t`.

  With this element type the code-shaped definitions `Rec.add`, `Dual.div`, `Fn.Division.dy`, …
  are read exactly as they are written: `(-x) / (y * y)` negates, then squares, then divides,
  each step panicking where the plain operator would.  A record's `number`, and each weight an
  operator puts on the tape, is such an evaluation.

  Core Lean only.
-/
import EasyMl.Model.Tape
import EasyMl.Model.WrapperOps

namespace EasyMl

open EasyMl.Num

/-- the evaluation of an expression of the plain integer type `t` (overflow checks on) -/
def Chk (t : IntTy) : Type := Outcome (Val t)

namespace Chk
variable {t : IntTy}

/-- an evaluated operand -/
def lift (x : Val t) : Chk t := Outcome.ok x

/-- what was evaluated -/
def out (c : Chk t) : Outcome (Val t) := c

/-- `l op r`: left operand, right operand, then the element type's checked operator -/
def bin (f : Val t → Val t → Outcome (Val t)) (a b : Chk t) : Chk t :=
  Outcome.bind a (fun x => Outcome.bind b (fun y => f x y))

instance : Add (Chk t) := ⟨bin (arithPlain t).add⟩
instance : Sub (Chk t) := ⟨bin (arithPlain t).sub⟩
instance : Mul (Chk t) := ⟨bin (arithPlain t).mul⟩
instance : Div (Chk t) := ⟨bin (arithPlain t).div⟩
instance : Neg (Chk t) := ⟨fun a => Outcome.bind a (arithPlain t).neg⟩
instance : Zero (Chk t) := ⟨lift (arithPlain t).zero⟩
instance : One (Chk t) := ⟨lift (arithPlain t).one⟩

end Chk

/-! ### the four operators, by name -/

/-- `&Record op &Record` -/
def Rec.bin {R : Type} [Add R] [Sub R] [Mul R] [Div R] [Neg R] [Zero R] [One R]
    (op : BinOp) (a b : Rec R) (w : World R) : Outcome (Rec R × World R) :=
  match op with
  | .add => a.add b w | .sub => a.sub b w | .mul => a.mul b w | .div => a.div b w

/-- `&Record op &T` -/
def Rec.binNum {R : Type} [Add R] [Sub R] [Mul R] [Div R] [Neg R] [Zero R] [One R]
    (op : BinOp) (a : Rec R) (c : R) (w : World R) : Rec R × World R :=
  match op with
  | .add => a.addNum c w | .sub => a.subNum c w | .mul => a.mulNum c w | .div => a.divNum c w

/-- the element function and the two local derivatives of functions.rs, by name -/
def Fn.fnOf {R : Type} [Add R] [Sub R] [Mul R] [Div R] [Neg R] [One R] (op : BinOp) : R → R → R :=
  match op with
  | .add => Fn.Addition.function | .sub => Fn.Subtraction.function
  | .mul => Fn.Multiplication.function | .div => Fn.Division.function

def Fn.dxOf {R : Type} [Add R] [Sub R] [Mul R] [Div R] [Neg R] [One R] (op : BinOp) : R → R → R :=
  match op with
  | .add => Fn.Addition.dx | .sub => Fn.Subtraction.dx
  | .mul => Fn.Multiplication.dx | .div => Fn.Division.dx

def Fn.dyOf {R : Type} [Add R] [Sub R] [Mul R] [Div R] [Neg R] [One R] (op : BinOp) : R → R → R :=
  match op with
  | .add => Fn.Addition.dy | .sub => Fn.Subtraction.dy
  | .mul => Fn.Multiplication.dy | .div => Fn.Division.dy

/-- `&Trace op &Trace` -/
def Dual.bin {R : Type} [Add R] [Sub R] [Mul R] [Div R] [Zero R] [One R]
    (op : BinOp) (a b : Dual R) : Dual R :=
  match op with
  | .add => a.add b | .sub => a.sub b | .mul => a.mul b | .div => a.div b

/-- `&Trace op &T` -/
def Dual.binNum {R : Type} [Add R] [Sub R] [Mul R] [Div R] [Zero R] [One R]
    (op : BinOp) (a : Dual R) (c : R) : Dual R :=
  match op with
  | .add => a.addNum c | .sub => a.subNum c | .mul => a.mulNum c | .div => a.divNum c

/-- A `Trace<T>` operator computes the number and then the derivative (the struct literal's
    fields in source order) and returns the pair: the operation's value, or its first panic. -/
def Dual.evaluated {t : IntTy} (d : Dual (Chk t)) : Outcome (Num.Trace (Val t)) :=
  Outcome.bind d.number.out (fun n => Outcome.bind d.derivative.out (fun d' => .ok ⟨n, d'⟩))

/-- a `Trace<T>` whose two fields are values -/
def Dual.ofTrace {t : IntTy} (a : Num.Trace (Val t)) : Dual (Chk t) :=
  ⟨Chk.lift a.number, Chk.lift a.derivative⟩

end EasyMl
