/-
  EasyMl.Model.Heaps — code-shaped model of Heap's algorithm as easy-ml uses it for the
  determinant (`src/linear_algebra.rs:494-545`):

    heaps                  heaps_permutations(k, list, consumer)
    withEachPermutation    with_each_permutation   (alternating `even_swaps` flag)
    generatePermutations   generate_permutations

  The consumer's captured state is threaded explicitly; the consumer is read-only on the list
  (the Rust closure gets `&mut Vec<T>` but neither caller mutates it).  In its own module so that
  the kernel-checked tables (Lemmas/DetTable) are rebuilt only when this file changes.
  Core Lean only.
-/
import EasyMl.Model.Basic

namespace EasyMl.Det

/-! ### Heap's algorithm (`heaps_permutations`) -/

section Heaps
variable {α σ : Type}

/-- `Vec::swap(i, j)`.  (Out of range it would panic; in `heaps` both indices are `< k ≤ len`.) -/
def swap (l : List α) (i j : Nat) : List α :=
  match l[i]?, l[j]? with
  | some a, some b => (l.set i b).set j a
  | _, _ => l

/-- The swap performed after the `i`-th recursive call of level `k`:
    `if i < k - 1 { if k % 2 == 0 { list.swap(i, k-1) } else { list.swap(0, k-1) } }`. -/
def heapsSwap (k i : Nat) (list : List α) : List α :=
  if i < k - 1 then
    if k % 2 == 0 then swap list i (k - 1) else swap list 0 (k - 1)
  else list

/-- `for i in 0..k { rec(k-1); swap }` with `fuel` iterations left, the next one being `i`.
    `rec` is `heaps_permutations(k - 1, ·, consumer)`. -/
def heapsLoop (rec : List α → σ → List α × σ) (k : Nat) :
    Nat → Nat → List α → σ → List α × σ
  | 0, _, list, st => (list, st)
  | fuel + 1, i, list, st =>
    let (list, st) := rec list st
    heapsLoop rec k fuel (i + 1) (heapsSwap k i list) st

/-- `heaps_permutations(k, list, consumer)`; the consumer's captured state is threaded as `σ`.
    Structural recursion on `k` (the Rust recursion `k → k - 1`); `k = 0` runs `for i in 0..0`. -/
def heaps (consumer : σ → List α → σ) : Nat → List α → σ → List α × σ
  | 0, list, st => (list, st)
  | 1, list, st => (list, consumer st list)
  | k + 2, list, st => heapsLoop (heaps consumer (k + 1)) (k + 2) (k + 2) 0 list st

/-- `with_each_permutation`: the consumer additionally gets the alternating `even_swaps` flag. -/
def withEachPermutation (list : List α) (st : σ) (consumer : σ → List α → Bool → σ) :
    List α × σ :=
  let r := heaps (fun (s : Bool × σ) p => (!s.1, consumer s.2 p s.1)) list.length list (true, st)
  (r.1, r.2.2)

/-- `generate_permutations`: all emitted lists with their flag, in emission order. -/
def generatePermutations (list : List α) : List (List α × Bool) :=
  (withEachPermutation list [] (fun acc p e => acc ++ [(p, e)])).2

end Heaps

end EasyMl.Det
