/-
  EasyMl.Model.Decomp — code-shaped model of the three matrix decompositions of
  `src/linear_algebra.rs`:

    * `cholesky`  ↔ `cholesky_decomposition_less_generic`  (linear_algebra.rs:1048-1101)
    * `ldlt`      ↔ `ldlt_decomposition_less_generic`      (linear_algebra.rs:1239-1312)
    * `householder` ↔ `householder_matrix_tensor`          (linear_algebra.rs:1343-1386)
    * `qr`        ↔ `qr_decomposition_less_generic`        (linear_algebra.rs:1486-1550)
                    with the repair of fixes/I-09-qr-1x1.patch (`q.unwrap()` → identity when no
                    reflection was made); `qrAsWritten` keeps the unrepaired control flow.

  The matrix (`cholesky_decomposition`, …) and tensor (`…_tensor`) entry points both reduce to
  these `_less_generic` functions on a 2-dimensional row-major view; names are carried by the
  driver, not by the arithmetic.

  The loops are folds over `List.range` (`foldRange`, and `forRange` in the `Option` monad for
  the loops the Rust code leaves early with `return None`).  The mutable result tensors are a
  `Matrix α` (flat row-major list) written with `set`.  Everything is polymorphic over the
  numeric classes of `Model/Fp.lean`; the driver runs it at `Fp` and `Rat`, the theorems of
  `Props/C08.lean` instantiate it at ℝ / ordered fields.  Core Lean only.
-/
import EasyMl.Model.Matrix
import EasyMl.Model.Fp

namespace EasyMl.Decomp

/-! ### loops -/

/-- `for i in 0..n { s = f i s }` -/
def foldRange {σ : Type} (n : Nat) (f : Nat → σ → σ) (s : σ) : σ :=
  (List.range n).foldl (fun s i => f i s) s

/-- `for i in 0..n { s = f i s? }` where the body may `return None` from the whole function -/
def forRange {σ : Type} (n : Nat) (f : Nat → σ → Option σ) (s : σ) : Option σ :=
  (List.range n).foldlM (fun s i => f i s) s

section
variable {α : Type}

/-! ### row-major element access (`index()/index_mut()` with `get_ref([i, j])`) -/

/-- `tensor.index().get_ref([i, j])` on an in-range index (out of range: the Rust code would
    panic; every index the algorithms below use is in range, see `Lemmas/Decomp.lean`). -/
def get [Zero α] (m : Matrix α) (i j : Nat) : α := m.data.getD (m.getIndex i j) 0

/-- `*tensor.index_mut().get_ref_mut([i, j]) = v` -/
def set (m : Matrix α) (i j : Nat) (v : α) : Matrix α :=
  { m with data := m.data.set (m.getIndex i j) v }

/-- `Tensor::empty(shape, value)` for a 2-dimensional shape -/
def fill (rows columns : Nat) (v : α) : Matrix α := ⟨List.replicate (rows * columns) v, rows, columns⟩

/-- a tensor produced entry by entry in row-major order (`map`, `from_fn`, the
    `iter_reference_mut().with_index()` loops) -/
def ofFn (rows columns : Nat) (f : Nat → Nat → α) : Matrix α :=
  ⟨(List.range (rows * columns)).map fun k => f (k / columns) (k % columns), rows, columns⟩

end

section
variable {α : Type} [Add α] [Sub α] [Mul α] [Div α] [Neg α] [Zero α] [One α]

/-! ### Cholesky -/

/-- `let mut sum = zero; for k in 0..j { sum = &sum + L[i,k] * L[j,k] }` -/
def cholSum (L : Matrix α) (i j : Nat) : α :=
  foldRange j (fun k sum => sum + get L i k * get L j k) 0

/-- the body of the `for j in 0..=i` loop: computes and stores `L[i,j]` -/
def cholEntry [RealFns α] [NumOrd α] (A L : Matrix α) (i j : Nat) : Option (Matrix α) :=
  let sum := cholSum L i j
  if i = j then
    let entrySquared := get A i j - sum
    if NumOrd.le entrySquared 0 then none
    else some (set L i j (RealFns.sqrt entrySquared))
  else
    some (set L i j ((get A i j - sum) * (1 / get L j j)))

def cholRow [RealFns α] [NumOrd α] (A : Matrix α) (i : Nat) (L : Matrix α) : Option (Matrix α) :=
  forRange (i + 1) (fun j L => cholEntry A L i j) L

/-- `cholesky_decomposition_less_generic`: `none` for a non-square input and on the first
    non-positive pivot. -/
def cholesky [RealFns α] [NumOrd α] (A : Matrix α) : Option (Matrix α) :=
  if A.rows ≠ A.columns then none
  else forRange A.rows (fun i L => cholRow A i L) (fill A.rows A.columns 0)

/-! ### LDLᵀ -/

/-- `for k in 0..j { sum = &sum + L[i,k] * L[j,k] * D[k,k] }` -/
def ldltSum (L D : Matrix α) (i j : Nat) : α :=
  foldRange j (fun k sum => sum + get L i k * get L j k * get D k k) 0

/-- the body of the `for i in j..n` loop (`t = i - j`) -/
def ldltEntry (A D : Matrix α) (j t : Nat) (L : Matrix α) : Matrix α :=
  let i := j + t
  let x := if i = j then 1 else (get A i j - ldltSum L D i j) * (1 / get D j j)
  set L i j x

/-- the body of the `for j in 0..n` loop; the state is `(L, D)` -/
def ldltColumn [NumOrd α] (A : Matrix α) (n j : Nat) (s : Matrix α × Matrix α) :
    Option (Matrix α × Matrix α) :=
  let (L, D) := s
  let entry := get A j j - ldltSum L D j j
  if NumOrd.eq entry 0 then none
  else
    let D := set D j j entry
    some (foldRange (n - j) (fun t L => ldltEntry A D j t L) L, D)

/-- `ldlt_decomposition_less_generic`: `none` for a non-square input and on the first zero
    pivot; otherwise `(L, D)`. -/
def ldlt [NumOrd α] (A : Matrix α) : Option (Matrix α × Matrix α) :=
  if A.rows ≠ A.columns then none
  else forRange A.rows (fun j s => ldltColumn A A.rows j s)
      (fill A.rows A.columns 0, fill A.rows A.columns 0)

/-! ### matrix helpers used by QR -/

/-- `Tensor::diagonal(shape, one)` -/
def identity (n : Nat) : Matrix α := ofFn n n fun i j => if i = j then 1 else 0

/-- `scalar_product`: `zip`, `map(x * y)`, `reduce(x + y)` (never called on empty vectors) -/
def dot (xs ys : List α) : α :=
  match List.zipWith (· * ·) xs ys with
  | [] => 0
  | p :: ps => ps.foldl (· + ·) p

def row (m : Matrix α) (i : Nat) : List α := (List.range m.columns).map fun k => get m i k
def col (m : Matrix α) (j : Nat) : List α := (List.range m.rows).map fun k => get m k j

/-- `tensor_view_matrix_product`: entry `[i,j]` is the scalar product of row `i` of the left
    and column `j` of the right operand -/
def matMul (l r : Matrix α) : Matrix α :=
  ofFn l.rows r.columns fun i j => dot (row l i) (col r j)

/-! ### Householder reflection and QR -/

/-- `direct_iter_reference().map(|x| x * x).sum()` (`Sum` starts from zero) -/
def sumSq (x : List α) : α := (x.map fun a => a * a).foldl (· + ·) 0

/-- `Tensor::euclidean_length` -/
def euclideanLength [RealFns α] (x : List α) : α := RealFns.sqrt (sumSq x)

/-- the vector `u = x + a·e₀` of `householder_matrix_tensor` with the sign choice -/
def householderU [RealFns α] [NumOrd α] (x : List α) : List α :=
  let length := euclideanLength x
  let sign := x.headD 0
  let a := if NumOrd.lt 0 sign then length else -length
  x.set 0 (x.headD 0 + a)

/-- `v = u / ‖u‖` -/
def householderV [RealFns α] [NumOrd α] (x : List α) : List α :=
  let u := householderU x
  let length := euclideanLength u
  u.map fun element => element / length

/-- `householder_matrix_tensor`: `identity - ((v_column * v_row) * two)` -/
def householder [RealFns α] [NumOrd α] (x : List α) : Matrix α :=
  let v := householderV x
  let rows := x.length
  let two : α := 1 + 1
  let vColumn : Matrix α := ⟨v, rows, 1⟩
  let vRow : Matrix α := ⟨v, 1, rows⟩
  let vv := matMul vColumn vRow
  ofFn rows rows fun i j => get (identity rows : Matrix α) i j - get vv i j * two

/-- the householder matrix of the trailing part of column `c`, padded into the bottom right of
    an identity matrix -/
def reflection [RealFns α] [NumOrd α] (rows c : Nat) (r : Matrix α) : Matrix α :=
  let firstColumn := (List.range (rows - c)).map fun t => get r (c + t) c
  let h := householder firstColumn
  ofFn rows rows fun i j =>
    if i ≥ c ∧ j ≥ c then get h (i - c) (j - c) else get (identity rows : Matrix α) i j

/-- one iteration of the `for c in 0..iterations` loop; the state is `(q, r)` -/
def qrStep [RealFns α] [NumOrd α] (rows c : Nat) (s : Option (Matrix α) × Matrix α) :
    Option (Matrix α) × Matrix α :=
  let (q, r) := s
  let h := reflection rows c r
  let r := matMul h r
  match q with
  | none => (some h, r)
  | some hPrevious => (some (matMul hPrevious h), r)

def qrLoop [RealFns α] [NumOrd α] (A : Matrix α) : Option (Matrix α) × Matrix α :=
  let iterations := min (A.rows - 1) A.columns
  foldRange iterations (fun c s => qrStep A.rows c s) (none, ofFn A.rows A.columns (get A))

/-- `qr_decomposition_less_generic` with the repair of defect I-09: when no reflection was made
    (a 1×1 input) `Q` is the identity.  Result `(Q, R)`; `none` ⇔ more columns than rows. -/
def qr [RealFns α] [NumOrd α] (A : Matrix α) : Option (Matrix α × Matrix α) :=
  if A.columns > A.rows then none
  else
    let (q, r) := qrLoop A
    some (q.getD (identity A.rows), r)

/-- The control flow of the pinned (unrepaired) code: `q.unwrap()` panics when the loop made no
    iteration. -/
def qrAsWritten [RealFns α] [NumOrd α] (A : Matrix α) : Outcome (Option (Matrix α × Matrix α)) :=
  if A.columns > A.rows then .ok none
  else
    let (q, r) := qrLoop A
    match q with
    | none => .panic .unwrap
    | some q => .ok (some (q, r))

end
end EasyMl.Decomp
