/-
  EasyMl.Model.Gaussian — code-shaped model of `src/distributions.rs`:

    * `probability`          ↔ `Gaussian::probability`   (distributions.rs:177-185) with the repair
                               of fixes/I-10-gaussian-density.patch (the deviation is divided by
                               the standard deviation inside the square);
      `probabilityAsWritten` keeps the pinned formula, which divides by the *variance*.
    * `draw`                 ↔ `Gaussian::draw` / `generate_pair`   (distributions.rs:205-244)
    * `drawTensorSamples`    ↔ `draw_tensor_samples`     (distributions.rs:485-545), which both
                               `MultivariateGaussian::draw` (names "samples"/"features") and
                               `MultivariateGaussianTensor::draw` call
    * `approximating`        ↔ `Gaussian::approximating` (distributions.rs:150-161), on the C14 models
                               of `mean` / `variance`
    * `mvNewMatrix`, `mvNewTensor` ↔ the constructors' validation (distributions.rs:284-296, 433-455)

  The uniform source (`&mut impl Iterator<Item = T>`) is a list; every function returns the
  unconsumed rest of the list next to its result so that the exact consumption is observable.
  Polymorphic over the numeric classes of `Model/Fp.lean`.  Core Lean only.
-/
import EasyMl.Model.Decomp
import EasyMl.Model.Stats

namespace EasyMl.Gaussian
open EasyMl.Decomp

section
variable {α : Type} [Add α] [Sub α] [Mul α] [Div α] [Neg α] [Zero α] [One α] [RealFns α]

/-! ### density -/

/-- `Gaussian::probability` after the repair of defect I-10. -/
def probability (mean variance x : α) : α :=
  let standardDeviation := RealFns.sqrt variance
  let two : α := 1 + 1
  let twoPi := two * RealFns.pi
  let fraction := 1 / (standardDeviation * RealFns.sqrt twoPi)
  let exponent := (-1 / two) * RealFns.pow ((x - mean) / standardDeviation) two
  fraction * RealFns.exp exponent

/-- `Gaussian::probability` as written at the pinned commit: `((x − μ) / variance)²`. -/
def probabilityAsWritten (mean variance x : α) : α :=
  let standardDeviation := RealFns.sqrt variance
  let two : α := 1 + 1
  let twoPi := two * RealFns.pi
  let fraction := 1 / (standardDeviation * RealFns.sqrt twoPi)
  let exponent := (-1 / two) * RealFns.pow ((x - mean) / variance) two
  fraction * RealFns.exp exponent

/-! ### Box–Muller draws -/

/-- the two samples made from one pair `(u, v)` of source numbers -/
def samplePair (mean standardDeviation u v : α) : α × α :=
  let two : α := 1 + 1
  let minusTwo := -two
  let twoPi := two * RealFns.pi
  let z1 := RealFns.sqrt (minusTwo * RealFns.ln u) * RealFns.cos (twoPi * v)
  let z2 := RealFns.sqrt (minusTwo * RealFns.ln u) * RealFns.sin (twoPi * v)
  (z1 * standardDeviation + mean, z2 * standardDeviation + mean)

/-- `while samples.len() < max_samples { let (u, v) = self.generate_pair(source)?; … }`.
    `fuel` bounds the iterations (`max_samples` always suffices: every iteration adds two).
    `generate_pair` is `Some((source.next()?, source.next()?))`: a lone last number is consumed
    before the draw fails. -/
def drawLoop (mean standardDeviation : α) (maxSamples : Nat) :
    Nat → List α → List α → Option (List α) × List α
  | 0, source, samples => (some samples, source)
  | fuel + 1, source, samples =>
    if samples.length < maxSamples then
      match source with
      | u :: v :: rest =>
        let (s1, s2) := samplePair mean standardDeviation u v
        drawLoop mean standardDeviation maxSamples fuel rest (samples ++ [s1, s2])
      | [_] => (none, [])
      | [] => (none, [])
    else (some samples, source)

/-- `Gaussian::draw`: the samples (or `none` when the source ran dry) and the rest of the source -/
def draw (mean variance : α) (source : List α) (maxSamples : Nat) : Option (List α) × List α :=
  let standardDeviation := RealFns.sqrt variance
  match drawLoop mean standardDeviation maxSamples maxSamples source [] with
  | (none, rest) => (none, rest)
  | (some samples, rest) =>
    if samples.length > maxSamples then (some samples.dropLast, rest) else (some samples, rest)

/-! ### multivariate draws -/

/-- `&column_vector_mean + (&lower_triangular * standard_normals)`: an N×1 tensor, row-major -/
def randomVector (mean : List α) (L : Matrix α) (z : List α) : List α :=
  let zColumn : Matrix α := ⟨z, z.length, 1⟩
  let product := matMul L zColumn
  (List.range mean.length).map fun i => mean.getD i 0 + get product i 0

/-- the `for _sample_row in 0..number_of_samples` loop: the drawn values so far (row-major) and
    the source -/
def mvRows (mean : List α) (L : Matrix α) :
    Nat → List α → List α → Option (List α) × List α
  | 0, source, drawn => (some drawn, source)
  | rowsLeft + 1, source, drawn =>
    match draw (0 : α) (1 : α) source mean.length with
    | (none, rest) => (none, rest)
    | (some standardNormals, rest) =>
      mvRows mean L rowsLeft rest (drawn ++ randomVector mean L standardNormals)

/-- `draw_tensor_samples`.  `sameNames`: the two requested dimension names are equal.  A request
    for zero samples reaches `Tensor::empty` with a zero length, which panics (tensors have at
    least one element). -/
def drawTensorSamples [NumOrd α] (mean : List α) (covariance : Matrix α) (source : List α)
    (maxSamples : Nat) (sameNames : Bool) : Outcome (Option (Matrix α)) × List α :=
  if sameNames then (.ok none, source)
  else
    match cholesky covariance with
    | none => (.ok none, source)
    | some L =>
      if maxSamples = 0 then (.panic .explicit, source)
      else
        match mvRows mean L maxSamples source [] with
        | (none, rest) => (.ok none, rest)
        | (some drawn, rest) => (.ok (some ⟨drawn, maxSamples, mean.length⟩), rest)

/-- `MultivariateGaussian::draw` (matrix variant): the dimension names are the constants
    `"samples"` and `"features"` -/
def mvDrawMatrix [NumOrd α] (mean : List α) (covariance : Matrix α) (source : List α)
    (maxSamples : Nat) : Outcome (Option (Matrix α)) × List α :=
  drawTensorSamples mean covariance source maxSamples ("samples" == "features")

/-- `MultivariateGaussianTensor::draw`: the caller chooses the two dimension names -/
def mvDrawTensor [NumOrd α] (mean : List α) (covariance : Matrix α) (source : List α)
    (maxSamples : Nat) (samples features : String) : Outcome (Option (Matrix α)) × List α :=
  drawTensorSamples mean covariance source maxSamples (samples == features)

end

/-! ### the dimension-name checks of a multivariate tensor draw -/

/-- `Tensor::from` / `Tensor::empty` / `rename` / `expand` reject duplicate dimension names -/
def namesUnique {ν : Type} [DecidableEq ν] (names : List ν) : Bool := decide names.Nodup

/-- The name-dependent checks `draw_tensor_samples` passes through, in program order, for a mean
    tensor named `meanName`, a covariance tensor named `(cov0, cov1)` and the requested names
    `(samples, features)`; the result is the pair of names of the drawn tensor.
    1. `samples == features ⇒ None`;
    2. the Cholesky factor is created with the covariance's own shape (`Tensor::empty`), then
       `rename([samples, features])`;
    3. `Tensor::empty([(samples, k), (features, N)])`;
    4. `mean.rename_view([samples])` (one new name: no constraint involving the old name), then
       `expand_owned([(1, features)])`, whose shape is `[samples, features]`;
    5. per row `Tensor::from([(samples, N), (features, 1)], …)`, the matrix product (left row name
       `samples` must differ from right column name `features`, result `[samples, features]`) and the
       addition with the mean's column view (identical shapes).
    The mean's own name takes part in no check. -/
def mvNameChecks {ν : Type} [DecidableEq ν] (meanName cov0 cov1 samples features : ν) :
    Outcome (Option (List ν)) :=
  let _ := meanName
  if samples = features then .ok none
  else if !namesUnique [cov0, cov1] then .panic .explicit
  else if !namesUnique [samples, features] then .panic .explicit            -- rename of L
  else if !namesUnique [samples, features] then .panic .explicit            -- Tensor::empty
  else if !namesUnique [samples] then .panic .explicit                      -- rename_view
  else if !namesUnique [samples, features] then .panic .explicit            -- expand_owned
  else if !namesUnique [samples, features] then .panic .explicit            -- Tensor::from
  else if samples = features then .panic .explicit                          -- product
  else if [samples, features] ≠ [samples, features] then .panic .explicit   -- addition
  else .ok (some [samples, features])

/-! ### fitting a Gaussian to data -/

/-- `Gaussian::approximating` (distributions.rs:150-161): the struct fields are evaluated in
    order — `linear_algebra::mean` of the data (which asserts that there is data), then
    `linear_algebra::variance`.  Result `(mean, variance)`. -/
def approximating {α : Type} [Add α] [Sub α] [Mul α] [Div α] [Zero α] [One α] (data : List α) :
    Outcome (α × α) :=
  match Stats.mean data with
  | .panic k => .panic k
  | .ok m =>
    match Stats.variance data with
    | .panic k => .panic k
    | .ok v => .ok (m, v)

/-! ### constructor validation -/

/-- `MultivariateGaussian::new`: the three assertions -/
def mvNewMatrix (meanRows meanColumns covRows covColumns : Nat) : Outcome Unit :=
  if meanColumns ≠ 1 then .panic .explicit
  else if covRows ≠ covColumns then .panic .explicit
  else if meanRows ≠ covRows then .panic .explicit
  else .ok ()

inductive MvError where
  | notCovarianceMatrix
  | meanVectorWrongLength
  deriving DecidableEq, Repr

/-- `MultivariateGaussianTensor::new` -/
def mvNewTensor (meanLength covRows covColumns : Nat) : Except MvError Unit :=
  if covRows ≠ covColumns then .error .notCovarianceMatrix
  else if meanLength ≠ covRows then .error .meanVectorWrongLength
  else .ok ()

end EasyMl.Gaussian
