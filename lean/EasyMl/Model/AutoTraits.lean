/-
  EasyMl.Model.AutoTraits — a model of rustc's auto-trait inference for `Send` and `Sync`.

  Types are terms; a struct/enum definition (`Adt`) is the list of its field types over its
  type parameters; `holds` decides `τ : Send` / `τ : Sync` with the standard rules:

    * primitives, `&'static str`, `fn(..) -> ..` pointers: both;
    * `&τ : Send ⇔ τ : Sync`, `&τ : Sync ⇔ τ : Sync`;
      `&mut τ : Send ⇔ τ : Send`, `&mut τ : Sync ⇔ τ : Sync`;
    * `Vec/Option/Box/[τ; N]/[τ]/Range/PhantomData/tuples`: componentwise;
    * `RefCell<τ>/Cell<τ> : Send ⇔ τ : Send`, never `Sync`;
    * raw pointers and `Rc`: neither; `Arc<τ>`: both iff `τ : Send + Sync`;
      `Mutex<τ> : Send ⇔ τ : Send`, `Mutex<τ> : Sync ⇔ τ : Send`;
    * `dyn Trait + …` has exactly the auto traits it lists;
    * a struct/enum has the trait iff all its field types do (with the type arguments
      substituted), unless it carries an explicit `unsafe impl`, whose bounds then decide;
      cycles through recursive types are coinductive (assumed to hold).

  Lifetimes and const generics play no role for auto traits and are erased.  `leaf s y` stands
  for an arbitrary type about which only `Send = s`, `Sync = y` is known: theorems quantify over
  the flags of the element / source parameters through it.

  Evaluation is fuelled; `none` means "out of fuel", so neither a positive nor a negative verdict
  can be an artefact of truncation.  Core Lean only.
-/
namespace EasyMl.Auto

inductive Trait where
  | send | sync
  deriving DecidableEq, Repr, Inhabited

inductive Ty where
  | param (i : Nat)                     -- i-th type parameter of the enclosing definition
  | leaf (send sync : Bool)             -- opaque type with known auto traits
  | prim                                -- usize, bool, f64, char, str, (), …
  | ref (t : Ty)
  | mutRef (t : Ty)
  | slice (t : Ty)
  | array (t : Ty)
  | vec (t : Ty)
  | option (t : Ty)
  | box (t : Ty)
  | range (t : Ty)
  | phantom (t : Ty)
  | refCell (t : Ty)
  | cell (t : Ty)
  | rawPtr (t : Ty)
  | rc (t : Ty)
  | arc (t : Ty)
  | mutex (t : Ty)
  | fnPtr
  | dyn (send sync : Bool)              -- `dyn Trait (+ Send)? (+ Sync)?`
  | tuple (ts : List Ty)
  | adt (id : Nat) (args : List Ty)     -- struct/enum number `id` of the table
  | unknown                             -- a type the translator could not express
  deriving Repr, Inhabited

/-- an explicit `unsafe impl<…> Tr for Adt<…>`: it holds iff each listed parameter has the
    listed trait -/
structure ExplicitImpl where
  tr : Trait
  requires : List (Nat × Trait)
  deriving Repr, Inhabited

structure Adt where
  name : String
  nparams : Nat
  fields : List Ty
  explicit : List ExplicitImpl := []
  deriving Repr, Inhabited

abbrev Env := List Adt

/-- known flags of a type argument -/
abbrev Flags := Bool × Bool

def Flags.get (f : Flags) : Trait → Bool
  | .send => f.1
  | .sync => f.2

def allSome : List (Option Bool) → Option Bool
  | [] => some true
  | none :: _ => none
  | some b :: rest => (allSome rest).map (b && ·)

/-- `holds fuel env params visited tr τ`: does `τ : tr` hold, where `params` gives the flags of
    the enclosing definition's type parameters and `visited` the struct instances being
    expanded (coinduction)?  `none` = out of fuel / unknown type. -/
def holds : Nat → Env → List Flags → List (Nat × List Flags) → Trait → Ty → Option Bool
  | 0, _, _, _, _, _ => none
  | fuel + 1, env, ps, vis, tr, ty =>
    let go := holds fuel env ps vis
    match ty with
    | .param i => (ps[i]?).map (·.get tr)
    | .leaf s y => some (Flags.get (s, y) tr)
    | .prim => some true
    | .fnPtr => some true
    | .ref t => go .sync t
    | .mutRef t => go tr t
    | .slice t | .array t | .vec t | .option t | .box t | .range t | .phantom t => go tr t
    | .refCell t | .cell t =>
      match tr with
      | .send => go .send t
      | .sync => (go .send t).map fun _ => false
    | .rawPtr _ | .rc _ => some false
    | .arc t => allSome [go .send t, go .sync t]
    | .mutex t => go .send t
    | .dyn s y => some (Flags.get (s, y) tr)
    | .tuple ts => allSome (ts.map (go tr))
    | .unknown => none
    | .adt id args =>
      match env[id]? with
      | none => none
      | some d =>
        -- flags of the arguments, in the current context
        let fl := args.map fun a => (go .send a, go .sync a)
        if fl.any (fun p => p.1.isNone || p.2.isNone) || args.length ≠ d.nparams then none
        else
          let flags : List Flags := fl.map fun p => (p.1.getD false, p.2.getD false)
          match d.explicit.find? (·.tr == tr) with
          | some imp =>
            some (imp.requires.all fun (i, r) => ((flags[i]?).map (·.get r)).getD false)
          | none =>
            if vis.any (fun v => v.1 == id && v.2 == flags) then some true
            else
              allSome (d.fields.map (holds fuel env flags ((id, flags) :: vis) tr))

/-- fuel used by the driver and the theorems (struct nesting in the crate is < 10 deep) -/
def defaultFuel : Nat := 40

def isSend (env : Env) (ty : Ty) : Option Bool := holds defaultFuel env [] [] .send ty
def isSync (env : Env) (ty : Ty) : Option Bool := holds defaultFuel env [] [] .sync ty

/-- index of a definition by name -/
def Env.idOf (env : Env) (name : String) : Option Nat :=
  let rec go (l : List Adt) (i : Nat) : Option Nat :=
    match l with
    | [] => none
    | d :: rest => if d.name == name then some i else go rest (i + 1)
  go env 0

/-! ### which types hold a shared reference to a given struct

`holdsRefTo target` is a purely syntactic reachability predicate over the struct table: the type
contains — by value, through std containers, references, tuples or the fields of other table
structs, but *not* through one of its own type parameters — a shared reference `&target<…>`.
Property C20 uses it with `target = WengertList`: everything that carries a tape reference. -/

def holdsRefTo (target : Nat) : Nat → Env → Ty → Bool
  | 0, _, _ => false
  | fuel + 1, env, ty =>
    let go := holdsRefTo target fuel env
    match ty with
    | .ref (.adt id args) => id == target || go (.adt id args)
    | .ref t | .mutRef t | .slice t | .array t | .vec t | .option t | .box t | .range t
    | .refCell t | .cell t | .arc t | .mutex t => go t
    | .tuple ts => ts.any go
    | .adt id _ =>
      match env[id]? with
      | some d => d.fields.any go
      | none => false
    | _ => false

/-- the table struct number `id` holds a reference to `target` in one of its fields -/
def structHoldsRefTo (env : Env) (target id : Nat) : Bool :=
  match env[id]? with
  | some d => d.fields.any (holdsRefTo target defaultFuel env)
  | none => false

/-- all assignments of `Send`/`Sync` flags to `n` type parameters -/
def allFlags : Nat → List (List Flags)
  | 0 => [[]]
  | n + 1 => (allFlags n).flatMap fun fl =>
      [(true, true) :: fl, (true, false) :: fl, (false, true) :: fl, (false, false) :: fl]

/-- `id` applied to opaque arguments with the given flags -/
def instantiate (id : Nat) (fl : List Flags) : Ty := .adt id (fl.map fun f => .leaf f.1 f.2)

/-- pointwise order on flag assignments (`false ≤ true`) -/
def Flags.le (a b : Flags) : Bool := (!a.1 || b.1) && (!a.2 || b.2)

def flagsLe : List Flags → List Flags → Bool
  | [], [] => true
  | a :: as, b :: bs => a.le b && flagsLe as bs
  | _, _ => false

/-- the assignments obtained from `fl` by raising exactly one `false` flag of one parameter to `true` -/
def raiseOne : List Flags → List (List Flags)
  | [] => []
  | (a, b) :: rest =>
    (if a then [] else [(true, b) :: rest]) ++ (if b then [] else [(a, true) :: rest]) ++
      (raiseOne rest).map fun r => (a, b) :: r

/-- `some false ≤ some true`; an undecided verdict is below / above nothing -/
def verdictLe : Option Bool → Option Bool → Bool
  | some a, some b => !a || b
  | _, _ => false

/-! ### which structs carry a lifetime

The generated table erases lifetimes, but a struct has a lifetime parameter exactly when a
non-`'static` borrow occurs in it: a `&τ` / `&mut τ` field (other than `&'static str`, which the
translator renders as `.ref .prim`), possibly inside containers or tuples, or a field whose type is
another lifetime-carrying struct of the table. -/

def mentionsLifetime : Nat → Env → Ty → Bool
  | 0, _, _ => false
  | fuel + 1, env, ty =>
    let go := mentionsLifetime fuel env
    match ty with
    | .ref .prim => false
    | .ref _ | .mutRef _ => true
    | .slice t | .array t | .vec t | .option t | .box t | .range t | .phantom t
    | .refCell t | .cell t | .arc t | .mutex t | .rc t | .rawPtr t => go t
    | .tuple ts => ts.any go
    | .adt id args =>
      args.any go ||
        (match env[id]? with
         | some d => d.fields.any go
         | none => false)
    | _ => false

/-- struct nesting through which a borrow is looked for (the search branches over all fields, so
    this is kept small; the crate nests at most 3 deep: `MatrixQuadrants → MatrixView → MatrixPart`) -/
def lifetimeFuel : Nat := 7

/-- the table struct number `id` has a lifetime parameter -/
def structCarriesLifetime (env : Env) (id : Nat) : Bool :=
  match env[id]? with
  | some d => d.fields.any (mentionsLifetime lifetimeFuel env)
  | none => false

end EasyMl.Auto
