/-
  EasyMl.Model.Fallible — code-shaped model of the fallible (`Option`/`Result`) entry points of
  easy-ml on the tensor side, with every `usize` operation the Rust code performs unchecked made
  explicit through `cadd / csub / cmul` (so an overflow shows up as `.panic .overflow`), every
  slice/array index through `idxC` (`.panic .index`) and every `unwrap` through `unwrapC`
  (`.panic .unwrap`).  (The matrix side is in `Model/MatrixView.lean`.)

  Where the pinned code has a genuine defect (DESIGN §8 #4–#8) there are two definitions: the
  code as it is at the pinned commit (suffix `Pre`, or the instance `Arith.pre`) and the code
  after the minimal repair in `fixes/D-*.patch` (no suffix, the instance `Arith.fixed`).  The
  totality theorems of Props/C16 are about the repaired code; for the pinned code there are
  `decide`-proved witnesses that it panics.  The driver executes the repaired model.

  Result conventions:  `Outcome (Option α)` for an `Option`-returning API, `Outcome (Except ε α)`
  for a `Result`-returning one.  Core Lean only.
-/
import EasyMl.Model.Tensor

namespace EasyMl.Fallible

variable {ν : Type} [DecidableEq ν]

/-! ### small helpers standing for Rust primitives that can panic -/

/-- `slice[i]` -/
def idxC {α : Type} (l : List α) (i : Nat) : Outcome α :=
  match l[i]? with
  | some a => .ok a
  | none => .panic .index

/-- `slice[i] = v` -/
def setC {α : Type} (l : List α) (i : Nat) (v : α) : Outcome (List α) :=
  if i < l.length then .ok (l.set i v) else .panic .index

/-- `Option::unwrap` -/
def unwrapC {α : Type} : Option α → Outcome α
  | some a => .ok a
  | none => .panic .unwrap

/-! ### `IndexRange` (src/matrices/views/ranges.rs:120-165) -/

structure IndexRange where
  start : Nat
  length : Nat
  deriving DecidableEq, Repr, Inhabited

namespace IndexRange

/-- `IndexRange::map`: `if index < self.length { Some(index + self.start) } else { None }` -/
def map (r : IndexRange) (index : Nat) : Outcome (Option Nat) :=
  if index < r.length then
    match cadd index r.start with
    | .ok s => .ok (some s)
    | .panic k => .panic k
  else .ok none

/-- `IndexRange::mask`: `if index < self.start { index } else { index + self.length }` -/
def mask (r : IndexRange) (index : Nat) : Outcome Nat :=
  if index < r.start then .ok index else cadd index r.length

/-- repaired (fix D-05): `IndexRange::try_mask`, `index.checked_add(self.length)` -/
def tryMask (r : IndexRange) (index : Nat) : Option Nat :=
  if index < r.start then some index
  else if index + r.length ≤ usizeMax then some (index + r.length) else none

/-- `IndexRange::clip` at the pinned commit:
    `let end = self.start + self.length; let end = min(end, max); self.length = end.saturating_sub(self.start)` -/
def clipPre (r : IndexRange) (maxIndex : Nat) : Outcome IndexRange :=
  match cadd r.start r.length with
  | .ok e => .ok { r with length := min e maxIndex - r.start }
  | .panic k => .panic k

/-- repaired (fix D-06): `let end = self.start.saturating_add(self.length)`, rest unchanged -/
def clip (r : IndexRange) (maxIndex : Nat) : IndexRange :=
  { r with length := min (min (r.start + r.length) usizeMax) maxIndex - r.start }

/-- `From<IndexRange> for Range<usize>` as written: `start .. start + length` (unchecked sum:
    the dev profile panics when it exceeds `usize::MAX`) -/
def toStdRangePre (r : IndexRange) : Outcome (Nat × Nat) :=
  match cadd r.start r.length with
  | .ok e => .ok (r.start, e)
  | .panic k => .panic k

/-- `From<Range<usize>> for IndexRange`: `IndexRange::new(start, end.saturating_sub(start))` -/
def ofStdRange (start stop : Nat) : IndexRange := ⟨start, stop - start⟩

end IndexRange

/-- The few places where the pinned code and the repaired code differ are collected in this
    record, so that every constructor/getter below is written once. -/
structure Arith where
  /-- `IndexRange::clip` -/
  clip : IndexRange → Nat → Outcome IndexRange
  /-- one step of `range_exceeds_bounds`: is `start + length > end`? -/
  exceeds : IndexRange → Nat → Outcome Bool
  /-- index mapping of the *checked* getters of `TensorMask` for one dimension -/
  maskChecked : IndexRange → Nat → Outcome (Option Nat)
  /-- index mapping of the *checked* getters of `TensorReverse`/`MatrixReverse` for one
      reversed dimension of length `length` -/
  reverseChecked : (length index : Nat) → Outcome (Option Nat)
  /-- `dimensions::elements` as used by `validate_dimensions` (`None` = product not representable) -/
  elementsChecked : List Nat → Outcome (Option Nat)
  /-- `size.0 * size.1` of `RecordMatrix::from_iter` -/
  mulChecked : Nat → Nat → Outcome (Option Nat)

/-- `Iterator::product` over `usize` with overflow checks on (left fold from 1). -/
def prodC : List Nat → Nat → Outcome Nat
  | [], acc => .ok acc
  | x :: xs, acc =>
    match cmul acc x with
    | .ok a => prodC xs a
    | .panic k => .panic k

/-- repaired (fix D-08): `try_fold(1, |acc, d| acc.checked_mul(d.1))` -/
def checkedProd : List Nat → Nat → Option Nat
  | [], acc => some acc
  | x :: xs, acc => if acc * x ≤ usizeMax then checkedProd xs (acc * x) else none

/-- `reverse_indexes` for one reversed dimension: `(length - 1) - index` -/
def reverseOne (length index : Nat) : Outcome Nat :=
  match csub length 1 with
  | .ok last => csub last index
  | .panic k => .panic k

/-- the code at the pinned commit -/
def Arith.pre : Arith where
  clip := IndexRange.clipPre
  exceeds := fun r e =>
    match cadd r.start r.length with
    | .ok re => .ok (decide (re > e))
    | .panic k => .panic k
  maskChecked := fun r i =>
    match r.mask i with
    | .ok j => .ok (some j)
    | .panic k => .panic k
  reverseChecked := fun l i =>
    match reverseOne l i with
    | .ok j => .ok (some j)
    | .panic k => .panic k
  elementsChecked := fun ls =>
    match prodC ls 1 with
    | .ok p => .ok (some p)
    | .panic k => .panic k
  mulChecked := fun a b =>
    match cmul a b with
    | .ok p => .ok (some p)
    | .panic k => .panic k

/-- the code after fixes D-04 … D-08 -/
def Arith.fixed : Arith where
  clip := fun r m => .ok (r.clip m)
  exceeds := fun r e =>
    -- `match start.checked_add(length) { Some(range_end) => range_end > end, None => true }`
    .ok (if r.start + r.length ≤ usizeMax then decide (r.start + r.length > e) else true)
  maskChecked := fun r i => .ok (r.tryMask i)
  reverseChecked := fun l i =>
    -- `if index >= length { return None }; (length - 1) - index`
    if i ≥ l then .ok none else
      match reverseOne l i with
      | .ok j => .ok (some j)
      | .panic k => .panic k
  elementsChecked := fun ls => .ok (checkedProd ls 1)
  mulChecked := fun a b => .ok (if a * b ≤ usizeMax then some (a * b) else none)

/-! ### shapes: `InvalidShapeError::is_valid`, `validate_dimensions`, `Tensor::try_from` -/

/-- `InvalidShapeError::is_valid` (src/tensors/mod.rs:75-78) -/
def isValidShape (shape : Shape ν) : Bool :=
  !hasDuplicates (shape.map (·.1)) && !shape.any (·.2 == 0)

/-- `compute_strides` with the overflow checks of the dev profile:
    `from_fn(|d| shape.iter().skip(d + 1).map(|d| d.1).product())` -/
def computeStridesC : Shape ν → Outcome (List Nat)
  | [] => .ok []
  | _ :: rest =>
    match prodC (rest.map (·.2)) 1 with
    | .ok s =>
      match computeStridesC rest with
      | .ok ss => .ok (s :: ss)
      | .panic k => .panic k
    | .panic k => .panic k

/-- What the model keeps of a `Tensor<u64, D>` whose data are the ids `0..dataLen`. -/
structure TensorMeta (ν : Type) where
  dataLen : Nat
  shape : Shape ν
  strides : List Nat
  deriving Repr

/-- `InvalidShapeError::validate_dimensions` followed by the rest of `Tensor::try_from`
    (src/tensors/mod.rs:115-122, 387-401).  `Err` carries the requested shape. -/
def tensorTryFrom (A : Arith) (shape : Shape ν) (dataLen : Nat) :
    Outcome (Except (Shape ν) (TensorMeta ν)) :=
  match A.elementsChecked (shape.map (·.2)) with
  | .panic k => .panic k
  | .ok elems =>
    if elems = some dataLen ∧ isValidShape shape then
      match computeStridesC shape with
      | .ok strides => .ok (.ok { dataLen := dataLen, shape := shape, strides := strides })
      | .panic k => .panic k
    else .ok (.error shape)

/-! ### views as (shape, checked getter) pairs

  A `TensorRef` implementation is modelled by its `view_shape` and its checked getter
  `get_reference`, which answers with the id stored in the addressed cell (the leaf tensors hold
  the ids `0..n`, i.e. the flat offset).  Adaptors are functions from views to views, so
  compositions of any depth are terms of the model. -/

structure TView (ν : Type) where
  shape : Shape ν
  get : List Nat → Outcome (Option Nat)

/-- `get_index_direct` (src/tensors/mod.rs:578-597) with the dev profile's overflow checks. -/
def getIndexDirectC : List Nat → List Nat → List Nat → Nat → Outcome (Option Nat)
  | n :: is, s :: ss, l :: ls, acc =>
    if n ≥ l then .ok none
    else
      match cmul n s with
      | .ok p =>
        match cadd acc p with
        | .ok a => getIndexDirectC is ss ls a
        | .panic k => .panic k
      | .panic k => .panic k
  | _, _, _, acc => .ok (some acc)

/-- `TensorRef::get_reference for Tensor`: `get_index_direct(..)?` then `self.data.get(i)` -/
def TensorMeta.get (t : TensorMeta ν) (indexes : List Nat) : Outcome (Option Nat) :=
  match getIndexDirectC indexes t.strides (t.shape.map (·.2)) 0 with
  | .ok (some i) => .ok (if i < t.dataLen then some i else none)
  | .ok none => .ok none
  | .panic k => .panic k

def TView.ofTensor (t : TensorMeta ν) : TView ν := ⟨t.shape, t.get⟩

/-! ### `TensorAccess::try_from`, `TensorTranspose::try_from` (src/tensors/indexing.rs) -/

/-- `map_dimensions_to_source`: `from_fn(|d| indexes[source_to_requested[d]])` with the slice
    index check explicit. -/
def mapDimensionsToSourceC (table : List Nat) (indexes : List Nat) : Outcome (List Nat) :=
  match table with
  | [] => .ok []
  | k :: ks =>
    match idxC indexes k with
    | .ok v =>
      match mapDimensionsToSourceC ks indexes with
      | .ok vs => .ok (v :: vs)
      | .panic e => .panic e
    | .panic e => .panic e

/-- `map_shape_to_requested`: `from_fn(|d| source[requested_to_source[d]])` -/
def mapShapeToRequestedC (table : List Nat) (source : Shape ν) : Outcome (Shape ν) :=
  match table with
  | [] => .ok []
  | k :: ks =>
    match idxC source k with
    | .ok v =>
      match mapShapeToRequestedC ks source with
      | .ok vs => .ok (v :: vs)
      | .panic e => .panic e
    | .panic e => .panic e

/-- payload of `indexing::InvalidDimensionsError { actual, requested }` -/
structure AccessError (ν : Type) where
  actual : Shape ν
  requested : List ν
  deriving DecidableEq, Repr

/-- `TensorAccess::try_from(source, dimensions)`; the view is the access with its `shape()` and
    `try_get_reference`. -/
def accessTryFrom (src : TView ν) (dimensions : List ν) :
    Outcome (Except (AccessError ν) (TView ν)) :=
  match DimensionMappings.new src.shape dimensions with
  | none => .ok (.error { actual := src.shape, requested := dimensions })
  | some m =>
    match mapShapeToRequestedC m.requestedToSource src.shape with
    | .panic k => .panic k
    | .ok shape =>
      .ok (.ok
        { shape := shape
          get := fun idx =>
            match mapDimensionsToSourceC m.sourceToRequested idx with
            | .ok mapped => src.get mapped
            | .panic k => .panic k })

/-- `TensorTranspose::try_from`: the same access, but the shape keeps the source's names in
    their order with the lengths of the access shape (`TensorTranspose::shape`). -/
def transposeTryFrom (src : TView ν) (dimensions : List ν) :
    Outcome (Except (AccessError ν) (TView ν)) :=
  match accessTryFrom src dimensions with
  | .panic k => .panic k
  | .ok (.error e) => .ok (.error e)
  | .ok (.ok access) =>
    .ok (.ok { access with
      shape := (src.shape.zip access.shape).map fun (n, o) => (n.1, o.2) })

/-! ### `TensorRange` / `TensorMask` constructors (src/tensors/views/ranges.rs:241-594) -/

inductive RangeError (ν : Type) where
  /-- `IndexRangeValidationError::InvalidShape(InvalidShapeError { shape })` -/
  | invalidShape (shape : Shape ν)
  /-- `IndexRangeValidationError::InvalidDimensions(InvalidDimensionsError { provided, valid })` -/
  | invalidDimensions (provided valid : List ν)
  /-- `StrictIndexRangeValidationError::OutsideShape { shape, index_range }` -/
  | outsideShape (shape : Shape ν) (indexRange : List (Option IndexRange))
  deriving DecidableEq, Repr

/-- `dimensions::position_of` -/
def positionOf (shape : Shape ν) (name : ν) : Option Nat :=
  findPos (fun d => d.1 = name) shape

/-- `dimensions::length_of` (also `Tensor::length_of`, `TensorView::length_of`):
    `shape.iter().find(|(d, _)| *d == dimension).map(|(_, length)| length)` -/
def lengthOf (shape : Shape ν) (name : ν) : Option Nat :=
  (shape.find? fun d => d.1 = name).map (·.2)

/-- `dimensions::last_index_of`: `length_of(..).map(|length| length.saturating_sub(1))` -/
def lastIndexOf (shape : Shape ν) (name : ν) : Option Nat :=
  (lengthOf shape name).map (· - 1)

/-- the loop of `from_named_to_all` that scatters the named ranges -/
def scatterNamed (shape : Shape ν) (provided : List ν) :
    List (ν × IndexRange) → List (Option IndexRange) → Outcome (Except (RangeError ν) (List (Option IndexRange)))
  | [], all => .ok (.ok all)
  | (name, range) :: rest, all =>
    match positionOf shape name with
    | some d =>
      match setC all d (some range) with
      | .ok all' => scatterNamed shape provided rest all'
      | .panic k => .panic k
    | none => .ok (.error (.invalidDimensions provided (shape.map (·.1))))

/-- `from_named_to_all` -/
def fromNamedToAll (shape : Shape ν) (ranges : List (ν × IndexRange)) :
    Outcome (Except (RangeError ν) (List (Option IndexRange))) :=
  let provided := ranges.map (·.1)
  if hasDuplicates provided then
    .ok (.error (.invalidDimensions provided (shape.map (·.1))))
  else scatterNamed shape provided ranges (List.replicate shape.length none)

/-- `clip_range_shape`: clip every range to its dimension, the remaining length is the
    range's length.  Returns the new shape and the clipped ranges. -/
def clipRangeShape (A : Arith) : Shape ν → List IndexRange → Outcome (Shape ν × List IndexRange)
  | (n, l) :: shape, r :: ranges =>
    match A.clip r l with
    | .ok r' =>
      match clipRangeShape A shape ranges with
      | .ok (sh, rs) => .ok ((n, r'.length) :: sh, r' :: rs)
      | .panic k => .panic k
    | .panic k => .panic k
  | _, _ => .ok ([], [])

/-- `clip_masked_shape`: `mask.clip(*length); *length -= mask.length` -/
def clipMaskedShape (A : Arith) : Shape ν → List IndexRange → Outcome (Shape ν × List IndexRange)
  | (n, l) :: shape, r :: ranges =>
    match A.clip r l with
    | .ok r' =>
      match csub l r'.length with
      | .ok l' =>
        match clipMaskedShape A shape ranges with
        | .ok (sh, rs) => .ok ((n, l') :: sh, r' :: rs)
        | .panic k => .panic k
      | .panic k => .panic k
    | .panic k => .panic k
  | _, _ => .ok ([], [])

/-- The loop shared by `map_indexes_by_range`, `map_indexes_by_mask(_checked)` and
    `(try_)reverse_indexes`: map every coordinate with the function of its dimension, `None` as
    soon as one of them is (`mapped[d] = f(i)?`). -/
def mapCoords : List (Nat → Outcome (Option Nat)) → List Nat → Outcome (Option (List Nat))
  | f :: fs, i :: is =>
    match f i with
    | .ok (some j) =>
      match mapCoords fs is with
      | .ok (some js) => .ok (some (j :: js))
      | .ok none => .ok none
      | .panic k => .panic k
    | .ok none => .ok none
    | .panic k => .panic k
  | _, _ => .ok (some [])

/-- `map_indexes_by_range`: `mapped[d] = r.map(i)?` -/
def mapIndexesByRange (ranges : List IndexRange) : List Nat → Outcome (Option (List Nat)) :=
  mapCoords (ranges.map fun r => r.map)

/-- `map_indexes_by_mask` as used by the checked getters (pinned: `r.mask(i)`; repaired:
    `r.try_mask(i)?`) -/
def mapIndexesByMask (A : Arith) (masks : List IndexRange) : List Nat → Outcome (Option (List Nat)) :=
  mapCoords (masks.map fun r => A.maskChecked r)

/-- a `TensorRange` over `src` with (already clipped) ranges -/
def TView.range (src : TView ν) (shape : Shape ν) (ranges : List IndexRange) : TView ν where
  shape := shape
  get := fun idx =>
    match mapIndexesByRange ranges idx with
    | .ok (some mapped) => src.get mapped
    | .ok none => .ok none
    | .panic k => .panic k

/-- a `TensorMask` over `src` with (already clipped) masks -/
def TView.mask (A : Arith) (src : TView ν) (shape : Shape ν) (masks : List IndexRange) : TView ν where
  shape := shape
  get := fun idx =>
    match mapIndexesByMask A masks idx with
    | .ok (some mapped) => src.get mapped
    | .ok none => .ok none
    | .panic k => .panic k

/-- `None` ranges select the whole dimension (`IndexRange::new(0, shape[d].1)`) -/
def defaultRanges : Shape ν → List (Option IndexRange) → List IndexRange
  | (_, l) :: shape, o :: os => o.getD ⟨0, l⟩ :: defaultRanges shape os
  | _, _ => []

/-- `None` masks hide nothing (`IndexRange::new(0, 0)`) -/
def defaultMasks (masks : List (Option IndexRange)) : List IndexRange :=
  masks.map fun o => o.getD ⟨0, 0⟩

/-- `TensorRange::clip_from` (= `from_all`) -/
def rangeFromAll (A : Arith) (src : TView ν) (ranges : List (Option IndexRange)) :
    Outcome (Except (RangeError ν) (TView ν)) :=
  match clipRangeShape A src.shape (defaultRanges src.shape ranges) with
  | .panic k => .panic k
  | .ok (shape, clipped) =>
    if isValidShape shape then .ok (.ok (src.range shape clipped))
    else .ok (.error (.invalidShape shape))

/-- `TensorMask::clip_from` (= `from_all`) -/
def maskFromAll (A : Arith) (src : TView ν) (masks : List (Option IndexRange)) :
    Outcome (Except (RangeError ν) (TView ν)) :=
  match clipMaskedShape A src.shape (defaultMasks masks) with
  | .panic k => .panic k
  | .ok (shape, clipped) =>
    if isValidShape shape then .ok (.ok (src.mask A shape clipped))
    else .ok (.error (.invalidShape shape))

/-- `range_exceeds_bounds` (also `mask_exceeds_bounds`) -/
def rangeExceedsBounds (A : Arith) : Shape ν → List (Option IndexRange) → Outcome Bool
  | (_, e) :: shape, o :: os =>
    match o with
    | none => rangeExceedsBounds A shape os
    | some r =>
      match A.exceeds r e with
      | .ok true => .ok true
      | .ok false => rangeExceedsBounds A shape os
      | .panic k => .panic k
  | _, _ => .ok false

/-- `TensorRange::from_all_strict` -/
def rangeFromAllStrict (A : Arith) (src : TView ν) (ranges : List (Option IndexRange)) :
    Outcome (Except (RangeError ν) (TView ν)) :=
  match rangeExceedsBounds A src.shape ranges with
  | .panic k => .panic k
  | .ok true => .ok (.error (.outsideShape src.shape ranges))
  | .ok false => rangeFromAll A src ranges

/-- `TensorMask::from_all_strict` -/
def maskFromAllStrict (A : Arith) (src : TView ν) (masks : List (Option IndexRange)) :
    Outcome (Except (RangeError ν) (TView ν)) :=
  match rangeExceedsBounds A src.shape masks with
  | .panic k => .panic k
  | .ok true => .ok (.error (.outsideShape src.shape masks))
  | .ok false => maskFromAll A src masks

/-- `TensorRange::from` -/
def rangeFrom (A : Arith) (src : TView ν) (ranges : List (ν × IndexRange)) :
    Outcome (Except (RangeError ν) (TView ν)) :=
  match fromNamedToAll src.shape ranges with
  | .panic k => .panic k
  | .ok (.error e) => .ok (.error e)
  | .ok (.ok all) => rangeFromAll A src all

/-- `TensorMask::from` -/
def maskFrom (A : Arith) (src : TView ν) (masks : List (ν × IndexRange)) :
    Outcome (Except (RangeError ν) (TView ν)) :=
  match fromNamedToAll src.shape masks with
  | .panic k => .panic k
  | .ok (.error e) => .ok (.error e)
  | .ok (.ok all) => maskFromAll A src all

/-- the re-wrapping `match` of `from_strict`, with its `panic!` arm for an `InvalidDimensions`
    error coming out of `from_all_strict` -/
def rewrapStrict (r : Outcome (Except (RangeError ν) (TView ν))) :
    Outcome (Except (RangeError ν) (TView ν)) :=
  match r with
  | .ok (.error (.invalidDimensions _ _)) => .panic .explicit
  | other => other

/-- `TensorRange::from_strict` -/
def rangeFromStrict (A : Arith) (src : TView ν) (ranges : List (ν × IndexRange)) :
    Outcome (Except (RangeError ν) (TView ν)) :=
  match fromNamedToAll src.shape ranges with
  | .panic k => .panic k
  | .ok (.error e) => .ok (.error e)
  | .ok (.ok all) => rewrapStrict (rangeFromAllStrict A src all)

/-- `TensorMask::from_strict` -/
def maskFromStrict (A : Arith) (src : TView ν) (masks : List (ν × IndexRange)) :
    Outcome (Except (RangeError ν) (TView ν)) :=
  match fromNamedToAll src.shape masks with
  | .panic k => .panic k
  | .ok (.error e) => .ok (.error e)
  | .ok (.ok all) => rewrapStrict (maskFromAllStrict A src all)

/-! ### the other adaptors (constructed with arguments their panicking constructors accept) -/

/-- `reverse_indexes` / `try_reverse_indexes` as used by the checked getters: reversed
    dimensions map `i ↦ (length − 1) − i`, the others pass through -/
def reverseIndexes (A : Arith) (indexes : List Nat) (shape : Shape ν) (reversed : List Bool) :
    Outcome (Option (List Nat)) :=
  mapCoords ((shape.zip reversed).map fun (d, r) =>
    if r then A.reverseChecked d.2 else fun i => .ok (some i)) indexes

/-- `TensorReverse::from(source, dimensions)`: `reversed[i] = dimensions.contains(shape[i].0)` -/
def TView.reverse (A : Arith) (src : TView ν) (dimensions : List ν) : TView ν where
  shape := src.shape
  get := fun idx =>
    match reverseIndexes A idx src.shape (src.shape.map fun d => dimensions.contains d.1) with
    | .ok (some mapped) => src.get mapped
    | .ok none => .ok none
    | .panic k => .panic k

/-- `TensorRename` -/
def TView.rename (src : TView ν) (dimensions : List ν) : TView ν where
  shape := (src.shape.zip dimensions).map fun (d, n) => (n, d.2)
  get := src.get

/-- `compute_select_indexes_*` of `TensorIndex`: merge the provided indexes with the supplied
    ones (`supplied.next()?`) -/
def selectIndexes : List (Option Nat) → List Nat → Option (List Nat)
  | [], _ => some []
  | some p :: ps, is => (selectIndexes ps is).map (p :: ·)
  | none :: ps, i :: is => (selectIndexes ps is).map (i :: ·)
  | none :: _, [] => none

/-- the `provided` table of `TensorIndex::from` for valid arguments -/
def providedTable (shape : Shape ν) (provided : List (ν × Nat)) : List (Option Nat) :=
  shape.map fun d => (provided.find? (·.1 = d.1)).map (·.2)

/-- `TensorIndex` (the checked getter `unwrap`s the merged indexes) -/
def TView.index (src : TView ν) (provided : List (ν × Nat)) : TView ν :=
  let table := providedTable src.shape provided
  { shape := (src.shape.zip table).filterMap fun (d, p) => if p.isNone then some d else none
    get := fun idx =>
      match unwrapC (selectIndexes table idx) with
      | .ok mapped => src.get mapped
      | .panic k => .panic k }

/-- `compute_expansion_indexes_*` of `TensorExpansion`: walk the indexes, dropping the ones that
    address an extra dimension (which must be 0); `used` is the `[0; D]` array being filled. -/
def expansionIndexes : List (Nat × ν) → List Nat → Nat → List Nat → Outcome (Option (List Nat))
  | _, [], _, used => .ok (some used)
  | [], index :: rest, i, used =>
    match setC used i index with
    | .ok used' => expansionIndexes [] rest (i + 1) used'
    | .panic k => .panic k
  | (j, n) :: extra, index :: rest, i, used =>
    if j = i then
      if index ≠ 0 then .ok none else expansionIndexes extra rest i used
    else
      match setC used i index with
      | .ok used' => expansionIndexes ((j, n) :: extra) rest (i + 1) used'
      | .panic k => .panic k

/-- `view_shape` of `TensorExpansion`: `positions` counts the `D + I` slots still to fill -/
def expansionShape : List (Nat × ν) → Shape ν → Nat → Nat → Outcome (Shape ν)
  | _, _, _, 0 => .ok []
  | [], shape, i, positions + 1 =>
    match idxC shape i with
    | .ok d =>
      match expansionShape [] shape (i + 1) positions with
      | .ok rest => .ok (d :: rest)
      | .panic k => .panic k
    | .panic k => .panic k
  | (j, n) :: extra, shape, i, positions + 1 =>
    if j = i then
      match expansionShape extra shape i positions with
      | .ok rest => .ok ((n, 1) :: rest)
      | .panic k => .panic k
    else
      match idxC shape i with
      | .ok d =>
        match expansionShape ((j, n) :: extra) shape (i + 1) positions with
        | .ok rest => .ok (d :: rest)
        | .panic k => .panic k
      | .panic k => .panic k

/-- stable insertion sort by position (`dimensions.sort_by(|a, b| a.0.cmp(&b.0))`): an element
    is inserted *before* the later elements with an equal position -/
def insertByPos (x : Nat × ν) : List (Nat × ν) → List (Nat × ν)
  | [] => [x]
  | y :: ys => if x.1 ≤ y.1 then x :: y :: ys else y :: insertByPos x ys

def sortByPos : List (Nat × ν) → List (Nat × ν)
  | [] => []
  | x :: xs => insertByPos x (sortByPos xs)

/-- `TensorExpansion` -/
def TView.expansion (src : TView ν) (extra : List (Nat × ν)) : Outcome (TView ν) :=
  let sorted := sortByPos extra
  match expansionShape sorted src.shape 0 (src.shape.length + extra.length) with
  | .panic k => .panic k
  | .ok shape =>
    .ok { shape := shape
          get := fun idx =>
            match expansionIndexes sorted idx 0 (List.replicate src.shape.length 0) with
            | .ok (some mapped) => src.get mapped
            | .ok none => .ok none
            | .panic k => .panic k }

/-- `indexing` of `TensorStack`: split off the coordinate along the stacked dimension -/
def stackIndexing (indexes : List Nat) (along : Nat) : Outcome (Nat × List Nat) :=
  match idxC indexes along with
  | .ok s => .ok (s, indexes.eraseIdx along)
  | .panic k => .panic k

/-- `TensorStack` over sources of identical shape -/
def TView.stack (sources : List (TView ν)) (along : Nat × ν) : TView ν where
  shape :=
    match sources with
    | [] => []
    | s :: _ => (s.shape.take along.1) ++ (along.2, sources.length) :: s.shape.drop along.1
  get := fun idx =>
    match stackIndexing idx along.1 with
    | .panic k => .panic k
    | .ok (source, rest) =>
      match sources[source]? with
      | some s => s.get rest
      | none => .ok none

/-- `indexing` of `TensorChain`: find the source holding coordinate `i` along the chained
    dimension (`i -= length` is guarded by `i < length`) -/
def chainIndexing (along : Nat) : List (TView ν) → List Nat → Nat → Outcome (Option (TView ν × List Nat))
  | [], _, _ => .ok none
  | s :: rest, indexes, i =>
    match idxC s.shape along with
    | .panic k => .panic k
    | .ok (_, len) =>
      if i < len then .ok (some (s, indexes.set along i))
      else
        match csub i len with
        | .ok i' => chainIndexing along rest indexes i'
        | .panic k => .panic k

/-- `Iterator::sum` over `usize` with overflow checks -/
def sumC : List Nat → Nat → Outcome Nat
  | [], acc => .ok acc
  | x :: xs, acc =>
    match cadd acc x with
    | .ok a => sumC xs a
    | .panic k => .panic k

/-- `TensorChain` over sources whose shapes agree except for the length along `along` -/
def TView.chain (sources : List (TView ν)) (along : Nat) : Outcome (TView ν) :=
  match sources with
  | [] => .panic .explicit
  | first :: _ =>
    match sumC (sources.map fun s => ((s.shape[along]?).map (·.2)).getD 0) 0 with
    | .panic k => .panic k
    | .ok total =>
      match idxC first.shape along with
      | .panic k => .panic k
      | .ok (n, _) =>
        .ok { shape := first.shape.set along (n, total)
              get := fun idx =>
                match idxC idx along with
                | .panic k => .panic k
                | .ok i =>
                  match chainIndexing along sources idx i with
                  | .ok (some (s, mapped)) => s.get mapped
                  | .ok none => .ok none
                  | .panic k => .panic k }

/-! ### record containers: `RecordTensor::from_iter(s)`, `RecordMatrix::from_iter(s)`
    (src/differentiation/container_record/iterators.rs:453-741)

  A record's history is `none` (a constant) or `some k` (the `k`-th `WengertList`). -/

inductive RecordIterError (ν : Type) where
  | shape (requested : Shape ν) (length : Nat)
  | empty
  | inconsistentHistory (first later : Option Nat)
  deriving DecidableEq, Repr

/-- the `map` closure of `collect_into_components` folded over the iterator: remembers the
    first history and the *last* inconsistency seen -/
def collectHistories : List (Option Nat) → Option (Option Nat) → Option (Option Nat × Option Nat) →
    Option (Option Nat) × Option (Option Nat × Option Nat)
  | [], history, error => (history, error)
  | h :: rest, none, error => collectHistories rest (some h) error
  | h :: rest, some first, error =>
    if first = h then collectHistories rest (some first) error
    else collectHistories rest (some first) (some (first, h))

/-- `collect_into_components`: the shared history and the number of elements, or the error -/
def collectIntoComponents (histories : List (Option Nat)) :
    Outcome (Except (RecordIterError ν) (Option Nat × Nat)) :=
  match collectHistories histories none none with
  | (_, some (first, later)) => .ok (.error (.inconsistentHistory first later))
  | (history, none) =>
    if histories.length = 0 then .ok (.error .empty)
    else
      match unwrapC history with
      | .ok h => .ok (.ok (h, histories.length))
      | .panic k => .panic k

/-- `RecordTensor::from_iter` -/
def recordTensorFromIter (A : Arith) (shape : Shape ν) (histories : List (Option Nat)) :
    Outcome (Except (RecordIterError ν) (Option Nat × TensorMeta ν)) :=
  match collectIntoComponents (ν := ν) histories with
  | .panic k => .panic k
  | .ok (.error e) => .ok (.error e)
  | .ok (.ok (history, n)) =>
    match tensorTryFrom A shape n with
    | .panic k => .panic k
    | .ok (.ok t) => .ok (.ok (history, t))
    | .ok (.error invalid) => .ok (.error (.shape invalid n))

/-- `RecordMatrix::from_iter`; the success value is the history and the size -/
def recordMatrixFromIter (A : Arith) (rows columns : Nat) (rowsName columnsName : ν)
    (histories : List (Option Nat)) :
    Outcome (Except (RecordIterError ν) (Option Nat × Nat × Nat)) :=
  match collectIntoComponents (ν := ν) histories with
  | .panic k => .panic k
  | .ok (.error e) => .ok (.error e)
  | .ok (.ok (history, n)) =>
    match A.mulChecked rows columns with
    | .panic k => .panic k
    | .ok p =>
      if p = some n then .ok (.ok (history, rows, columns))
      else .ok (.error (.shape [(rowsName, rows), (columnsName, columns)] n))

/-! ### `Option`-returning linear algebra entry points: the shape logic
    (src/linear_algebra.rs; the arithmetic on the elements is the subject of C07/C08)

  Inputs are at least 1×1 (a `Matrix`/`TensorView` invariant); for `inverse` the flag says
  whether the determinant is zero. -/

/-- `determinant` / `determinant_tensor`: `Some` exactly for square input -/
def determinantShape (rows columns : Nat) : Outcome (Option Unit) :=
  if rows ≠ columns then .ok none
  else if rows = 0 then .ok none
  else .ok (some ())

/-- `inverse` / `inverse_tensor`: `Some(rows × columns)` for square input with non-zero determinant -/
def inverseShape (rows columns : Nat) (singular : Bool) : Outcome (Option (Nat × Nat)) :=
  if rows ≠ columns then .ok none
  else if singular then .ok none
  else .ok (some (rows, columns))

/-- `cholesky_decomposition*` / `ldlt_decomposition*` on a positive definite input:
    `Some` exactly for square input -/
def choleskyShape (rows columns : Nat) : Outcome (Option (Nat × Nat)) :=
  if rows ≠ columns then .ok none else .ok (some (rows, columns))

/-- `qr_decomposition*` at the pinned commit: `iterations = min(rows - 1, columns)`, `q` starts
    as `None` and is `unwrap`ped after the loop -/
def qrShapePre (rows columns : Nat) : Outcome (Option ((Nat × Nat) × (Nat × Nat))) :=
  if columns > rows then .ok none
  else
    match csub rows 1 with
    | .panic k => .panic k
    | .ok r1 =>
      let iterations := min r1 columns
      match unwrapC (if iterations = 0 then none else some (rows, rows)) with
      | .ok q => .ok (some (q, (rows, columns)))
      | .panic k => .panic k

/-- repaired (fix D-09): `q.unwrap_or_else(|| identity)` -/
def qrShape (rows columns : Nat) : Outcome (Option ((Nat × Nat) × (Nat × Nat))) :=
  if columns > rows then .ok none
  else
    match csub rows 1 with
    | .panic k => .panic k
    | .ok _ => .ok (some ((rows, rows), (rows, columns)))

/-! ### API-surface compositions (the stateless cases `@ record_get`, `@ record_mget`) -/

/-- `TensorAccess::from(<RecordTensor of the shape holding its offsets>, order)
    .try_get_as_record(indexes)`: the tensor is built (`Tensor::from` panics on an invalid shape),
    accessed in the given order (`TensorAccess::from` panics on names that are not the
    tensor's), and asked through the checked getter. -/
def recordGet [Inhabited ν] (shape : Shape ν) (order : List ν) (indexes : List Nat) :
    Outcome (Option Nat) :=
  match tensorTryFrom Arith.fixed shape (elements shape) with
  | .panic k => .panic k
  | .ok (.error _) => .panic .explicit
  | .ok (.ok t) =>
    match accessTryFrom (TView.ofTensor t) order with
    | .panic k => .panic k
    | .ok (.error _) => .panic .explicit
    | .ok (.ok a) => a.get indexes

end EasyMl.Fallible
