/-
  EasyMl.Model.WrapperOps — the operators of `Trace<T>` and `Record<'a, T>` as the code computes
  them over the element type's own arithmetic (`src/differentiation/trace_operations.rs`,
  `record_operations.rs`, `functions.rs`), used by property C19's clause "trace/record wrappers
  inherit these [operators, in all four owned/borrowed operand forms]".

  The model has ONE answer per operation: the `&a op &b` implementation, to which the
  value/value, value/reference and reference/value impls must delegate with the operands in the
  same order.  The element arithmetic is a parameter (`Arith`): plain integers with overflow
  checks, `Wrapping<T>`, or an exact field (`Fp`), panics included, evaluated in the order the
  Rust code evaluates (number first, then the derivative(s)).

  Core Lean only.
-/
import EasyMl.Model.Numeric
import EasyMl.Model.Fp

namespace EasyMl.Num

/-- the element type's operators as they behave at run time -/
structure Arith (α : Type) where
  add : α → α → Outcome α
  sub : α → α → Outcome α
  mul : α → α → Outcome α
  div : α → α → Outcome α
  neg : α → Outcome α
  zero : α
  one : α

def arithPlain (t : IntTy) : Arith (Val t) where
  add := pAdd t
  sub := pSub t
  mul := pMul t
  div := pDiv t
  neg a := checked t (-(toInt t a))
  zero := zero t
  one := one t

def arithWrapping (t : IntTy) : Arith (Val t) where
  add a b := .ok (wAdd t a b)
  sub a b := .ok (wSub t a b)
  mul a b := .ok (wMul t a b)
  div := wDiv t
  neg a := .ok (wNeg t a)
  zero := wrapZero t
  one := wrapOne t

def arithFp : Arith Fp where
  add a b := .ok (a + b)
  sub a b := .ok (a - b)
  mul a b := .ok (a * b)
  div a b := .ok (a / b)
  neg a := .ok (-a)
  zero := 0
  one := 1

inductive BinOp where
  | add | sub | mul | div
  deriving DecidableEq, Repr

def BinOp.ofName? : String → Option BinOp
  | "add" => some .add | "sub" => some .sub | "mul" => some .mul | "div" => some .div | _ => none

section
variable {α : Type} (A : Arith α)

/-- the element operator -/
def Arith.bin (op : BinOp) (x y : α) : Outcome α :=
  match op with
  | .add => A.add x y | .sub => A.sub x y | .mul => A.mul x y | .div => A.div x y

/-! ### Trace -/

/-- `&Trace op &Trace` (trace_operations.rs: Add 155, Mul 305, Sub 349, Div 391) -/
def traceBin (op : BinOp) (a b : Trace α) : Outcome (Trace α) :=
  match op with
  | .add => do
    let n ← A.add a.number b.number
    let d ← A.add a.derivative b.derivative
    pure ⟨n, d⟩
  | .sub => do
    let n ← A.sub a.number b.number
    let d ← A.sub a.derivative b.derivative
    pure ⟨n, d⟩
  | .mul => do
    let n ← A.mul a.number b.number
    -- u'v + uv'
    let l ← A.mul a.derivative b.number
    let r ← A.mul a.number b.derivative
    let d ← A.add l r
    pure ⟨n, d⟩
  | .div => do
    let n ← A.div a.number b.number
    -- (u'v - uv') / v^2
    let l ← A.mul a.derivative b.number
    let r ← A.mul a.number b.derivative
    let num ← A.sub l r
    let den ← A.mul b.number b.number
    let d ← A.div num den
    pure ⟨n, d⟩

/-- `&Trace op &T` (trace_operations.rs: Add 230, Mul 328, Sub 370, Div 418) -/
def traceScalar (op : BinOp) (a : Trace α) (r : α) : Outcome (Trace α) :=
  match op with
  | .add => do
    let n ← A.add a.number r
    pure ⟨n, a.derivative⟩
  | .sub => do
    let n ← A.sub a.number r
    pure ⟨n, a.derivative⟩
  | .mul => do
    let n ← A.mul a.number r
    let d ← A.mul a.derivative r
    pure ⟨n, d⟩
  | .div => do
    let n ← A.div a.number r
    let l ← A.mul a.derivative r
    let den ← A.mul r r
    let d ← A.div l den
    pure ⟨n, d⟩

/-- `-Trace`: `Trace::<T>::zero() - self` -/
def traceNeg (a : Trace α) : Outcome (Trace α) :=
  traceBin A .sub (Trace.constant A.zero A.zero) a

/-! ### Record

One operation on a fresh tape: the operands are variables (appended to the tape in the order
left, right) or constants.  The result is the number, whether the result has a tape, its index,
and the derivatives of the result with respect to the variable operands. -/

structure RecOut (α : Type) where
  number : α
  hasHistory : Bool
  index : Nat
  dx : Option α
  dy : Option α

/-- `FunctionDerivative::d_function_dx` (functions.rs) -/
def dfdx (op : BinOp) (_x y : α) : Outcome α :=
  match op with
  | .add => .ok A.one
  | .sub => .ok A.one
  | .mul => .ok y
  | .div => A.div A.one y

/-- `FunctionDerivative::d_function_dy` -/
def dfdy (op : BinOp) (x y : α) : Outcome α :=
  match op with
  | .add => .ok A.one
  | .sub => A.neg A.one
  | .mul => .ok x
  | .div => do
    let nx ← A.neg x
    let yy ← A.mul y y
    A.div nx yy

/-- the reverse sweep for a result with seed one: `0 + 1 * d` -/
def sweep (d : α) : Outcome α := do
  let p ← A.mul A.one d
  A.add A.zero p

/-- `&Record op &Record` with the operands variable (`true`) or constant (`false`) -/
def recordBin (op : BinOp) (va vb : Bool) (a b : α) : Outcome (RecOut α) :=
  match va, vb with
  | false, false => do
    let n ← A.bin op a b
    pure ⟨n, false, 0, none, none⟩
  | true, true => do
    let n ← A.bin op a b
    let dx ← dfdx A op a b
    let dy ← dfdy A op a b
    let gx ← sweep A dx
    let gy ← sweep A dy
    pure ⟨n, true, 2, some gx, some gy⟩
  | true, false => do
    -- `self op &rhs.number`: a unary entry with d/dx
    let n ← A.bin op a b
    let dx ← dfdx A op a b
    let gx ← sweep A dx
    pure ⟨n, true, 1, some gx, none⟩
  | false, true =>
    match op with
    | .add | .mul => do
      -- `rhs op &self.number`: commuted, derivative with respect to its left operand
      let n ← A.bin op b a
      let d ← dfdx A op b a
      let gy ← sweep A d
      pure ⟨n, true, 1, none, some gy⟩
    | .sub | .div => do
      -- `rhs.sub_swapped(lhs)` / `div_swapped`: d/dy of `lhs op rhs`
      let n ← A.bin op a b
      let d ← dfdy A op a b
      let gy ← sweep A d
      pure ⟨n, true, 1, none, some gy⟩

/-- `&Record op &T` -/
def recordScalar (op : BinOp) (va : Bool) (a r : α) : Outcome (RecOut α) :=
  if va then do
    let n ← A.bin op a r
    let dx ← dfdx A op a r
    let gx ← sweep A dx
    pure ⟨n, true, 1, some gx, none⟩
  else do
    let n ← A.bin op a r
    pure ⟨n, false, 0, none, none⟩

/-- `-Record`: a constant is negated in place, a variable is `Record::constant(0) - self` -/
def recordNeg (va : Bool) (a : α) : Outcome (RecOut α) :=
  if va then do
    let r ← recordBin A .sub false true A.zero a
    pure ⟨r.number, r.hasHistory, r.index, r.dy, none⟩
  else do
    let n ← A.neg a
    pure ⟨n, false, 0, none, none⟩

end

end EasyMl.Num
