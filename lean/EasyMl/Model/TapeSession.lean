/-
  EasyMl.Model.TapeSession — every way the public API of `Record` / `WengertList` can change a
  tape, as data, so that statements can quantify over *all sequences of public operations*.

  * `PubOp R` — one public operation with its operands: creating a variable, `Record::unary` /
    `Record::binary` with arbitrary closures (every operator, in every operand form, is one of
    these two by the shape lemmas `Rec.add_eq`, `Rec.addNum_eq`, … of Lemmas/TapeProg.lean —
    collected in `C04.every_operator_is_unary_or_binary`), `Sum`, `reset`, `WengertList::clear`
    and `WengertList::clone`.  Comparisons, `clone`, `Display`, `Debug`, `derivatives` and
    `try_derivatives` do not change any tape (`C04.compare_no_tape_effect`).
    The operand records are *arbitrary* `Rec` values: records of other tapes, stale records,
    records forged with `from_existing` are all allowed here.
  * `PubOp.apply` — the tapes after the operation, by the very functions of `Model/Tape.lean`
    (a `binary` that panics on the `same_list` assertion leaves the tapes as they were; a `Sum`
    that panics half way leaves the entries of the completed rounds).
  * `Live w r` — the record points inside its tape: its index is smaller than the tape's current
    length.  Every record an operation returns is live, and stays live until its tape is cleared
    (`C15.result_live`, `C15.live_preserved`); a stale record is live again as soon as the tape
    has regrown past its index — its derivatives are then meaningless, but the tape stays well
    formed.  `PubOp.InRange` asks this of the record operands of an operation.

  Core Lean only.
-/
import EasyMl.Model.Tape

namespace EasyMl

variable {R : Type}

/-- the record points inside its tape (a constant has no tape to point into) -/
def Live (w : World R) (r : Rec R) : Prop :=
  match r.history with
  | none => True
  | some h => r.index < (w h).length

/-- one tape-changing operation of the public API, with its operands -/
inductive PubOp (R : Type) where
  /-- `Record::variable(x, &list)` / `list.variable(x)` on tape `h` -/
  | newVar (x : R) (h : Nat)
  /-- `Record::unary`, and every unary operator and record∘number form -/
  | unary (a : Rec R) (fx dfx : R → R)
  /-- `Record::binary`, and every binary operator on two records -/
  | binary (a b : Rec R) (fxy dfx dfy : R → R → R)
  /-- `Sum for Record` -/
  | sum (items : List (Rec R))
  /-- `Record::reset` -/
  | reset (r : Rec R)
  /-- `WengertList::clear` of tape `h` -/
  | clear (h : Nat)
  /-- `WengertList::clone`: tape `dst` becomes a copy of tape `src` -/
  | cloneTape (src dst : Nat)

namespace PubOp
variable [Add R] [Zero R] [One R]

/-- the tapes after the operation -/
def apply (op : PubOp R) (w : World R) : World R :=
  match op with
  | .newVar x h => (Rec.mkVar x h w).2
  | .unary a fx dfx => (a.unary fx dfx w).2
  | .binary a b fxy dfx dfy =>
    match a.binary b fxy dfx dfy w with
    | .ok (_, w') => w'
    | .panic _ => w
  | .sum items => (Rec.sum items w).1
  | .reset r => (r.reset w).2
  | .clear h => w.clear h
  | .cloneTape src dst => w.cloneTape src dst

/-- the tapes after a sequence of operations -/
def run : List (PubOp R) → World R → World R
  | [], w => w
  | op :: rest, w => run rest (op.apply w)

/-- the record operands of the operation point inside their tapes -/
def InRange (op : PubOp R) (w : World R) : Prop :=
  match op with
  | .unary a _ _ => Live w a
  | .binary a b _ _ _ => Live w a ∧ Live w b
  | .sum items => ∀ r ∈ items, Live w r
  | _ => True

/-- … at every step of a sequence -/
def InRangeAll : List (PubOp R) → World R → Prop
  | [], _ => True
  | op :: rest, w => op.InRange w ∧ InRangeAll rest (op.apply w)

end PubOp

end EasyMl
