/-
  EasyMl.Model.Display — code-shaped model of `tensors::display::format_view`
  (src/tensors/display.rs:5-182), the `Display` implementation behind `Tensor`, `TensorView`,
  `TensorAccess` (indexing.rs:654-664, which appends the data layout) for an element type whose
  own `Display` ignores the precision argument (integers): the text is a pure function of the
  shape and the elements.

  The five layouts are written as in the Rust: `D = 0`, `1`, `2`, `3` with their nested loops,
  and the generic `n ≥ 4` branch that walks all indexes in source order and emits the blank
  lines between blocks with the right-to-left `break`ing loop.  Core Lean only (the `emlmodel`
  driver answers the `@ fmtint` lines of the C18 workload with it).
-/
import EasyMl.Model.Transform

namespace EasyMl.Display
open EasyMl

/-- `{:?}` of a dimension name without characters that need escaping -/
def showName (n : String) : String := "\"" ++ n ++ "\""

/-- `write!(f, "D = {:?}", D)`, a newline if `D > 0`, the `(name, length)` pairs, a newline -/
def header (shape : Shape String) : String :=
  s!"D = {shape.length}" ++ (if shape.length > 0 then "\n" else "") ++
    ", ".intercalate (shape.map fun d => s!"({showName d.1}, {d.2})") ++ "\n"

/-- `", "` after every column but the last -/
def cells (vals : List String) : String := ", ".intercalate vals

/-- the loop `for dimension in (1..(n - 1)).rev() { if index[dimension] == length - 1 { writeln } else { break } }` -/
def gapLines (index lens : List Nat) : List Nat → String
  | [] => ""
  | d :: rest =>
    if index.getD d 0 == lens.getD d 0 - 1 then "\n" ++ gapLines index lens rest else ""

/-- one step of the generic `n ≥ 4` walk -/
def genericCell (lens : List Nat) (n : Nat) (index : List Nat) (value : String) : String :=
  let rows := lens.getD (n - 2) 0
  let columns := lens.getD (n - 1) 0
  let row := index.getD (n - 2) 0
  let column := index.getD (n - 1) 0
  let lastIndex := lens.map (· - 1)
  (if column == 0 then "  " else "") ++ value ++
    (if column < columns - 1 then ", " else "") ++
    (if row < rows - 1 && column == columns - 1 then "\n" else "") ++
    (if row == rows - 1 && column == columns - 1 && index != lastIndex then
      "\n" ++ gapLines index lens (List.range' 1 (n - 2)).reverse
    else "")

/-- `format_view` for a view with the given shape whose element at an index is `get index`
    (already formatted); `none`: an index inside the shape has no element — the Rust panics. -/
def formatView (shape : Shape String) (get : List Nat → Option String) : Option String :=
  let lens := shape.map (·.2)
  let n := shape.length
  let body : Option String :=
    match lens with
    | [] => (get []).map fun v => s!"[ {v} ]"
    | [length] =>
      ((List.range length).mapM fun i => get [i]).map fun vs => "[ " ++ cells vs ++ " ]"
    | [rows, columns] =>
      ((List.range rows).mapM fun row =>
        ((List.range columns).mapM fun column => get [row, column]).map fun vs =>
          (if row > 0 then "  " else "") ++ cells vs ++ (if row < rows - 1 then "\n" else "")).map
        fun ls => "[ " ++ String.join ls ++ " ]"
    | [blocks, rows, columns] =>
      ((List.range blocks).mapM fun block =>
        ((List.range rows).mapM fun row =>
          ((List.range columns).mapM fun column => get [block, row, column]).map fun vs =>
            "  " ++ cells vs ++ (if row < rows - 1 then "\n" else "")).map fun ls =>
          String.join ls ++ (if block < blocks - 1 then "\n\n" else "")).map
        fun bs => "[\n" ++ String.join bs ++ "\n]"
    | _ =>
      ((shapeIndexes lens).mapM fun index => (get index).map (genericCell lens n index)).map
        fun cs => "[\n" ++ String.join cs ++ "\n]"
  body.map fun b => header shape ++ b

/-- `Display for Tensor<i64, D>` -/
def formatTensor (t : Tensor String Int) : Option String :=
  formatView t.shape fun idx => (t.get idx).map toString

/-- `Display for TensorAccess<i64, &Tensor, D>`: the reordered view, then the data layout of the
    source (`Linear` with the source's names in memory order) -/
def formatAccess (t : Tensor String Int) (names : List String) : Option String :=
  match t.indexBy names with
  | none => none
  | some a =>
    (formatView a.shape fun idx => (a.get idx).map toString).map fun s =>
      s ++ "\nData Layout = Linear([" ++ ", ".intercalate (t.shape.map fun d => showName d.1) ++ "])"

end EasyMl.Display
