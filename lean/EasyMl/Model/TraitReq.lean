/-
  EasyMl.Model.TraitReq — which implementations a type must supply to be accepted "everywhere a
  numeric type is accepted" (property C19, user-defined types).

  `src/numeric.rs` defines `Numeric`, `NumericRef`, `Real`, `RealRef` as bodiless traits with blanket
  impls: a type has them exactly when it has their supertraits.  Nearly every generic routine of the
  crate is bounded by the pair

      T: Numeric,   for<'a> &'a T: NumericRef<T>          (resp. Real / RealRef)

  Unfolding the supertraits (numeric.rs:34-163, 566-687) gives the list of concrete impls below:
  every operator in all four owned/borrowed operand forms, `Neg` by value and by reference, and
  the by-value extras.  A type is modelled by the set of impls it supplies.  Core Lean only.
-/
namespace EasyMl.TraitReq

inductive Op where
  | add | sub | mul | div
  deriving DecidableEq, Repr

/-- `T op T`, `T op &T`, `&T op T`, `&T op &T` (all with `Output = T`) -/
inductive Form where
  | vv | vr | rv | rr
  deriving DecidableEq, Repr

inductive RealFn where
  | sqrt | exp | ln | sin | cos
  deriving DecidableEq, Repr

inductive Impl where
  | bin (op : Op) (form : Form)
  | neg (byRef : Bool)
  | clone | zeroOne | fromUsize | sum | partialOrd | debug
  | fn1 (f : RealFn) (byRef : Bool)
  | pow (form : Form)
  | pi
  deriving DecidableEq, Repr

def ops : List Op := [.add, .sub, .mul, .div]
def realFns : List RealFn := [.sqrt, .exp, .ln, .sin, .cos]

/-- `NumericByValue<Rhs, Output = T>` for the left operand by value (`byRefL = false`) or by
    reference, with the right operand by value / by reference -/
def numericByValue (byRefL byRefR : Bool) : List Impl :=
  let form : Form := match byRefL, byRefR with
    | false, false => .vv | false, true => .vr | true, false => .rv | true, true => .rr
  ops.map (fun o => Impl.bin o form) ++ [Impl.neg byRefL]

/-- `T: Numeric` = `NumericByValue + for<'a> NumericByValue<&'a Self> + Clone + ZeroOne + FromUsize +
    Sum + PartialOrd + Debug` -/
def reqNumeric : List Impl :=
  numericByValue false false ++ numericByValue false true ++
    [.clone, .zeroOne, .fromUsize, .sum, .partialOrd, .debug]

/-- `&T: NumericRef<T>` = `NumericByValue<T, T> + for<'a> NumericByValue<&'a T, T>` -/
def reqNumericRef : List Impl := numericByValue true false ++ numericByValue true true

/-- `RealByValue<Rhs, Output = T>`: `Sqrt Exp Pow<Rhs> Ln Sin Cos` + `NumericByValue<Rhs, T>` -/
def realByValue (byRefL byRefR : Bool) : List Impl :=
  let form : Form := match byRefL, byRefR with
    | false, false => .vv | false, true => .vr | true, false => .rv | true, true => .rr
  realFns.map (fun f => Impl.fn1 f byRefL) ++ [Impl.pow form] ++ numericByValue byRefL byRefR

/-- `T: Real` = `RealByValue + for<'a> RealByValue<&'a Self> + Pi + Numeric` -/
def reqReal : List Impl := realByValue false false ++ realByValue false true ++ [.pi] ++ reqNumeric

/-- `&T: RealRef<T>` = `RealByValue<T, T> + for<'a> RealByValue<&'a T, T>` -/
def reqRealRef : List Impl := realByValue true false ++ realByValue true true

/-- the distinct impls behind the bound pair of the numeric routines / of the real routines -/
def usableNumeric : List Impl := (reqNumeric ++ reqNumericRef).eraseDups
def usableReal : List Impl := (reqReal ++ reqRealRef).eraseDups

/-- a type, as the set of impls it supplies, satisfies a requirement list -/
def satisfies (caps : List Impl) (req : List Impl) : Bool := req.all caps.contains

/-! ### the built-in types, as std and numeric.rs equip them -/

/-- signed integers, `f32`, `f64` and `Wrapping<_>`: every operator form, `Neg`, `Sum`, … -/
def capsFullNumeric : List Impl := usableNumeric
/-- unsigned integers: no `Neg` -/
def capsUnsigned : List Impl := usableNumeric.filter fun i => match i with | .neg _ => false | _ => true
/-- `Saturating<signed>` (std of the pinned toolchain): no `Sum` -/
def capsSaturatingSigned : List Impl := usableNumeric.filter (· != .sum)
/-- `Saturating<unsigned>`: no `Neg` -/
def capsSaturatingUnsigned : List Impl := capsUnsigned
/-- `f32`, `f64`: additionally the real functions in every form -/
def capsFloat : List Impl := usableReal

def Op.name : Op → String
  | .add => "add" | .sub => "sub" | .mul => "mul" | .div => "div"
def Form.name : Form → String
  | .vv => "vv" | .vr => "vr" | .rv => "rv" | .rr => "rr"
def RealFn.name : RealFn → String
  | .sqrt => "sqrt" | .exp => "exp" | .ln => "ln" | .sin => "sin" | .cos => "cos"
def Impl.name : Impl → String
  | .bin o f => s!"{o.name}.{f.name}"
  | .neg r => if r then "neg.r" else "neg.v"
  | .clone => "clone" | .zeroOne => "zero_one" | .fromUsize => "from_usize" | .sum => "sum"
  | .partialOrd => "partial_ord" | .debug => "debug"
  | .fn1 f r => s!"{f.name}.{if r then "r" else "v"}"
  | .pow f => s!"pow.{f.name}"
  | .pi => "pi"

end EasyMl.TraitReq
