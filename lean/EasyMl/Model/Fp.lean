/-
  EasyMl.Model.Fp — the executable element types of the correspondence runs.

  `Fp` is the prime field with p = 2^61 - 1, `x / 0 = 0`.  The transcendental functions are
  uninterpreted pseudo-random functions (`uf`), bit-for-bit the same as `harness/src/exact.rs`.
  The order is that of the signed representative in (-p/2, p/2].

  Model functions are written over the numeric classes below (core `Add`, `Mul`, `Sub`, `Neg`,
  `Div`, `Zero`, `One`, `NatCast`, plus `RealFns` and `NumOrd`); the driver instantiates them at
  `Fp`, the theorems at Mathlib fields / ℝ.  Core Lean only.
-/
namespace EasyMl

/-- `sqrt exp ln sin cos pow pi` of the `Real` trait. -/
class RealFns (α : Type) where
  sqrt : α → α
  exp : α → α
  ln : α → α
  sin : α → α
  cos : α → α
  pow : α → α → α
  pi : α

/-- the `PartialOrd`/`PartialEq` decisions generic code takes on elements -/
class NumOrd (α : Type) where
  lt : α → α → Bool
  le : α → α → Bool
  eq : α → α → Bool

def fpP : Nat := 2 ^ 61 - 1

structure Fp where
  val : Nat
  deriving DecidableEq, Repr, Inhabited

namespace Fp

def ofNat (n : Nat) : Fp := ⟨n % fpP⟩

def mix (z0 : UInt64) : UInt64 :=
  let z := z0 + 0x9E3779B97F4A7C15
  let z := (z ^^^ (z >>> 30)) * 0xBF58476D1CE4E5B9
  let z := (z ^^^ (z >>> 27)) * 0x94D049BB133111EB
  z ^^^ (z >>> 31)

/-- the uninterpreted function symbol `tag` applied to `x` -/
def uf (tag : UInt64) (x : Nat) : Nat :=
  (mix (tag * 0x2545F4914F6CDD1D + x.toUInt64)).toNat % fpP

def uf2 (tag : UInt64) (x y : Nat) : Nat :=
  uf tag (mix x.toUInt64 + y.toUInt64 * 3).toNat

def add (a b : Fp) : Fp := ⟨(a.val + b.val) % fpP⟩
def sub (a b : Fp) : Fp := ⟨(a.val + fpP - b.val) % fpP⟩
def mul (a b : Fp) : Fp := ⟨(a.val * b.val) % fpP⟩
def neg (a : Fp) : Fp := ⟨(fpP - a.val) % fpP⟩

def powNat (a : Fp) (e : Nat) : Fp := Id.run do
  let mut base := a
  let mut acc : Fp := ⟨1⟩
  let mut e := e
  for _ in [0:64] do
    if e % 2 == 1 then acc := mul acc base
    base := mul base base
    e := e / 2
  return acc

/-- inverse by Fermat; `inv 0 = 0` -/
def inv (a : Fp) : Fp := powNat a (fpP - 2)
def div (a b : Fp) : Fp := mul a (inv b)

/-- signed representative in (-p/2, p/2] -/
def signed (a : Fp) : Int := if a.val > fpP / 2 then (a.val : Int) - fpP else a.val

def ofInt (i : Int) : Fp := if i ≥ 0 then ofNat i.toNat else neg (ofNat (-i).toNat)

instance : Add Fp := ⟨add⟩
instance : Sub Fp := ⟨sub⟩
instance : Mul Fp := ⟨mul⟩
instance : Div Fp := ⟨div⟩
instance : Neg Fp := ⟨neg⟩
instance : Zero Fp := ⟨⟨0⟩⟩
instance : One Fp := ⟨⟨1⟩⟩
instance : NatCast Fp := ⟨ofNat⟩
instance : ToString Fp := ⟨fun a => toString a.val⟩

instance : RealFns Fp where
  sqrt a := ⟨uf 1 a.val⟩
  exp a := ⟨uf 2 a.val⟩
  ln a := ⟨uf 3 a.val⟩
  sin a := ⟨uf 4 a.val⟩
  cos a := ⟨uf 5 a.val⟩
  pow a b := ⟨uf2 6 a.val b.val⟩
  pi := ⟨uf 7 0⟩

instance : NumOrd Fp where
  lt a b := decide (signed a < signed b)
  le a b := decide (signed a ≤ signed b)
  eq a b := a.val == b.val

end Fp

/-- Exact rationals of the correspondence runs are Lean core's `Rat` (`x / 0 = 0`). -/
instance : NumOrd Rat where
  lt a b := decide (a < b)
  le a b := decide (a ≤ b)
  eq a b := a == b

def showRat (q : Rat) : String :=
  if q.den == 1 then toString q.num else s!"{q.num}/{q.den}"

end EasyMl
