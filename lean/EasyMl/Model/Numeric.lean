/-
  EasyMl.Model.Numeric — model of `src/numeric.rs` (FromUsize, ZeroOne, wrapper delegation)
  and of the `Trace`/`Record` constants (`src/differentiation/{trace,record}_operations.rs`).

  Code-shaped: `fromUsize` is the body of the `from_usize_integral!` macro read literally,

      if n <= (<$T>::max_value() as usize) { Some(n as $T) } else { None }

  with the two `as` casts modelled on bit vectors: an integer-to-integer `as` is truncation to
  the destination width, or zero- or sign-extension according to the signedness of the *source*.
  A value of the integer type `t` is its bit pattern `BitVec t.bits`; `toInt` is the number a
  Rust program sees.  `usize` is 64 bits wide (the targets the harness runs on).

  Arithmetic: `Wrapping<T>` is two's complement arithmetic on the bit pattern,
  `Saturating<T>` clamps the mathematical result into `[T::MIN, T::MAX]`, the plain types in
  the dev profile (overflow checks on) panic when the mathematical result leaves that range.
  Division by zero panics in all three.

  Floats: `n as f32` / `n as f64` is round-to-nearest, ties-to-even, of the natural number
  (`roundNE`); `floatBits` is the IEEE-754 encoding of that result.

  Core Lean only: everything here is executed by the `emlmodel` driver.
-/
import EasyMl.Model.Basic

namespace EasyMl.Num

/-! ### The twelve integer types -/

inductive IntTy where
  | u8 | i8 | u16 | i16 | u32 | i32 | u64 | i64 | u128 | i128 | usize | isize
  deriving DecidableEq, Repr, Inhabited

namespace IntTy

def all : List IntTy := [u8, i8, u16, i16, u32, i32, u64, i64, u128, i128, usize, isize]

def bits : IntTy → Nat
  | u8 | i8 => 8
  | u16 | i16 => 16
  | u32 | i32 => 32
  | u64 | i64 | usize | isize => 64
  | u128 | i128 => 128

def signed : IntTy → Bool
  | i8 | i16 | i32 | i64 | i128 | isize => true
  | _ => false

def name : IntTy → String
  | u8 => "u8" | i8 => "i8" | u16 => "u16" | i16 => "i16" | u32 => "u32" | i32 => "i32"
  | u64 => "u64" | i64 => "i64" | u128 => "u128" | i128 => "i128" | usize => "usize"
  | isize => "isize"

def ofName? (s : String) : Option IntTy := all.find? (fun t => t.name == s)

/-- `T::MAX` as a mathematical integer -/
def maxInt (t : IntTy) : Int := if t.signed then 2 ^ (t.bits - 1) - 1 else 2 ^ t.bits - 1

/-- `T::MIN` as a mathematical integer -/
def minInt (t : IntTy) : Int := if t.signed then -(2 ^ (t.bits - 1)) else 0

end IntTy

/-- a value of the integer type `t`: its bit pattern -/
abbrev Val (t : IntTy) := BitVec t.bits

/-- the number a Rust program sees in a value of type `t` -/
def toInt (t : IntTy) (v : Val t) : Int := if t.signed then v.toInt else (v.toNat : Int)

/-- the value of type `t` holding the (in range) integer `i`; wraps otherwise -/
def ofInt (t : IntTy) (i : Int) : Val t := BitVec.ofInt t.bits i

/-- bit pattern of `T::MAX` (`max_value()`): `0111…1` for signed, `1111…1` for unsigned types -/
def maxBits (t : IntTy) : Val t := if t.signed then BitVec.intMax t.bits else BitVec.allOnes t.bits

/-- `x as usize` for `x : T`: truncation to 64 bits if `T` is wider, otherwise sign extension
    (signed `T`) or zero extension (unsigned `T`).  (`signExtend` to a smaller width truncates.) -/
def asUsize (t : IntTy) (v : Val t) : BitVec 64 :=
  if t.signed then v.signExtend 64 else v.setWidth 64

/-- `n as T` for `n : usize` (an unsigned source): truncation or zero extension -/
def usizeAs (t : IntTy) (n : BitVec 64) : Val t := n.setWidth t.bits

/-- `<T as FromUsize>::from_usize(n)` — the `from_usize_integral!` body, literally. -/
def fromUsize (t : IntTy) (n : BitVec 64) : Option (Val t) :=
  if n ≤ asUsize t (maxBits t) then some (usizeAs t n) else none

/-- `ZeroOne::zero()` / `one()` of `zero_one_integral!`: the literals `0` and `1` -/
def zero (t : IntTy) : Val t := 0#t.bits
def one (t : IntTy) : Val t := 1#t.bits

/-! ### Arithmetic of `Wrapping<T>`, `Saturating<T>` and of the plain types (dev profile) -/

/-- `Wrapping<T>`: `wrapping_add/sub/mul/neg` -/
def wAdd (t : IntTy) (a b : Val t) : Val t := a + b
def wSub (t : IntTy) (a b : Val t) : Val t := a - b
def wMul (t : IntTy) (a b : Val t) : Val t := a * b
def wNeg (t : IntTy) (a : Val t) : Val t := -a

/-- `wrapping_div`: panics on a zero divisor ("attempt to divide by zero"); truncating signed
    division with `MIN / -1 = MIN` -/
def wDiv (t : IntTy) (a b : Val t) : Outcome (Val t) :=
  if b = 0#t.bits then .panic .explicit
  else .ok (if t.signed then a.sdiv b else a.udiv b)

/-- clamp a mathematical integer into `[T::MIN, T::MAX]` -/
def clamp (t : IntTy) (i : Int) : Val t :=
  ofInt t (if i < t.minInt then t.minInt else if t.maxInt < i then t.maxInt else i)

/-- `Saturating<T>`: `saturating_add/sub/mul/div/neg` -/
def sAdd (t : IntTy) (a b : Val t) : Val t := clamp t (toInt t a + toInt t b)
def sSub (t : IntTy) (a b : Val t) : Val t := clamp t (toInt t a - toInt t b)
def sMul (t : IntTy) (a b : Val t) : Val t := clamp t (toInt t a * toInt t b)
def sNeg (t : IntTy) (a : Val t) : Val t := clamp t (-(toInt t a))
def sDiv (t : IntTy) (a b : Val t) : Outcome (Val t) :=
  if b = 0#t.bits then .panic .explicit
  else .ok (clamp t ((toInt t a).tdiv (toInt t b)))

/-- the result of a plain operator when overflow checks are on -/
def checked (t : IntTy) (i : Int) : Outcome (Val t) :=
  if t.minInt ≤ i ∧ i ≤ t.maxInt then .ok (ofInt t i) else .panic .overflow

def pAdd (t : IntTy) (a b : Val t) : Outcome (Val t) := checked t (toInt t a + toInt t b)
def pSub (t : IntTy) (a b : Val t) : Outcome (Val t) := checked t (toInt t a - toInt t b)
def pMul (t : IntTy) (a b : Val t) : Outcome (Val t) := checked t (toInt t a * toInt t b)
def pDiv (t : IntTy) (a b : Val t) : Outcome (Val t) :=
  if b = 0#t.bits then .panic .explicit
  else checked t ((toInt t a).tdiv (toInt t b))

/-! ### Wrapper delegation (`impl<T: FromUsize> FromUsize for Wrapping<T>` …) -/

/-- `Some(Wrapping(T::from_usize(n)?))` — the same body for `Saturating`.  `Wrapping<T>` and
    `Saturating<T>` are newtypes: the value is the inner bit pattern. -/
def wrapFromUsize (t : IntTy) (n : BitVec 64) : Option (Val t) :=
  match fromUsize t n with
  | some v => some v
  | none => none

/-- `Wrapping(T::zero())`, `Wrapping(T::one())` -/
def wrapZero (t : IntTy) : Val t := zero t
def wrapOne (t : IntTy) : Val t := one t

/-! ### `Trace` and `Record` constants -/

/-- `Trace<T>`: a number and its derivative -/
structure Trace (α : Type) where
  number : α
  derivative : α
  deriving DecidableEq, Repr

/-- `Trace::constant(c)`: derivative `T::zero()` -/
def Trace.constant {α : Type} (z : α) (c : α) : Trace α := ⟨c, z⟩

/-- `Trace::<T>::from_usize(n) = Some(Trace::constant(T::from_usize(n)?))` -/
def traceFromUsize (t : IntTy) (n : BitVec 64) : Option (Trace (Val t)) :=
  match fromUsize t n with
  | some v => some (Trace.constant (zero t) v)
  | none => none

def traceZero (t : IntTy) : Trace (Val t) := Trace.constant (zero t) (zero t)
def traceOne (t : IntTy) : Trace (Val t) := Trace.constant (zero t) (one t)

/-- `&Trace + &Trace`, `&Trace * &Trace` (u'v + uv') over any element arithmetic -/
def Trace.add {α : Type} (add : α → α → α) (a b : Trace α) : Trace α :=
  ⟨add a.number b.number, add a.derivative b.derivative⟩

def Trace.mul {α : Type} (add mul : α → α → α) (a b : Trace α) : Trace α :=
  ⟨mul a.number b.number, add (mul a.derivative b.number) (mul a.number b.derivative)⟩

/-- `Record<'a, T>`: number, `history: Option<&WengertList>` (only its presence is modelled
    here) and index -/
structure Record (α : Type) where
  number : α
  hasHistory : Bool
  index : Nat
  deriving DecidableEq, Repr

/-- `Record::constant(c)`: no history, index 0; nothing is appended to any tape -/
def Record.constant {α : Type} (c : α) : Record α := ⟨c, false, 0⟩

def recordFromUsize (t : IntTy) (n : BitVec 64) : Option (Record (Val t)) :=
  match fromUsize t n with
  | some v => some (Record.constant v)
  | none => none

def recordZero (t : IntTy) : Record (Val t) := Record.constant (zero t)
def recordOne (t : IntTy) : Record (Val t) := Record.constant (one t)

/-! ### Floats: `n as f32`, `n as f64` -/

/-- number of significant bits of `n` (`0` for `0`) -/
def bitLen (n : Nat) : Nat := if n = 0 then 0 else n.log2 + 1

/-- Round-to-nearest, ties-to-even, of the natural number `n` to `p` significant bits
    (`p = 24` for `f32`, `53` for `f64`).  Returns `(m, e)` meaning `m * 2^e`, with `m ≤ 2^p`. -/
def roundNE (p : Nat) (n : Nat) : Nat × Nat :=
  let l := bitLen n
  if l ≤ p then (n, 0)
  else
    let s := l - p
    let q := n / 2 ^ s
    let r := n % 2 ^ s
    let half := 2 ^ (s - 1)
    if r > half ∨ (r = half ∧ q % 2 = 1) then (q + 1, s) else (q, s)

/-- the natural number denoted by a rounding result -/
def roundVal (me : Nat × Nat) : Nat := me.1 * 2 ^ me.2

/-- normalised significand of `m * 2^e` (`0 < m ≤ 2^p`): exactly `p` significant bits -/
def normSig (p m : Nat) : Nat :=
  if bitLen m ≤ p then m * 2 ^ (p - bitLen m) else m / 2 ^ (bitLen m - p)

/-- the exponent that goes with `normSig`: `m * 2^e = normSig p m * 2^(normExp p m e)` -/
def normExp (p m e : Nat) : Int :=
  if bitLen m ≤ p then (e : Int) - ((p - bitLen m : Nat) : Int)
  else (e : Int) + ((bitLen m - p : Nat) : Int)

/-- IEEE-754 bit pattern (sign 0) of the non-negative value `m * 2^e` that fits in `p`
    significant bits (`m ≤ 2^p`); `ebits` exponent bits: biased exponent field above the
    `p - 1` fraction bits (hidden leading one).  No subnormals/infinities arise for `n < 2^64`
    (`2^64 <` the largest finite `f32`). -/
def floatBits (p ebits : Nat) (me : Nat × Nat) : Nat :=
  let m := me.1
  let e := me.2
  if m = 0 then 0
  else
    let bias : Int := 2 ^ (ebits - 1) - 1
    (normExp p m e + ((p - 1 : Nat) : Int) + bias).toNat * 2 ^ (p - 1) + (normSig p m - 2 ^ (p - 1))

/-- the (significand, exponent) a finite non-negative IEEE-754 bit pattern denotes
    (value = significand * 2^exponent); exponent field `0` is zero / subnormal -/
def floatDecode (p ebits : Nat) (bits : Nat) : Nat × Int :=
  let E := bits / 2 ^ (p - 1)
  let frac := bits % 2 ^ (p - 1)
  let bias : Int := 2 ^ (ebits - 1) - 1
  if E = 0 then (frac, 1 - bias - ((p - 1 : Nat) : Int))
  else (2 ^ (p - 1) + frac, (E : Int) - bias - ((p - 1 : Nat) : Int))

/-- `from_usize_float!`: `Some(n as $T)` — always succeeds; the result is given as the pair
    (rounded value `m * 2^e`, IEEE bit pattern) -/
def floatFromUsize (p ebits : Nat) (n : Nat) : Option ((Nat × Nat) × Nat) :=
  some (roundNE p n, floatBits p ebits (roundNE p n))

/-- `<f32 as FromUsize>::from_usize(n).map(f32::to_bits)` -/
def f32FromUsize (n : Nat) : Option Nat := (floatFromUsize 24 8 n).map (·.2)
/-- `<f64 as FromUsize>::from_usize(n).map(f64::to_bits)` -/
def f64FromUsize (n : Nat) : Option Nat := (floatFromUsize 53 11 n).map (·.2)

end EasyMl.Num
