/-
  EasyMl.Model.View — code-shaped model of the tensor view adaptors and of every composition
  of them (`src/tensors/views.rs`, `views/{ranges,indexes,renamed,reverse,zip,traits}.rs`,
  `TensorAccess`/`TensorTranspose` in `src/tensors/indexing.rs`, `TensorRefMatrix` in
  `src/interop/mod.rs`, `IndexRange` in `src/matrices/views/ranges.rs`).

  * `View ν α` is the syntax tree of a composition: two kinds of leaves (a `Tensor`, a
    `Matrix` wrapped in `TensorRefMatrix`), one constructor per adaptor.  Every leaf carries a
    *leaf id*, so that "which element of which source" is a value: a `Cell = (leaf id, offset
    in the leaf's flat data)`.
  * `&S`, `&mut S`, `Box<S>`, `Box<dyn TensorRef/TensorMut>` (views/traits.rs) and `TensorView`
    delegate all four trait methods unchanged; they are the identity in the model (the
    correspondence check runs them as `via=` variants).
  * `View.shape` = `TensorRef::view_shape`, `View.get` = `TensorRef::get_reference` /
    `TensorMut::get_reference_mut` (the two are the same index computation in every adaptor),
    `View.getUnchecked` = `get_reference_unchecked(_mut)`, `View.layout` = `data_layout`.
    Each is written adaptor by adaptor in the shape of the Rust: the helper named after the Rust
    helper computes the source indexes, then the source is asked.
  * `mkRange … mkChain` are the constructors' validations (`none` = `Err(..)` or the documented
    panic).  `View.WF` is the invariant they establish (proved in Lemmas/View.lean) and the
    hypothesis of the C02 theorems.
  * `usize` arithmetic that the code performs is explicit (`cadd`/`csub`, `checked_add`,
    `saturating_add`), so a panic is a visible outcome (`Outcome.panic`).

  The model mirrors the code *with the repairs of DESIGN §8 #4–#7* (`try_reverse_indexes`,
  `IndexRange::try_mask` / `map_indexes_by_mask_checked`, saturating `clip`, checked
  `range_exceeds_bounds`) *and #12* (`TensorTranspose::data_layout`, found by this property's
  check, fixes/B-12) — all `fix:` commits in /repo; the legacy formulas are kept as `…Legacy` for
  reference — they are where the correspondence reported the defects on the unrepaired tree.

  Reused by C09 (iterators), C10, C13, C03.  Core Lean only.
-/
import EasyMl.Model.Tensor
import EasyMl.Model.Matrix

namespace EasyMl

variable {ν : Type} [DecidableEq ν] [Inhabited ν] {α : Type}

/-! ### Small helpers -/

/-- A cell of a source container: (leaf id, offset into the leaf's flat data). -/
abbrev Cell := Nat × Nat

/-- `x?` on an `Option` inside code that may also panic: run `f` on the value, pass `None` and
    panics through. -/
def obind {β γ : Type} (x : Outcome (Option β)) (f : β → Outcome (Option γ)) : Outcome (Option γ) :=
  match x with
  | .ok (some b) => f b
  | .ok none => .ok none
  | .panic k => .panic k

@[simp] theorem obind_some {β γ : Type} (b : β) (f : β → Outcome (Option γ)) :
    obind (.ok (some b)) f = f b := rfl
@[simp] theorem obind_none {β γ : Type} (f : β → Outcome (Option γ)) :
    obind (.ok none) f = .ok none := rfl
@[simp] theorem obind_panic {β γ : Type} (k : PanicKind) (f : β → Outcome (Option γ)) :
    obind (.panic k) f = .panic k := rfl

/-- lengths of a shape -/
def lens (shape : Shape ν) : List Nat := shape.map (·.2)

/-- names of a shape (`dimensions::names_of`) -/
def namesOf (shape : Shape ν) : List ν := shape.map (·.1)

/-- `dimensions::position_of` -/
def positionOf (shape : Shape ν) (name : ν) : Option Nat :=
  findPos (fun d => decide (d.1 = name)) shape

/-- `dimensions::contains` -/
def containsName (shape : Shape ν) (name : ν) : Bool := shape.any fun d => decide (d.1 = name)

/-- `InvalidShapeError::is_valid`: no duplicate names, no zero length. -/
def isValidShape (shape : Shape ν) : Bool :=
  !hasDuplicates (namesOf shape) && !shape.any (·.2 == 0)

/-! ### `IndexRange` (src/matrices/views/ranges.rs:119-165) -/

structure IndexRange where
  start : Nat
  length : Nat
  deriving DecidableEq, Repr, Inhabited

namespace IndexRange

/-- `IndexRange::map`: `if index < self.length { Some(index + self.start) } else { None }` -/
def map (r : IndexRange) (index : Nat) : Outcome (Option Nat) :=
  if index < r.length then
    match cadd index r.start with
    | .ok v => .ok (some v)
    | .panic k => .panic k
  else .ok none

/-- `IndexRange::mask` (used by the unchecked getters): `index + self.length` unchecked. -/
def mask (r : IndexRange) (index : Nat) : Outcome Nat :=
  if index < r.start then .ok index else cadd index r.length

/-- `IndexRange::try_mask` (fix of defect #5, used by the checked getters): `checked_add`. -/
def tryMask (r : IndexRange) (index : Nat) : Option Nat :=
  if index < r.start then some index
  else if index + r.length ≤ usizeMax then some (index + r.length) else none

/-- `IndexRange::clip` (with the fix of defect #6: `self.start.saturating_add(self.length)`). -/
def clip (r : IndexRange) (maxIndex : Nat) : IndexRange :=
  let end_ := min (r.start + r.length) usizeMax
  let end_ := min end_ maxIndex
  { r with length := end_ - r.start }

/-- `IndexRange::clip` as on the unchanged tree: `self.start + self.length` may overflow
    (defect #6). -/
def clipLegacy (r : IndexRange) (maxIndex : Nat) : Outcome IndexRange :=
  match cadd r.start r.length with
  | .ok end_ => .ok { r with length := min end_ maxIndex - r.start }
  | .panic k => .panic k

end IndexRange

/-! ### Index helpers, one per Rust helper -/

/-- `map_indexes_by_range` (views/ranges.rs:596): `mapped[d] = r.map(i)?` over the zip. -/
def mapIndexesByRange : List Nat → List IndexRange → Outcome (Option (List Nat))
  | i :: is, r :: rs =>
    obind (r.map i) fun m =>
      obind (mapIndexesByRange is rs) fun ms => .ok (some (m :: ms))
  | _, _ => .ok (some [])

/-- `map_indexes_by_mask` (views/ranges.rs:679), unchecked getters. -/
def mapIndexesByMask : List Nat → List IndexRange → Outcome (List Nat)
  | i :: is, r :: rs =>
    match r.mask i with
    | .ok m =>
      match mapIndexesByMask is rs with
      | .ok ms => .ok (m :: ms)
      | .panic k => .panic k
    | .panic k => .panic k
  | _, _ => .ok []

/-- `map_indexes_by_mask_checked` (fix of defect #5), checked getters: `mapped[d] = r.try_mask(i)?`. -/
def mapIndexesByMaskChecked : List Nat → List IndexRange → Option (List Nat)
  | i :: is, r :: rs =>
    match r.tryMask i with
    | some m =>
      match mapIndexesByMaskChecked is rs with
      | some ms => some (m :: ms)
      | none => none
    | none => none
  | _, _ => some []

/-- `compute_select_indexes_D_I` (views/indexes.rs:104): fill the `None` slots of `provided`
    with the supplied indexes in order; `None` if they run out. -/
def computeSelectIndexes : List (Option Nat) → List Nat → Option (List Nat)
  | [], _ => some []
  | some p :: ps, is => (computeSelectIndexes ps is).map (p :: ·)
  | none :: _, [] => none
  | none :: ps, i :: is => (computeSelectIndexes ps is).map (i :: ·)

/-- `compute_expansion_indexes_D_I` (views/indexes.rs:369).  `extra` is the not yet matched
    suffix of `self.extra` (the Rust keeps a counter into the array), `i` counts source
    dimensions, `d` is the dimensionality of the source (`used` has `d` slots; slots never
    written stay 0). -/
def computeExpansionIndexes (d : Nat) : List (Nat × ν) → List Nat → Nat → Outcome (Option (List Nat))
  | _, [], i => .ok (some (List.replicate (d - i) 0))
  | [], index :: rest, i =>
    if i < d then
      obind (computeExpansionIndexes d [] rest (i + 1)) fun used => .ok (some (index :: used))
    else .panic .index
  | (j, n) :: es, index :: rest, i =>
    if j = i then
      if index ≠ 0 then .ok none else computeExpansionIndexes d es rest i
    else if i < d then
      obind (computeExpansionIndexes d ((j, n) :: es) rest (i + 1)) fun used =>
        .ok (some (index :: used))
    else .panic .index

/-- `reverse_indexes` (views/reverse.rs:95), used by the unchecked getters (and, on the unchanged
    tree, by the checked ones: defect #4): `last_index - index` may underflow. -/
def reverseIndexes : List Nat → List Nat → List Bool → Outcome (List Nat)
  | index :: is, length :: ls, r :: rs =>
    match (if r then
            match csub length 1 with
            | .ok lastIndex => csub lastIndex index
            | .panic k => .panic k
          else .ok index) with
    | .ok m =>
      match reverseIndexes is ls rs with
      | .ok ms => .ok (m :: ms)
      | .panic k => .panic k
    | .panic k => .panic k
  | _, _, _ => .ok []

/-- `try_reverse_indexes` (fix of defect #4), checked getters: `None` when the index of a reversed
    dimension is out of bounds (`index >= length`), else `(length - 1) - index`. -/
def tryReverseIndexes : List Nat → List Nat → List Bool → Option (List Nat)
  | index :: is, length :: ls, r :: rs =>
    if r then
      if index ≥ length then none
      else (tryReverseIndexes is ls rs).map ((length - 1 - index) :: ·)
    else (tryReverseIndexes is ls rs).map (index :: ·)
  | _, _, _ => some []

/-- the loop of `indexing` in `tensor_stack_ref_impl` (views/zip.rs): all indexes except the one
    at position `along.0` (`d` is the running position). -/
def stackRest (along0 : Nat) : Nat → List Nat → List Nat
  | _, [] => []
  | d, index :: rest =>
    if d ≠ along0 then index :: stackRest along0 (d + 1) rest else stackRest along0 (d + 1) rest

/-- `indexing` of `TensorStack`: `(indexes[along.0], indexes_into_source)`. -/
def stackIndexing (indexes : List Nat) (along0 : Nat) : Nat × List Nat :=
  (indexes.getD along0 0, stackRest along0 0 indexes)

/-- the loop of `indexing` of `TensorChain` (views/zip.rs:1078): walk the sources' shapes,
    subtracting each length along the chained dimension until the index fits. -/
def chainIndexingGo (indexes : List Nat) (along : Nat) :
    List (Shape ν) → Nat → Nat → Option (Nat × List Nat)
  | [], _, _ => none
  | nextShape :: rest, source, i =>
    let length := (nextShape.getD along (default, 0)).2
    if i < length then some (source, indexes.set along i)
    else chainIndexingGo indexes along rest (source + 1) (i - length)

def chainIndexing (indexes : List Nat) (shapes : List (Shape ν)) (along : Nat) :
    Option (Nat × List Nat) :=
  chainIndexingGo indexes along shapes 0 (indexes.getD along 0)

/-! ### Shape helpers, one per `view_shape` implementation -/

/-- `TensorRange::view_shape`: `pair.1 = range.length` over the zip. -/
def rangeShape : Shape ν → List IndexRange → Shape ν
  | d :: ds, r :: rs => (d.1, r.length) :: rangeShape ds rs
  | ds, _ => ds

/-- `TensorMask::view_shape`: `pair.1 -= mask.length` over the zip (cannot underflow for a
    mask clipped at construction: `View.WF`). -/
def maskShape : Shape ν → List IndexRange → Shape ν
  | d :: ds, r :: rs => (d.1, d.2 - r.length) :: maskShape ds rs
  | ds, _ => ds

/-- `TensorIndex::view_shape`: the dimensions without a provided index. -/
def indexShape : Shape ν → List (Option Nat) → Shape ν
  | d :: ds, none :: ps => d :: indexShape ds ps
  | _ :: ds, some _ :: ps => indexShape ds ps
  | _, _ => []

/-- `TensorExpansion::view_shape`: walk the `slots = D + I` output slots; when the next extra
    dimension is for position `i` emit it (length 1), else emit the next source dimension.
    (The Rust would panic indexing `shape[i]` where this stops early; excluded by `View.WF`.) -/
def expansionShape : Nat → List (Nat × ν) → Shape ν → Nat → Shape ν
  | 0, _, _, _ => []
  | slots + 1, [], s :: rest, i => s :: expansionShape slots [] rest (i + 1)
  | _ + 1, [], [], _ => []
  | slots + 1, (j, n) :: es, shape, i =>
    if j = i then (n, 1) :: expansionShape slots es shape i
    else
      match shape with
      | s :: rest => s :: expansionShape slots ((j, n) :: es) rest (i + 1)
      | [] => []

/-- `TensorRename::view_shape`: `*element = (self.dimensions[i], element.1)`. -/
def renameShape : Shape ν → List ν → Shape ν
  | d :: ds, n :: ns => (n, d.2) :: renameShape ds ns
  | _, _ => []

/-- `TensorTranspose::shape`: `from_fn(|d| (names[d].0, order[d].1))`. -/
def transposeShape : Shape ν → Shape ν → Shape ν
  | n :: ns, o :: os => (n.1, o.2) :: transposeShape ns os
  | _, _ => []

/-- `view_shape_impl` of `TensorStack`: walk the `D + 1` slots, slot `along.0` is the new
    dimension of length `sources`. -/
def stackShape (along : Nat × ν) (sources : Nat) : Nat → Nat → Shape ν → Shape ν
  | 0, _, _ => []
  | slots + 1, d, shape =>
    if d = along.1 then (along.2, sources) :: stackShape along sources slots (d + 1) shape
    else
      match shape with
      | s :: rest => s :: stackShape along sources slots (d + 1) rest
      | [] => []

/-- `view_shape_impl` of `TensorChain`: the first shape with the length along the chained
    dimension replaced by the sum over all sources (`Iterator::sum`; overflow excluded by
    `View.WF`). -/
def chainShape (first : Shape ν) (shapes : List (Shape ν)) (along : Nat) : Shape ν :=
  match first[along]? with
  | some d => first.set along (d.1, (shapes.map fun s => (s.getD along (default, 0)).2).sum)
  | none => first

/-! ### `DataLayout` (views.rs:143) -/

inductive DataLayout (ν : Type) where
  | linear (order : List ν)
  | nonLinear
  | other
  deriving DecidableEq, Repr

/-- `matrices::views::DataLayout` (matrices/views.rs:165) -/
inductive MatrixLayout where
  | rowMajor
  | columnMajor
  | other
  deriving DecidableEq, Repr

/-- `MatrixRefTensor::data_layout` (interop/mod.rs:262): a 2-dimensional tensor source whose
    linear layout is its shape order is row major, the reverse order column major. -/
def matrixRefTensorLayout (sourceShape : Shape ν) (sourceLayout : DataLayout ν) :
    MatrixLayout :=
  let rowsDimension := (sourceShape.getD 0 (default, 0)).1
  let columnsDimension := (sourceShape.getD 1 (default, 0)).1
  if sourceLayout = .linear [rowsDimension, columnsDimension] then .rowMajor
  else if sourceLayout = .linear [columnsDimension, rowsDimension] then .columnMajor
  else .other

/-- `TensorRefMatrix::data_layout` (interop/mod.rs:157) -/
def tensorRefMatrixLayout (rowName columnName : ν) : MatrixLayout → DataLayout ν
  | .rowMajor => .linear [rowName, columnName]
  | .columnMajor => .linear [columnName, rowName]
  | .other => .other

/-! ### The syntax tree of a view -/

/-- A composition of view adaptors over tensors / matrices. -/
inductive View (ν α : Type) where
  /-- `Tensor<T, D>` itself (also `&Tensor`, `&mut Tensor`, boxed …) -/
  | tensor (id : Nat) (t : Tensor ν α)
  /-- `TensorRefMatrix<T, Matrix<T>, N>`: a matrix seen as a 2-dimensional tensor -/
  | matrix (id : Nat) (m : Matrix α) (rowName columnName : ν)
  /-- `TensorRefMatrix<T, MatrixRefTensor<T, S>, N>`: a 2-dimensional tensor view seen as a matrix
      (`MatrixRefTensor`, the only matrix source that can be column major) seen as a tensor again -/
  | matrixOf (source : View ν α) (rowName columnName : ν)
  /-- `MatrixRange { source, rows, columns }` over the matrix a 2-dimensional tensor view is
      (`MatrixRefTensor`), seen as a tensor again under the source's own names.  Between a
      `MatrixRefTensor` below and a `TensorRefMatrix` above, matrix adaptors stack directly; the
      model inserts the (neutral: C12 `cell_equations`, `layout_eq_spec`) tensor round trip after
      each so that every node is a tensor view.  Cells and shape are those of a `TensorRange`
      with the two clipped ranges (the getters are the same `IndexRange::map` calls); the layout
      is the *source's* (`MatrixRange::data_layout` forwards it), not `NonLinear`. -/
  | mrange (source : View ν α) (rows columns : IndexRange)
  /-- `MatrixReverse { source, rows, columns }`, likewise: cells of a `TensorReverse` (the getters
      share `try_reverse_indexes` / `reverse_indexes`), layout `Other`. -/
  | mreverse (source : View ν α) (rows columns : Bool)
  /-- `TensorMap { source, f }` (views/map.rs; crate-private, `TensorRef` only): exposes
      `f(source[idx])`.  Shape, index mapping and layout are the source's; the element handed out
      is `f` of the element in the designated cell (the library's one use is the projection
      `|(x, _)| x` in `Display for RecordTensor`).  It has no `TensorMut` implementation, so
      `View.write` through it has no counterpart in the code. -/
  | tmap (source : View ν α)
  /-- `TensorRange { source, range }` -/
  | range (source : View ν α) (range : List IndexRange)
  /-- `TensorMask { source, mask }` -/
  | mask (source : View ν α) (mask : List IndexRange)
  /-- `TensorIndex { source, provided }` -/
  | index (source : View ν α) (provided : List (Option Nat))
  /-- `TensorExpansion { source, extra }` (`extra` sorted by position at construction) -/
  | expansion (source : View ν α) (extra : List (Nat × ν))
  /-- `TensorRename { source, dimensions }` -/
  | rename (source : View ν α) (dimensions : List ν)
  /-- `TensorReverse { source, reversed }` -/
  | reverse (source : View ν α) (reversed : List Bool)
  /-- `TensorAccess { source, dimension_mapping }` -/
  | access (source : View ν α) (mapping : DimensionMappings)
  /-- `TensorTranspose { access: TensorAccess { source, dimension_mapping } }` -/
  | transpose (source : View ν α) (mapping : DimensionMappings)
  /-- `TensorStack { sources, along }` (arrays `[S; N]` and tuples of 2–4 sources) -/
  | stack (sources : List (View ν α)) (along : Nat × ν)
  /-- `TensorChain { sources, along }` (`along` already resolved to a position) -/
  | chain (sources : List (View ν α)) (along : Nat)

namespace View

/-! ### `view_shape` -/

mutual
/-- `TensorRef::view_shape` -/
def shape : View ν α → Shape ν
  | .tensor _ t => t.shape
  | .matrix _ m r c => [(r, m.rows), (c, m.columns)]
  | .matrixOf s r c =>
    -- `view_rows = source.view_shape()[0].1`, `view_columns = source.view_shape()[1].1`
    [(r, (s.shape.getD 0 (default, 0)).2), (c, (s.shape.getD 1 (default, 0)).2)]
  | .mrange s rows columns => rangeShape s.shape [rows, columns]
  | .mreverse s _ _ => s.shape
  | .tmap s => s.shape
  | .range s rs => rangeShape s.shape rs
  | .mask s ms => maskShape s.shape ms
  | .index s p => indexShape s.shape p
  | .expansion s e => expansionShape (s.shape.length + e.length) e s.shape 0
  | .rename s ns => renameShape s.shape ns
  | .reverse s _ => s.shape
  | .access s m => m.mapShapeToRequested s.shape
  | .transpose s m => transposeShape s.shape (m.mapShapeToRequested s.shape)
  | .stack ss along =>
    let first := (shapes ss).headD []
    stackShape along ss.length (first.length + 1) 0 first
  | .chain ss along => chainShape ((shapes ss).headD []) (shapes ss) along
/-- the `view_shape` of every source of a stack / chain -/
def shapes : List (View ν α) → List (Shape ν)
  | [] => []
  | v :: vs => v.shape :: shapes vs
end

/-! ### `get_reference` / `get_reference_mut` -/

/-- `TensorRef for Tensor`: `get_index_direct(..)?` then `self.data.get(i)`. -/
def tensorGet (id : Nat) (t : Tensor ν α) (indexes : List Nat) : Outcome (Option Cell) :=
  match t.offset indexes with
  | some i => if i < t.data.length then .ok (some (id, i)) else .ok none
  | none => .ok none

/-- `TensorRef for TensorRefMatrix` over a `Matrix`: `_try_get_reference(indexes[0], indexes[1])`
    (`&self.data[self.get_index(row, column)]` after the two bound checks). -/
def matrixGet (id : Nat) (m : Matrix α) (indexes : List Nat) : Outcome (Option Cell) :=
  let row := indexes.getD 0 0
  let column := indexes.getD 1 0
  if row < m.rows ∧ column < m.columns then
    if m.getIndex row column < m.data.length then .ok (some (id, m.getIndex row column))
    else .panic .index
  else .ok none

mutual
/-- `TensorRef::get_reference` (and `TensorMut::get_reference_mut`): the cell an index tuple
    resolves to, `none` when the view rejects it, or the panic the code would raise. -/
def get : View ν α → List Nat → Outcome (Option Cell)
  | .tensor id t, indexes => tensorGet id t indexes
  | .matrix id m _ _, indexes => matrixGet id m indexes
  | .matrixOf s _ _, indexes =>
    -- `self.source.try_get_reference(indexes[0], indexes[1])` = `source.get_reference([row, column])`
    s.get [indexes.getD 0 0, indexes.getD 1 0]
  | .mrange s rows columns, indexes =>
    -- `self.source.try_get_reference(self.rows.map(row)?, self.columns.map(column)?)`
    obind (mapIndexesByRange indexes [rows, columns]) fun mapped => s.get mapped
  | .mreverse s rows columns, indexes =>
    match tryReverseIndexes indexes (lens s.shape) [rows, columns] with
    | some mapped => s.get mapped
    | none => .ok none
  | .tmap s, indexes => s.get indexes      -- `Some((self.f)(self.source.get_reference(indexes)?))`
  | .range s rs, indexes => obind (mapIndexesByRange indexes rs) fun mapped => s.get mapped
  | .mask s ms, indexes =>
    match mapIndexesByMaskChecked indexes ms with
    | some mapped => s.get mapped
    | none => .ok none
  | .index s p, indexes =>
    match computeSelectIndexes p indexes with
    | some combined => s.get combined
    | none => .panic .unwrap
  | .expansion s e, indexes =>
    obind (computeExpansionIndexes s.shape.length e indexes 0) fun used => s.get used
  | .rename s _, indexes => s.get indexes
  | .reverse s r, indexes =>
    match tryReverseIndexes indexes (lens s.shape) r with
    | some mapped => s.get mapped
    | none => .ok none
  | .access s m, indexes => s.get (m.mapDimensionsToSource indexes)
  | .transpose s m, indexes => s.get (m.mapDimensionsToSource indexes)
  | .stack ss along, indexes =>
    let (source, rest) := stackIndexing indexes along.1
    getAt ss source rest
  | .chain ss along, indexes =>
    match chainIndexing indexes (shapes ss) along with
    | some (source, mapped) => getAt ss source mapped
    | none => .ok none
/-- `self.sources.get(source)?.get_reference(indexes)` -/
def getAt : List (View ν α) → Nat → List Nat → Outcome (Option Cell)
  | [], _, _ => .ok none
  | v :: _, 0, indexes => v.get indexes
  | _ :: vs, n + 1, indexes => getAt vs n indexes
end

/-! ### `get_reference_unchecked` / `get_reference_unchecked_mut`

  A `.panic .hook` outcome stands for *undefined behaviour* (`unwrap_unchecked` on `None`,
  `get_unchecked` past the end) — what theorem `view_unchecked_eq_checked` excludes for valid
  indexes. -/

def tensorGetUnchecked (id : Nat) (t : Tensor ν α) (indexes : List Nat) : Outcome Cell :=
  match t.offset indexes with
  | some i => if i < t.data.length then .ok (id, i) else .panic .hook
  | none => .panic .hook

def matrixGetUnchecked (id : Nat) (m : Matrix α) (indexes : List Nat) : Outcome Cell :=
  let i := m.getIndex (indexes.getD 0 0) (indexes.getD 1 0)
  if i < m.data.length then .ok (id, i) else .panic .hook

mutual
def getUnchecked : View ν α → List Nat → Outcome Cell
  | .tensor id t, indexes => tensorGetUnchecked id t indexes
  | .matrix id m _ _, indexes => matrixGetUnchecked id m indexes
  | .matrixOf s _ _, indexes => s.getUnchecked [indexes.getD 0 0, indexes.getD 1 0]
  | .mrange s rows columns, indexes =>
    match mapIndexesByRange indexes [rows, columns] with
    | .ok (some mapped) => s.getUnchecked mapped
    | .ok none => .panic .unwrap
    | .panic k => .panic k
  | .mreverse s rows columns, indexes =>
    match reverseIndexes indexes (lens s.shape) [rows, columns] with
    | .ok mapped => s.getUnchecked mapped
    | .panic k => .panic k
  | .tmap s, indexes => s.getUnchecked indexes
  | .range s rs, indexes =>
    match mapIndexesByRange indexes rs with
    | .ok (some mapped) => s.getUnchecked mapped
    | .ok none => .panic .unwrap
    | .panic k => .panic k
  | .mask s ms, indexes =>
    match mapIndexesByMask indexes ms with
    | .ok mapped => s.getUnchecked mapped
    | .panic k => .panic k
  | .index s p, indexes =>
    match computeSelectIndexes p indexes with
    | some combined => s.getUnchecked combined
    | none => .panic .unwrap
  | .expansion s e, indexes =>
    match computeExpansionIndexes s.shape.length e indexes 0 with
    | .ok (some used) => s.getUnchecked used
    | .ok none => .panic .unwrap
    | .panic k => .panic k
  | .rename s _, indexes => s.getUnchecked indexes
  | .reverse s r, indexes =>
    match reverseIndexes indexes (lens s.shape) r with
    | .ok mapped => s.getUnchecked mapped
    | .panic k => .panic k
  | .access s m, indexes => s.getUnchecked (m.mapDimensionsToSource indexes)
  | .transpose s m, indexes => s.getUnchecked (m.mapDimensionsToSource indexes)
  | .stack ss along, indexes =>
    let (source, rest) := stackIndexing indexes along.1
    getUncheckedAt ss source rest
  | .chain ss along, indexes =>
    match chainIndexing indexes (shapes ss) along with
    | some (source, mapped) => getUncheckedAt ss source mapped
    | none => .panic .unwrap
/-- `self.sources.get(source).unwrap().get_reference_unchecked(indexes)` (the tuple forms
    `panic!` explicitly instead of unwrapping; both are excluded for valid indexes) -/
def getUncheckedAt : List (View ν α) → Nat → List Nat → Outcome Cell
  | [], _, _ => .panic .unwrap
  | v :: _, 0, indexes => v.getUnchecked indexes
  | _ :: vs, n + 1, indexes => getUncheckedAt vs n indexes
end

/-! ### `data_layout` -/

/-- `TensorRename::data_layout` for a linear source: positions of the source's order in the
    source's shape, then the new names at those positions (explicit panic if a name of the order
    is not in the shape). -/
def renameLayout (sourceShape : Shape ν) (dimensions : List ν) (order : List ν) :
    Outcome (DataLayout ν) :=
  match order.mapM (positionOf sourceShape) with
  | some orderD => .ok (.linear (orderD.map fun i => dimensions.getD i default))
  | none => .panic .explicit

/-- `DimensionMappings::map_linear_data_layout_to_transposed` on the unchanged tree:
    `from_fn(|d| order[self.source_to_requested[d]])` — reads the order *positionally*, which is
    right only when the source's layout order is the order of its shape (defect #12). -/
def mapLinearDataLayoutToTransposedLegacy (m : DimensionMappings) (order : List ν) : List ν :=
  m.sourceToRequested.map fun i => order.getD i default

/-- `DimensionMappings::map_linear_data_layout_to_transposed` (with fix B-12): for each name of
    the source's order, the dimension of the source's shape it names, then the name that
    dimension is exposed under by the transposition: `source[source_to_requested[n]].0`
    (explicit panic if a name of the order is not in the shape). -/
def mapLinearDataLayoutToTransposed (m : DimensionMappings) (sourceShape : Shape ν)
    (order : List ν) : Outcome (DataLayout ν) :=
  match order.mapM (positionOf sourceShape) with
  | some ns =>
    .ok (.linear (ns.map fun n => (sourceShape.getD (m.sourceToRequested.getD n 0) (default, 0)).1))
  | none => .panic .explicit

/-- `TensorRef::data_layout` -/
def layout : View ν α → Outcome (DataLayout ν)
  | .tensor _ t => .ok (.linear (namesOf t.shape))
  | .matrix _ _ r c => .ok (.linear [r, c])        -- `Matrix` is `RowMajor`
  | .matrixOf s r c =>
    match s.layout with
    | .ok sourceLayout => .ok (tensorRefMatrixLayout r c (matrixRefTensorLayout s.shape sourceLayout))
    | .panic k => .panic k
  | .mrange s _ _ =>
    -- `MatrixRange::data_layout` = the source's, here `MatrixRefTensor`'s of `s`, translated back
    match s.layout with
    | .ok sourceLayout =>
      .ok (tensorRefMatrixLayout (s.shape.getD 0 (default, 0)).1 (s.shape.getD 1 (default, 0)).1
        (matrixRefTensorLayout s.shape sourceLayout))
    | .panic k => .panic k
  | .mreverse _ _ _ => .ok .other      -- `MatrixReverse::data_layout` = `Other`
  | .tmap s => s.layout
  | .range _ _ => .ok .nonLinear
  | .mask _ _ => .ok .nonLinear
  | .index _ _ => .ok .nonLinear
  | .expansion _ _ => .ok .nonLinear
  | .rename s ns =>
    match s.layout with
    | .ok (.linear order) => renameLayout s.shape ns order
    | other => other
  | .reverse _ _ => .ok .other
  | .access s _ => s.layout
  | .transpose s m =>
    match s.layout with
    | .ok (.linear order) => mapLinearDataLayoutToTransposed m s.shape order
    | other => other
  | .stack _ _ => .ok .nonLinear
  | .chain _ _ => .ok .nonLinear

/-! ### Leaves, reads and writes -/

mutual
/-- the leaves of the tree with their data, left to right -/
def leaves : View ν α → List (Nat × List α)
  | .tensor id t => [(id, t.data)]
  | .matrix id m _ _ => [(id, m.data)]
  | .matrixOf s _ _ => s.leaves
  | .mrange s _ _ => s.leaves
  | .mreverse s _ _ => s.leaves
  | .tmap s => s.leaves
  | .range s _ => s.leaves
  | .mask s _ => s.leaves
  | .index s _ => s.leaves
  | .expansion s _ => s.leaves
  | .rename s _ => s.leaves
  | .reverse s _ => s.leaves
  | .access s _ => s.leaves
  | .transpose s _ => s.leaves
  | .stack ss _ => leavesList ss
  | .chain ss _ => leavesList ss
def leavesList : List (View ν α) → List (Nat × List α)
  | [] => []
  | v :: vs => v.leaves ++ leavesList vs
end

/-- the ids of the leaves -/
def leafIds (v : View ν α) : List Nat := v.leaves.map (·.1)

/-- the element stored in a cell -/
def lookup (v : View ν α) (c : Cell) : Option α :=
  match v.leaves.find? (·.1 == c.1) with
  | some (_, data) => data[c.2]?
  | none => none

/-- reading through the view: `get_reference(indexes).map(|r| r.clone())` -/
def read (v : View ν α) (indexes : List Nat) : Outcome (Option α) :=
  obind (v.get indexes) fun c => .ok (v.lookup c)

mutual
/-- store `x` into cell `c` (the effect of `*view.get_reference_mut(indexes)? = x` when the
    index resolves to `c`): only the data of leaf `c.1` changes, at offset `c.2`. -/
def setCell (c : Cell) (x : α) : View ν α → View ν α
  | .tensor id t => if id = c.1 then .tensor id { t with data := t.data.set c.2 x } else .tensor id t
  | .matrix id m r cn =>
    if id = c.1 then .matrix id { m with data := m.data.set c.2 x } r cn else .matrix id m r cn
  | .matrixOf s r cn => .matrixOf (setCell c x s) r cn
  | .mrange s rows columns => .mrange (setCell c x s) rows columns
  | .mreverse s rows columns => .mreverse (setCell c x s) rows columns
  | .tmap s => .tmap (setCell c x s)
  | .range s p => .range (setCell c x s) p
  | .mask s p => .mask (setCell c x s) p
  | .index s p => .index (setCell c x s) p
  | .expansion s p => .expansion (setCell c x s) p
  | .rename s p => .rename (setCell c x s) p
  | .reverse s p => .reverse (setCell c x s) p
  | .access s p => .access (setCell c x s) p
  | .transpose s p => .transpose (setCell c x s) p
  | .stack ss p => .stack (setCellList c x ss) p
  | .chain ss p => .chain (setCellList c x ss) p
def setCellList (c : Cell) (x : α) : List (View ν α) → List (View ν α)
  | [] => []
  | v :: vs => setCell c x v :: setCellList c x vs
end

/-- writing through the view: `if let Some(r) = view.get_reference_mut(indexes) { *r = x }` -/
def write (v : View ν α) (indexes : List Nat) (x : α) : Outcome (Option (View ν α)) :=
  obind (v.get indexes) fun c => .ok (some (v.setCell c x))

/-! ### Constructors (the validations of `…::from`, `…::try_from`, `…::from_strict` …)

  `none` = the constructor returns `Err(..)` or raises its documented panic. -/

/-- `Tensor::from` / `try_from` as a view leaf -/
def mkTensor (id : Nat) (shape : Shape ν) (data : List α) : Option (View ν α) :=
  (Tensor.tryFrom shape data).map (.tensor id)

/-- `TensorRefMatrix::from` / `with_names` over a `Matrix` built by `from_flat_row_major` -/
def mkMatrix (id : Nat) (rows columns : Nat) (data : List α) (rowName columnName : ν) :
    Option (View ν α) :=
  match Matrix.fromFlatRowMajor rows columns data with
  | some m =>
    if isValidShape [(rowName, m.rows), (columnName, m.columns)] then
      some (.matrix id m rowName columnName)
    else none
  | none => none

/-- `TensorRefMatrix::from` / `with_names` over `MatrixRefTensor::from(source)` for a
    2-dimensional `source` -/
def mkMatrixOf (s : View ν α) (rowName columnName : ν) : Option (View ν α) :=
  if s.shape.length ≠ 2 then none
  else if isValidShape [(rowName, (s.shape.getD 0 (default, 0)).2),
      (columnName, (s.shape.getD 1 (default, 0)).2)] then some (.matrixOf s rowName columnName)
  else none

/-- a matrix-side adaptor between `MatrixRefTensor` and `TensorRefMatrix` -/
inductive MatOp where
  /-- `MatrixRange::from(source, rows, columns)` -/
  | range (rows columns : IndexRange)
  /-- `MatrixReverse::from(source, Reverse { rows, columns })` -/
  | reverse (rows columns : Bool)
  deriving DecidableEq, Repr

/-- the stack of matrix adaptors applied in order (`MatrixRange::from` clips both ranges to the
    size of its source and rejects nothing; `MatrixReverse::from` validates nothing) -/
def applyMatOps : View ν α → List MatOp → View ν α
  | s, [] => s
  | s, .range rows columns :: ops =>
    applyMatOps (.mrange s (rows.clip (s.shape.getD 0 (default, 0)).2)
      (columns.clip (s.shape.getD 1 (default, 0)).2)) ops
  | s, .reverse rows columns :: ops => applyMatOps (.mreverse s rows columns) ops

/-- `TensorRefMatrix::with_names(<matrix adaptors>(MatrixRefTensor::from(source)), names)`: the
    only validation is `with_names`' check of the final shape (an empty range anywhere leaves an
    empty matrix) -/
def mkMatrixStack (s : View ν α) (ops : List MatOp) (rowName columnName : ν) : Option (View ν α) :=
  if s.shape.length ≠ 2 then none else mkMatrixOf (applyMatOps s ops) rowName columnName

/-- one step of the `for (name, range) in ranges` loop of `from_named_to_all` -/
def namedStep (shape : Shape ν) (all : List (Option IndexRange)) (p : ν × IndexRange) :
    Option (List (Option IndexRange)) :=
  match positionOf shape p.1 with
  | some d => some (all.set d (some p.2))
  | none => none

def namedLoop (shape : Shape ν) :
    List (ν × IndexRange) → List (Option IndexRange) → Option (List (Option IndexRange))
  | [], all => some all
  | p :: ps, all =>
    match namedStep shape all p with
    | some all' => namedLoop shape ps all'
    | none => none

/-- `from_named_to_all` (views/ranges.rs:241): named pairs to one optional range per dimension;
    `none` for duplicate or unknown names. -/
def fromNamedToAll (shape : Shape ν) (ranges : List (ν × IndexRange)) :
    Option (List (Option IndexRange)) :=
  if hasDuplicates (ranges.map (·.1)) then none
  else namedLoop shape ranges (List.replicate shape.length none)

/-- the defaulting and clipping of `TensorRange::clip_from` -/
def clipRanges : Shape ν → List (Option IndexRange) → List IndexRange
  | d :: ds, o :: os => ((o.getD ⟨0, d.2⟩).clip d.2) :: clipRanges ds os
  | _, _ => []

/-- `TensorRange::from_all` / `clip_from` -/
def mkRangeAll (s : View ν α) (ranges : List (Option IndexRange)) : Option (View ν α) :=
  if ranges.length ≠ s.shape.length then none else
  let clipped := clipRanges s.shape ranges
  if isValidShape (rangeShape s.shape clipped) then some (.range s clipped) else none

/-- `TensorRange::from` -/
def mkRange (s : View ν α) (ranges : List (ν × IndexRange)) : Option (View ν α) :=
  match fromNamedToAll s.shape ranges with
  | some all => mkRangeAll s all
  | none => none

/-- `range_exceeds_bounds` (with the fix of defect #7: `checked_add`, overflow ⇒ exceeds) -/
def rangeExceedsBounds : Shape ν → List (Option IndexRange) → Bool
  | d :: ds, some r :: os =>
    (if r.start + r.length ≤ usizeMax then decide (r.start + r.length > d.2) else true)
      || rangeExceedsBounds ds os
  | _ :: ds, none :: os => rangeExceedsBounds ds os
  | _, _ => false

/-- `TensorRange::from_all_strict` -/
def mkRangeAllStrict (s : View ν α) (ranges : List (Option IndexRange)) : Option (View ν α) :=
  if ranges.length ≠ s.shape.length then none else
  if rangeExceedsBounds s.shape ranges then none else mkRangeAll s ranges

/-- `TensorRange::from_strict` -/
def mkRangeStrict (s : View ν α) (ranges : List (ν × IndexRange)) : Option (View ν α) :=
  match fromNamedToAll s.shape ranges with
  | some all => mkRangeAllStrict s all
  | none => none

/-- the defaulting and clipping of `TensorMask::clip_from` -/
def clipMasks : Shape ν → List (Option IndexRange) → List IndexRange
  | d :: ds, o :: os => ((o.getD ⟨0, 0⟩).clip d.2) :: clipMasks ds os
  | _, _ => []

/-- `TensorMask::from_all` / `clip_from` -/
def mkMaskAll (s : View ν α) (masks : List (Option IndexRange)) : Option (View ν α) :=
  if masks.length ≠ s.shape.length then none else
  let clipped := clipMasks s.shape masks
  if isValidShape (maskShape s.shape clipped) then some (.mask s clipped) else none

/-- `TensorMask::from` -/
def mkMask (s : View ν α) (masks : List (ν × IndexRange)) : Option (View ν α) :=
  match fromNamedToAll s.shape masks with
  | some all => mkMaskAll s all
  | none => none

/-- `TensorMask::from_all_strict` -/
def mkMaskAllStrict (s : View ν α) (masks : List (Option IndexRange)) : Option (View ν α) :=
  if masks.length ≠ s.shape.length then none else
  if rangeExceedsBounds s.shape masks then none else mkMaskAll s masks

/-- `TensorMask::from_strict` -/
def mkMaskStrict (s : View ν α) (masks : List (ν × IndexRange)) : Option (View ν α) :=
  match fromNamedToAll s.shape masks with
  | some all => mkMaskAllStrict s all
  | none => none

/-- the `for (name, index) in &provided_indexes` loop of `TensorIndex::from` -/
def indexLoop (shape : Shape ν) : List (ν × Nat) → List (Option Nat) → Option (List (Option Nat))
  | [], provided => some provided
  | (name, ix) :: ps, provided =>
    match findPos (fun d => decide (d.1 = name) && decide (ix < d.2)) shape with
    | some i => indexLoop shape ps (provided.set i (some ix))
    | none => none

/-- `TensorIndex::from` (panics where this is `none`) -/
def mkIndex (s : View ν α) (providedIndexes : List (ν × Nat)) : Option (View ν α) :=
  if providedIndexes.length > s.shape.length then none
  else if hasDuplicates (providedIndexes.map (·.1)) then none
  else
    match indexLoop s.shape providedIndexes (List.replicate s.shape.length none) with
    | some provided => some (.index s provided)
    | none => none

/-- stable insertion sort by ascending position (`dimensions.sort_by(|a, b| a.0.cmp(&b.0))`;
    slice `sort_by` is stable) -/
def insertByPosition (x : Nat × ν) : List (Nat × ν) → List (Nat × ν)
  | [] => [x]
  | y :: ys => if x.1 ≤ y.1 then x :: y :: ys else y :: insertByPosition x ys

def sortByPosition : List (Nat × ν) → List (Nat × ν)
  | [] => []
  | x :: xs => insertByPosition x (sortByPosition xs)

/-- `TensorExpansion::from` (panics where this is `none`) -/
def mkExpansion (s : View ν α) (extra : List (Nat × ν)) : Option (View ν α) :=
  if hasDuplicates (extra.map (·.2)) then none
  else if extra.any (fun e => decide (e.1 > s.shape.length) || containsName s.shape e.2) then none
  else some (.expansion s (sortByPosition extra))

/-- `TensorRename::from` (panics where this is `none`) -/
def mkRename (s : View ν α) (dimensions : List ν) : Option (View ν α) :=
  if dimensions.length ≠ s.shape.length then none
  else if hasDuplicates dimensions then none
  else some (.rename s dimensions)

/-- `TensorReverse::from` (panics where this is `none`) -/
def mkReverse (s : View ν α) (dimensions : List ν) : Option (View ν α) :=
  if hasDuplicates dimensions then none
  else if dimensions.any (fun d => !containsName s.shape d) then none
  else some (.reverse s (s.shape.map fun d => dimensions.contains d.1))

/-- `TensorAccess::try_from` / `from` -/
def mkAccess (s : View ν α) (dimensions : List ν) : Option (View ν α) :=
  (DimensionMappings.new s.shape dimensions).map (.access s)

/-- `TensorTranspose::try_from` / `from` -/
def mkTranspose (s : View ν α) (dimensions : List ν) : Option (View ν α) :=
  (DimensionMappings.new s.shape dimensions).map (.transpose s)

/-- `TensorStack::from` (arrays and tuples; panics where this is `none`) -/
def mkStack (ss : List (View ν α)) (along : Nat × ν) : Option (View ν α) :=
  match shapes ss with
  | [] => none
  | first :: rest =>
    if along.1 > first.length then none
    else if containsName first along.2 then none
    else if rest.any (· ≠ first) then none
    else some (.stack ss along)

/-- the per-dimension test of `validate_shapes_similar` -/
def similarGo (along : Nat) : Nat → Shape ν → Shape ν → Bool
  | d, s :: ss, f :: fs =>
    (if d = along then decide (s.1 = f.1) else decide (s = f)) && similarGo along (d + 1) ss fs
  | _, _, _ => true

/-- `TensorChain::from` (arrays and tuples; panics where this is `none`) -/
def mkChain (ss : List (View ν α)) (along : ν) : Option (View ν α) :=
  match shapes ss with
  | [] => none
  | first :: rest =>
    if first.length = 0 then none
    else
      match positionOf first along with
      | none => none
      | some a =>
        if rest.any (fun s => !(decide (s.length = first.length) && similarGo a 0 s first)) then none
        else some (.chain ss a)

/-! ### Mutators of an existing view

  The only public methods that change an adaptor after its construction are
  `TensorRename::set_names` (a validating setter) and the `source_ref_mut` accessors of
  `TensorRename`, `TensorReverse` (and of `TensorView` / `TensorMap`, which are not adaptors of
  this model), which hand out `&mut S`: through it the source can be modified or replaced by any
  other value of the same type `S`, in particular by a view of another shape of the same
  dimensionality (`std::mem::swap`).  Every other field of every adaptor is private and fixed. -/

/-- `TensorRename::set_names` (views/renamed.rs:98): panics — *before* assigning — when the new
    names are not unique; the first component is the view that exists afterwards. -/
def setNames : View ν α → List ν → View ν α × Outcome Unit
  | .rename s old, dimensions =>
    if hasDuplicates dimensions then (.rename s old, .panic .explicit)
    else (.rename s dimensions, .ok ())
  | v, _ => (v, .ok ())

/-- `TensorRename::get_names` -/
def getNames : View ν α → Option (List ν)
  | .rename _ dimensions => some dimensions
  | _ => none

/-- the sources an adaptor owns: what `source()` / `source_ref()` (`sources()` / `sources_ref()`
    for stack and chain) hand out; leaves have none, `TensorRange`, `TensorMask` and
    `TensorRefMatrix` offer no accessor -/
def sources : View ν α → List (View ν α)
  | .tensor _ _ => []
  | .matrix _ _ _ _ => []
  | .matrixOf _ _ _ => []
  | .mrange _ _ _ => []
  | .mreverse _ _ _ => []
  | .tmap _ => []        -- crate-private, its accessors are dead code
  | .range _ _ => []     -- `TensorRange` / `TensorMask` offer no accessor
  | .mask _ _ => []
  | .index s _ => [s]
  | .expansion s _ => [s]
  | .rename s _ => [s]
  | .reverse s _ => [s]
  | .access s _ => [s]
  | .transpose s _ => [s]
  | .stack ss _ => ss
  | .chain ss _ => ss

/-- `TensorView::length_of` / `dimensions::length_of` -/
def lengthOf (shape : Shape ν) (dimension : ν) : Option Nat :=
  (shape.find? fun d => decide (d.1 = dimension)).map (·.2)

/-- `TensorView::last_index_of` / `dimensions::last_index_of`: `length.saturating_sub(1)` -/
def lastIndexOf (shape : Shape ν) (dimension : ν) : Option Nat :=
  (lengthOf shape dimension).map (· - 1)

/-- the source behind `source_ref_mut` (`TensorRename`, `TensorReverse`) -/
def sourceOf : View ν α → Option (View ν α)
  | .rename s _ => some s
  | .reverse s _ => some s
  | _ => none

/-- `*view.source_ref_mut() = source` (or `std::mem::swap` with it): the adaptor keeps its own
    fields and looks at the new source from then on -/
def replaceSource : View ν α → View ν α → View ν α
  | .rename _ dimensions, s => .rename s dimensions
  | .reverse _ reversed, s => .reverse s reversed
  | v, _ => v

/-- `TensorAccess::from_memory_order`: `None` unless the layout is linear; the `unwrap_or_else`
    panic is `.panic .explicit`. -/
def fromMemoryOrder (s : View ν α) : Outcome (Option (View ν α)) :=
  match s.layout with
  | .ok (.linear order) =>
    match mkAccess s order with
    | some a => .ok (some a)
    | none => .panic .explicit
  | .ok _ => .ok none
  | .panic k => .panic k

/-- a sequence of writes through one view, each `if let Some(r) = view.get_reference_mut(idx)
    { *r = x }` — what a loop over `iter_reference_mut`, `map_mut`, `map_mut_with_index` (also one
    cut short by a panicking closure) does to the leaves -/
def writeMany : View ν α → List (List Nat × α) → Outcome (View ν α)
  | v, [] => .ok v
  | v, w :: rest =>
    match v.write w.1 w.2 with
    | .ok (some v') => writeMany v' rest
    | .ok none => writeMany v rest
    | .panic k => .panic k

/-- the value the last write at `idx` stored, if there was one -/
def lastWrite : List (List Nat × α) → List Nat → Option α
  | [], _ => none
  | w :: rest, idx =>
    match lastWrite rest idx with
    | some x => some x
    | none => if w.1 = idx then some w.2 else none

end View

/-! ### Legacy formulas (what the unchanged tree executes; kept for the notes and examples) -/

/-- `TensorMask::get_reference` on the unchanged tree: `map_indexes_by_mask` (defect #5). -/
def maskGetLegacyIndexes (indexes : List Nat) (masks : List IndexRange) : Outcome (List Nat) :=
  mapIndexesByMask indexes masks

/-- `TensorReverse::get_reference` on the unchanged tree: `reverse_indexes` (defect #4). -/
def reverseGetLegacyIndexes (indexes lengths : List Nat) (reversed : List Bool) :
    Outcome (List Nat) :=
  reverseIndexes indexes lengths reversed

/-- `range_exceeds_bounds` on the unchanged tree (defect #7) -/
def rangeExceedsBoundsLegacy : Shape ν → List (Option IndexRange) → Outcome Bool
  | d :: ds, some r :: os =>
    match cadd r.start r.length with
    | .ok e => if e > d.2 then .ok true else rangeExceedsBoundsLegacy ds os
    | .panic k => .panic k
  | _ :: ds, none :: os => rangeExceedsBoundsLegacy ds os
  | _, _ => .ok false

end EasyMl
