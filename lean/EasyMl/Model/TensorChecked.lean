/-
  EasyMl.Model.TensorChecked — the `usize` arithmetic of tensor construction and addressing with
  its overflow behaviour made explicit (C01).  `B` is the largest representable value
  (`usize::MAX`; kept a parameter so the theorems hold for every word size).

    src/tensors/dimensions.rs   checked_elements (try_fold with checked_mul)
    src/tensors/mod.rs          validate_dimensions (`Some(data_len) == checked_elements(shape)`),
                                compute_strides (`.product()`: overflow-checked in the dev profile),
                                get_index_direct (`index += n * strides[d]` after the bound check)

  `none` at the outer level of the last two means "the arithmetic overflowed" (a panic in the dev
  profile, wrap-around in release).  Core Lean only.
-/
import EasyMl.Model.Tensor

namespace EasyMl

variable {ν : Type} [DecidableEq ν] {α : Type}

/-- `usize::checked_mul` -/
def checkedMul (B a b : Nat) : Option Nat := if a * b ≤ B then some (a * b) else none

/-- `usize::checked_add` -/
def checkedAdd (B a b : Nat) : Option Nat := if a + b ≤ B then some (a + b) else none

/-- `iter.try_fold(acc, |e, l| e.checked_mul(l))` -/
def checkedProd (B : Nat) : Nat → List Nat → Option Nat
  | acc, [] => some acc
  | acc, l :: ls =>
    match checkedMul B acc l with
    | some a => checkedProd B a ls
    | none => none

/-- `dimensions::checked_elements` -/
def checkedElements (B : Nat) (shape : Shape ν) : Option Nat := checkedProd B 1 (shape.map (·.2))

/-- `InvalidShapeError::validate_dimensions` as it is since the overflow fix: the count test is
    `Some(data_len) == checked_elements(shape)`. -/
def validateDimensionsChecked (B : Nat) (shape : Shape ν) (dataLen : Nat) : Option ShapeError :=
  if checkedElements B shape ≠ some dataLen then some .wrongCount
  else if hasDuplicates (shape.map (·.1)) then some .duplicateNames
  else if shape.any (·.2 == 0) then some .zeroLength
  else none

/-- `compute_strides` with every multiplication checked; `none` = some product overflowed. -/
def computeStridesChecked (B : Nat) (shape : Shape ν) : Option (List Nat) :=
  (List.range shape.length).mapM fun d => checkedProd B 1 ((shape.drop (d + 1)).map (·.2))

/-- `get_index_direct` with the multiplication and the addition checked: outer `none` = overflow,
    inner `none` = index out of bounds. -/
def getIndexDirectCheckedGo (B : Nat) : List Nat → List Nat → List Nat → Nat → Option (Option Nat)
  | n :: is, s :: ss, l :: ls, acc =>
    if n ≥ l then some none
    else
      match checkedMul B n s with
      | none => none
      | some p =>
        match checkedAdd B acc p with
        | none => none
        | some acc' => getIndexDirectCheckedGo B is ss ls acc'
  | _, _, _, acc => some (some acc)

def getIndexDirectChecked (B : Nat) (indexes strides : List Nat) (shape : Shape ν) :
    Option (Option Nat) :=
  getIndexDirectCheckedGo B indexes strides (shape.map (·.2)) 0

end EasyMl
