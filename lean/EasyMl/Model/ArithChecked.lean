/-
  EasyMl.Model.ArithChecked — the generic arithmetic model (Model/Arith.lean) instantiated at the
  plain integer types with overflow checks on (`Num.pAdd`, `pSub`, `pMul`, `pDiv` of
  Model/Numeric.lean: the mathematical result if it fits, `panic(overflow)` otherwise; division by
  zero panics).  An element is the *outcome* of computing it (`Ck t = Outcome (Val t)`); the
  operators are strict, left operand first, exactly like evaluating `x ⊕ y` in Rust; a whole
  operator result is the first panic of its cells in evaluation order (`collapse`).
  Core Lean only (not used by the driver: the integer boundary lines of the correspondence are
  answered by a harness-side oracle; the theorems of Props/C03 state what that oracle checks).
-/
import EasyMl.Model.Arith
import EasyMl.Model.Numeric

namespace EasyMl.Arith
open EasyMl EasyMl.Num

/-- the outcome of computing an element of the integer type `t` -/
abbrev Ck (t : IntTy) := Outcome (Val t)

/-- a strict binary operator: left operand, then right operand, then the operation -/
def lift2 {t : IntTy} (f : Val t → Val t → Outcome (Val t)) (x y : Ck t) : Ck t :=
  Outcome.bind x fun a => Outcome.bind y fun b => f a b

/-- unary minus of a plain integer with overflow checks (`-MIN` overflows) -/
def pNeg (t : IntTy) (a : Val t) : Outcome (Val t) := checked t (-(toInt t a))

instance (t : IntTy) : Add (Ck t) := ⟨lift2 (pAdd t)⟩
instance (t : IntTy) : Sub (Ck t) := ⟨lift2 (pSub t)⟩
instance (t : IntTy) : Mul (Ck t) := ⟨lift2 (pMul t)⟩
instance (t : IntTy) : Div (Ck t) := ⟨lift2 (pDiv t)⟩
instance (t : IntTy) : Neg (Ck t) := ⟨fun x => Outcome.bind x (pNeg t)⟩
instance (t : IntTy) : Zero (Ck t) := ⟨.ok (zero t)⟩

/-- the result of a whole operation: its cells in evaluation order, the first panic wins -/
def collapse {t : IntTy} (cells : List (Ck t)) : Outcome (List (Val t)) := outcomeMapM id cells

/-- `a₀·b₀ + a₁·b₁ + … + aₙ·bₙ` with overflow checks, in the order `scalar_product` evaluates it:
    each product right before it is added to the running total -/
def ckLeftSum {t : IntTy} (f : Nat → Outcome (Val t)) : Nat → Outcome (Val t)
  | 0 => f 0
  | n + 1 => Outcome.bind (ckLeftSum f n) fun acc => Outcome.bind (f (n + 1)) fun p => pAdd t acc p

end EasyMl.Arith
