/-
  EasyMl.Model.RecordContainer — code-shaped model of `RecordContainer` (`RecordTensor`,
  `RecordMatrix`): src/differentiation/container_record/{mod.rs, container_operations.rs,
  container_operations/swapped.rs, iterators.rs}.

  A container is modelled *as seen through its source view*: the view's shape, the `(number,
  tape position)` pairs in the view's row-major order (the order of `TensorIterator` /
  `RowMajorIterator`, which every container operation uses), and the optional tape.  Which
  elements of an underlying owned container a view shows (and in which order) is C02's subject;
  the driver computes it per operation.

  * the batch appenders `unary`, `binary_both_history`, `binary_x_history`, `binary_y_history`
    (mod.rs:642-768) as `Tape.batchUnary/batchBoth/batchX/batchY`;
  * `variables`, `constants`, `reset`; `unary`, `binary`, `unary_assign`, `binary_left_assign`,
    `binary_right_assign`; the operator impls (`+ -` with their `are_same_list` assertion,
    `elementwise_multiply/divide`, scalar forms, swapped forms, `Neg`, real functions, `Pow`);
  * `record_scalar_product`, `record_tensor_matrix_multiply`, `record_matrix_matrix_multiply`
    — **as repaired** by fixes/G-11 and fixes/G-14 (`Cont.matmulTensor`, `Cont.matmulMatrix`)
    and, separately, as written at the pinned commit (`…AsWritten`);
  * `AsRecords` iteration, `from_iter`, `from_iters`, `map`, `map_with_index`, `map_mut`,
    `map_mut_with_index`, `derivatives`, `derivatives_for`, `Derivatives::at_tensor`.

  Builds on the scalar tape model (Model/Tape.lean).  Core Lean only.
-/
import EasyMl.Model.Tape
import EasyMl.Model.Tensor

namespace EasyMl

/-! ## Batch appenders (mod.rs:642-768)

Each holds one borrow of the tape and calls `append_unary` / `append_binary` once per element,
in iteration order.  `total` only sizes the result vector; the iterators have exactly `total`
elements for every caller (`Cont.WF`). -/

namespace Tape
variable {R : Type}

/-- `fn unary` (mod.rs:642): `ys[i] = (fx(x), history.append_unary(parent, dfx_dx(x)))`. -/
def batchUnary [Zero R] (fx dfx : R → R) : List (R × Nat) → Tape R → List (R × Nat) × Tape R
  | [], t => ([], t)
  | (x, parent) :: rest, t =>
    let (newIndex, t1) := t.appendUnary parent (dfx x)
    let (ys, t2) := batchUnary fx dfx rest t1
    ((fx x, newIndex) :: ys, t2)

/-- `fn binary_both_history` (mod.rs:672) over the zipped iterators. -/
def batchBoth (fxy dfx dfy : R → R → R) :
    List ((R × Nat) × (R × Nat)) → Tape R → List (R × Nat) × Tape R
  | [], t => ([], t)
  | ((x, parent1), (y, parent2)) :: rest, t =>
    let (newIndex, t1) := t.appendBinary parent1 (dfx x y) parent2 (dfy x y)
    let (zs, t2) := batchBoth fxy dfx dfy rest t1
    ((fxy x y, newIndex) :: zs, t2)

/-- `fn binary_x_history` (mod.rs:706): only the left operand is tracked. -/
def batchX [Zero R] (fxy dfx : R → R → R) :
    List ((R × Nat) × (R × Nat)) → Tape R → List (R × Nat) × Tape R
  | [], t => ([], t)
  | ((x, parent1), (y, _)) :: rest, t =>
    let (newIndex, t1) := t.appendUnary parent1 (dfx x y)
    let (zs, t2) := batchX fxy dfx rest t1
    ((fxy x y, newIndex) :: zs, t2)

/-- `fn binary_y_history` (mod.rs:739): only the right operand is tracked. -/
def batchY [Zero R] (fxy dfy : R → R → R) :
    List ((R × Nat) × (R × Nat)) → Tape R → List (R × Nat) × Tape R
  | [], t => ([], t)
  | ((x, _), (y, parent2)) :: rest, t =>
    let (newIndex, t1) := t.appendUnary parent2 (dfy x y)
    let (zs, t2) := batchY fxy dfy rest t1
    ((fxy x y, newIndex) :: zs, t2)

end Tape

/-! ## The container -/

/-- `RecordContainer { numbers, history }` (mod.rs:66) through its source view. -/
structure Cont (R : Type) where
  /-- `numbers.shape()`; a `RecordMatrix` of size `(r, c)` has the shape `[(_, r), (_, c)]` -/
  shape : Shape String
  /-- `(number, index)` in row-major order of the view -/
  elems : List (R × Nat)
  /-- id of the `WengertList`, `None` for constants -/
  history : Option Nat
  deriving Repr, Inhabited

/-- `calculate_incrementing_indexes` (mod.rs:92). -/
def incrementingIndexes (startingIndex total : Nat) : List Nat :=
  (List.range total).map fun i => startingIndex + i

/-- `are_same_list` (record_operations.rs:121): two tapes are accepted when one side has none. -/
def areSameList : Option Nat → Option Nat → Bool
  | some a, some b => a == b
  | _, _ => true

/-- `are_exact_same_list` (record_operations.rs:135). -/
def areExactSameList : Option Nat → Option Nat → Bool
  | none, none => true
  | some a, some b => a == b
  | _, _ => false

namespace Cont
variable {R : Type}

/-- `self.elements()` -/
def total (c : Cont R) : Nat := elements c.shape

def numbers (c : Cont R) : List R := c.elems.map (·.1)
def indexes (c : Cont R) : List Nat := c.elems.map (·.2)
def isConstant (c : Cont R) : Bool := c.history.isNone

/-- The containers the constructors and operations produce: one element per cell of the shape, at
    least one element (a tensor or matrix is never empty), constants carry index 0. -/
structure WF (c : Cont R) : Prop where
  length_eq : c.elems.length = elements c.shape
  nonempty : c.elems ≠ []
  const_zero : c.history = none → ∀ e ∈ c.elems, e.2 = 0

/-- `AsRecords` (iterators.rs:297-313): `Record::from_existing(number, self.history)` per element. -/
def toRecs (c : Cont R) : List (Rec R) := c.elems.map fun e => ⟨e.1, c.history, e.2⟩

/-- `RecordTensor::constants` / `RecordMatrix::constants` (mod.rs:115, 392). -/
def constants (shape : Shape String) (values : List R) : Cont R :=
  ⟨shape, values.map fun x => (x, 0), none⟩

section Basic
variable [Zero R]

/-- `RecordTensor::variables` / `RecordMatrix::variables` (mod.rs:149, 426):
    `append_nullary_repeating(total)`, then the values zipped with the incrementing indexes. -/
def variables (h : Nat) (shape : Shape String) (values : List R) (w : World R) : Cont R × World R :=
  let total := elements shape
  let (startingIndex, t) := (w h).appendNullaryRepeating total
  (⟨shape, values.zip (incrementingIndexes startingIndex total), some h⟩, w.update h t)

/-- `reset` (mod.rs:349, 600): constants are left alone; otherwise a fresh block of nullary
    entries, the old indexes are overwritten in iteration order. -/
def reset (c : Cont R) (w : World R) : Cont R × World R :=
  match c.history with
  | none => (c, w)
  | some h =>
    let total := c.total
    let (startingIndex, t) := (w h).appendNullaryRepeating total
    ({ c with elems := (c.elems.zip (incrementingIndexes startingIndex total)).map
                fun (e, i) => (e.1, i) },
     w.update h t)

/-- `RecordTensor::unary` / `RecordMatrix::unary` (mod.rs:845, 1755). -/
def unary (c : Cont R) (fx dfx : R → R) (w : World R) : Cont R × World R :=
  match c.history with
  | none => (constants c.shape (c.elems.map fun e => fx e.1), w)
  | some h =>
    let (ys, t) := Tape.batchUnary fx dfx c.elems (w h)
    (⟨c.shape, ys, some h⟩, w.update h t)

/-- `unary_assign` (mod.rs:1354, 2189): constants keep their stored index. -/
def unaryAssign (c : Cont R) (fx dfx : R → R) (w : World R) : Cont R × World R :=
  match c.history with
  | none => ({ c with elems := c.elems.map fun e => (fx e.1, e.2) }, w)
  | some h =>
    let (ys, t) := Tape.batchUnary fx dfx c.elems (w h)
    ({ c with elems := ys, history := some h }, w.update h t)

/-- `RecordTensor::binary` / `RecordMatrix::binary` (mod.rs:962, 1873): the shape test comes
    first; the same-tape assertion only in the arm where both sides have a tape. -/
def binary (a b : Cont R) (fxy dfx dfy : R → R → R) (w : World R) : Outcome (Cont R × World R) :=
  if a.shape ≠ b.shape then .panic .explicit else
  match a.history, b.history with
  | none, none =>
    .ok (constants a.shape ((a.elems.zip b.elems).map fun (x, y) => fxy x.1 y.1), w)
  | some h, none =>
    let (zs, t) := Tape.batchX fxy dfx (a.elems.zip b.elems) (w h)
    .ok (⟨a.shape, zs, some h⟩, w.update h t)
  | none, some h =>
    let (zs, t) := Tape.batchY fxy dfy (a.elems.zip b.elems) (w h)
    .ok (⟨a.shape, zs, some h⟩, w.update h t)
  | some h, some h' =>
    if h ≠ h' then .panic .explicit else
    let (zs, t) := Tape.batchBoth fxy dfx dfy (a.elems.zip b.elems) (w h)
    .ok (⟨a.shape, zs, some h⟩, w.update h t)

/-- `binary_left_assign` (mod.rs:1382, 2217): the results overwrite the left container's
    elements in iteration order, its tape becomes the one used. -/
def binaryLeftAssign (a b : Cont R) (fxy dfx dfy : R → R → R) (w : World R) :
    Outcome (Cont R × World R) :=
  if a.shape ≠ b.shape then .panic .explicit else
  match a.history, b.history with
  | none, none =>
    .ok ({ a with elems := (a.elems.zip b.elems).map fun (x, y) => (fxy x.1 y.1, 0) }, w)
  | some h, none =>
    let (zs, t) := Tape.batchX fxy dfx (a.elems.zip b.elems) (w h)
    .ok ({ a with elems := zs, history := some h }, w.update h t)
  | none, some h =>
    let (zs, t) := Tape.batchY fxy dfy (a.elems.zip b.elems) (w h)
    .ok ({ a with elems := zs, history := some h }, w.update h t)
  | some h, some h' =>
    if h ≠ h' then .panic .explicit else
    let (zs, t) := Tape.batchBoth fxy dfx dfy (a.elems.zip b.elems) (w h)
    .ok ({ a with elems := zs, history := some h }, w.update h t)

/-- `binary_right_assign` (mod.rs:1653, 2464): `rhs.binary_left_assign(self, …)` with every
    function's arguments swapped; the result is the new right container. -/
def binaryRightAssign (a b : Cont R) (fxy dfx dfy : R → R → R) (w : World R) :
    Outcome (Cont R × World R) :=
  b.binaryLeftAssign a (fun y x => fxy x y) (fun y x => dfy x y) (fun y x => dfx x y) w

end Basic

/-! ### user closures that panic

`unary`, `binary`, their assigning forms, `map` and `map_mut` call the user's functions once per
element, in iteration order.  When a call panics the operation is abandoned: the tape keeps what
the earlier elements appended (the borrow of the tape is released by unwinding), no container is
produced, the operands are untouched — except for `map_mut`, which has already overwritten the
earlier elements in place.  `k` is the number of elements processed before the panic. -/

section Panicking
variable [Zero R]

/-- `unary` / `unary_assign` whose `fx` panics at element `k`: constants touch no tape. -/
def unaryPanicAt (c : Cont R) (fx dfx : R → R) (k : Nat) (w : World R) : World R :=
  match c.history with
  | none => w
  | some h => w.update h (Tape.batchUnary fx dfx (c.elems.take k) (w h)).2

/-- `binary` / `binary_left_assign` / `binary_right_assign` whose `fxy` panics at pair `k`; the
    shape test and the same-tape assertion come first and append nothing. -/
def binaryPanicAt (a b : Cont R) (fxy dfx dfy : R → R → R) (k : Nat) (w : World R) : World R :=
  if a.shape ≠ b.shape then w else
  match a.history, b.history with
  | none, none => w
  | some h, none => w.update h (Tape.batchX fxy dfx ((a.elems.zip b.elems).take k) (w h)).2
  | none, some h => w.update h (Tape.batchY fxy dfy ((a.elems.zip b.elems).take k) (w h)).2
  | some h, some h' =>
    if h ≠ h' then w
    else w.update h (Tape.batchBoth fxy dfx dfy ((a.elems.zip b.elems).take k) (w h)).2

end Panicking

/-! ### Operators (container_operations.rs, swapped.rs) -/

section Arith
variable [Add R] [Sub R] [Mul R] [Div R] [Neg R] [Zero R] [One R]
open Fn

/-- `record_tensor_add_allocate` / `record_matrix_add_allocate` (container_operations.rs:759,
    829): `are_same_list` is asserted before `binary` is called. -/
def add (a b : Cont R) (w : World R) : Outcome (Cont R × World R) :=
  if !areSameList a.history b.history then .panic .explicit else
  a.binary b Addition.function Addition.dx Addition.dy w

/-- `record_tensor_sub_allocate` / `record_matrix_sub_allocate` (container_operations.rs:899, 969). -/
def sub (a b : Cont R) (w : World R) : Outcome (Cont R × World R) :=
  if !areSameList a.history b.history then .panic .explicit else
  a.binary b Subtraction.function Subtraction.dx Subtraction.dy w

/-- `elementwise_multiply` (mod.rs:1222, 2136). -/
def elementwiseMultiply (a b : Cont R) (w : World R) : Outcome (Cont R × World R) :=
  a.binary b Multiplication.function Multiplication.dx Multiplication.dy w

/-- `elementwise_divide` (mod.rs:1245, 2159). -/
def elementwiseDivide (a b : Cont R) (w : World R) : Outcome (Cont R × World R) :=
  a.binary b Division.function Division.dx Division.dy w

/-- `container + scalar` (record_tensor_operator_impl_scalar, container_operations.rs:1491-1667). -/
def addScalar (c : Cont R) (k : R) (w : World R) : Cont R × World R :=
  c.unary (fun x => Addition.function x k) (fun x => Addition.dx x k) w
def subScalar (c : Cont R) (k : R) (w : World R) : Cont R × World R :=
  c.unary (fun x => Subtraction.function x k) (fun x => Subtraction.dx x k) w
def mulScalar (c : Cont R) (k : R) (w : World R) : Cont R × World R :=
  c.unary (fun x => Multiplication.function x k) (fun x => Multiplication.dx x k) w
def divScalar (c : Cont R) (k : R) (w : World R) : Cont R × World R :=
  c.unary (fun x => Division.function x k) (fun x => Division.dx x k) w

/-- `SwappedOperations::sub_swapped` (swapped.rs): `lhs - container`, weight `d/dy`. -/
def subSwapped (c : Cont R) (lhs : R) (w : World R) : Cont R × World R :=
  c.unary (fun x => Subtraction.function lhs x) (fun x => Subtraction.dy lhs x) w
/-- `SwappedOperations::div_swapped` (swapped.rs). -/
def divSwapped (c : Cont R) (lhs : R) (w : World R) : Cont R × World R :=
  c.unary (fun x => Division.function lhs x) (fun x => Division.dy lhs x) w

/-- `Neg` (container_operations.rs:1417-1469): `Negation::function = -x`,
    `Negation::d_function_dx = -T::one()` (functions.rs:147-161). -/
def neg (c : Cont R) (w : World R) : Cont R × World R :=
  c.unary (fun x => -x) (fun _ => -1) w

end Arith

section Real
variable [Add R] [Sub R] [Mul R] [Div R] [Neg R] [Zero R] [One R] [RealFns R]
open Fn

/-- `Sin Cos Exp Ln Sqrt` (record_real_*_operator_impl_unary, container_operations.rs:1471-1484). -/
def sin (c : Cont R) (w : World R) : Cont R × World R := c.unary Sine.function Sine.dx w
def cos (c : Cont R) (w : World R) : Cont R × World R := c.unary Cosine.function Cosine.dx w
def exp (c : Cont R) (w : World R) : Cont R × World R :=
  c.unary Exponential.function Exponential.dx w
def ln (c : Cont R) (w : World R) : Cont R × World R :=
  c.unary NaturalLogarithm.function NaturalLogarithm.dx w
def sqrt (c : Cont R) (w : World R) : Cont R × World R :=
  c.unary SquareRoot.function SquareRoot.dx w

/-- `container.pow(scalar)` (record_real_*_operator_impl_scalar, container_operations.rs:1486). -/
def powScalar (c : Cont R) (k : R) (w : World R) : Cont R × World R :=
  c.unary (fun x => Power.function x k) (fun x => Power.dx x k) w
/-- `scalar.pow(container)` (…_scalar_no_orphan_rule, container_operations.rs:1488): weight `d/dy`. -/
def scalarPow (k : R) (c : Cont R) (w : World R) : Cont R × World R :=
  c.unary (fun x => Power.function k x) (fun x => Power.dy k x) w

end Real

/-! ### Matrix multiplication (container_operations.rs:1038-1415) -/

section Matmul
variable [Add R] [Mul R] [Zero R] [One R]
open Fn

/-- `crate::tensors::operations::scalar_product` on plain numbers:
    `zip.map(x * y).reduce(x + y).unwrap()`. -/
def plainScalarProduct : List (R × R) → Outcome R
  | [] => .panic .unwrap
  | (x, y) :: rest => .ok (rest.foldl (fun acc p => acc + p.1 * p.2) (x * y))

/-- One element of the lazily mapped `products` iterator of `record_scalar_product`, **as
    repaired** (fixes/G-11): the entry is binary only when both operands have a tape, otherwise
    unary with the variable operand as the parent — what `&Record * &Record` does. -/
def productEntry (lv rv : Bool) (p : (R × Nat) × (R × Nat)) (t : Tape R) : (R × Nat) × Tape R :=
  let x := p.1.1
  let y := p.2.1
  let z := Multiplication.function x y
  match lv, rv with
  | true, false =>
    let (i, t1) := t.appendUnary p.1.2 (Multiplication.dx x y)
    ((z, i), t1)
  | false, true =>
    let (i, t1) := t.appendUnary p.2.2 (Multiplication.dy x y)
    ((z, i), t1)
  | _, _ =>
    let (i, t1) := t.appendBinary p.1.2 (Multiplication.dx x y) p.2.2 (Multiplication.dy x y)
    ((z, i), t1)

/-- The product entry **as written** at the pinned commit (container_operations.rs:1062-1073):
    always binary, with the stored index of a constant operand (0) as a parent. -/
def productEntryAsWritten (p : (R × Nat) × (R × Nat)) (t : Tape R) : (R × Nat) × Tape R :=
  let x := p.1.1
  let y := p.2.1
  let (i, t1) := t.appendBinary p.1.2 (Multiplication.dx x y) p.2.2 (Multiplication.dy x y)
  ((Multiplication.function x y, i), t1)

/-- `products.reduce(…)`: the iterator is lazy, so the tape receives product, product, sum,
    product, sum, … -/
def reduceProducts (entry : (R × Nat) × (R × Nat) → Tape R → (R × Nat) × Tape R) :
    (R × Nat) → List ((R × Nat) × (R × Nat)) → Tape R → (R × Nat) × Tape R
  | acc, [], t => (acc, t)
  | acc, p :: rest, t =>
    let (q, t1) := entry p t
    let z := Addition.function acc.1 q.1
    let (i, t2) := t1.appendBinary acc.2 (Addition.dx acc.1 q.1) q.2 (Addition.dy acc.1 q.1)
    reduceProducts entry (z, i) rest t2

/-- `record_scalar_product` with a tape (container_operations.rs:1059-1088); `.unwrap()` of the
    reduction panics for empty vectors. -/
def scalarProductOnTape (entry : (R × Nat) × (R × Nat) → Tape R → (R × Nat) × Tape R) :
    List ((R × Nat) × (R × Nat)) → Tape R → Outcome ((R × Nat) × Tape R)
  | [], _ => .panic .unwrap
  | p :: rest, t =>
    let (acc, t1) := entry p t
    .ok (reduceProducts entry acc rest t1)

/-- Row `i` of a row-major `m × n` element list (`TensorIndex` on the first dimension /
    `RowReferenceIterator`). -/
def rowOf {α : Type} (elems : List α) (n i : Nat) : List α := (elems.drop (i * n)).take n

/-- Column `j` of a row-major `n × l` element list (`TensorIndex` on the second dimension /
    `ColumnReferenceIterator`). -/
def colOf {α : Type} (elems : List α) (n l j : Nat) : List α :=
  (List.range n).filterMap fun k => elems[k * l + j]?

/-- The cells of the result in the order of `iter_reference_mut().with_index()` /
    `row_major_reference_mut_iter().with_index()`. -/
def cellsOf (m l : Nat) : List (Nat × Nat) :=
  (List.range m).flatMap fun i => (List.range l).map fun j => (i, j)

/-- The result loop with a tape: one `record_scalar_product` per cell, in row-major order. -/
def matmulCells (entry : (R × Nat) × (R × Nat) → Tape R → (R × Nat) × Tape R)
    (a b : List (R × Nat)) (n l : Nat) :
    List (Nat × Nat) → Tape R → Outcome (List (R × Nat) × Tape R)
  | [], t => .ok ([], t)
  | (i, j) :: rest, t =>
    match scalarProductOnTape entry ((rowOf a n i).zip (colOf b n l j)) t with
    | .panic k => .panic k
    | .ok (x, t1) =>
      match matmulCells entry a b n l rest t1 with
      | .panic k => .panic k
      | .ok (xs, t2) => .ok (x :: xs, t2)

/-- The result loop without a tape: `(scalar_product(numbers), 0)` per cell. -/
def matmulPlain (a b : List (R × Nat)) (n l : Nat) : List (Nat × Nat) → Outcome (List (R × Nat))
  | [] => .ok []
  | (i, j) :: rest =>
    match plainScalarProduct (((rowOf a n i).zip (colOf b n l j)).map fun p => (p.1.1, p.2.1)) with
    | .panic k => .panic k
    | .ok x =>
      match matmulPlain a b n l rest with
      | .panic k => .panic k
      | .ok xs => .ok ((x, 0) :: xs)

/-- `(lhs.history, rhs.history)` → the tape of the result (container_operations.rs:1131, 1289). -/
def pickHistory : Option Nat → Option Nat → Option Nat
  | none, none => none
  | some h, _ => some h
  | _, some h => some h

/-- The part shared by both multiplications once the operands are accepted: `m × n` times
    `n × l` into the shape `outShape`. -/
def matmulCore (entry : (R × Nat) × (R × Nat) → Tape R → (R × Nat) × Tape R)
    (a b : Cont R) (m n l : Nat) (outShape : Shape String) (w : World R) :
    Outcome (Cont R × World R) :=
  match pickHistory a.history b.history with
  | none =>
    match matmulPlain a.elems b.elems n l (cellsOf m l) with
    | .panic k => .panic k
    | .ok xs => .ok (⟨outShape, xs, none⟩, w)
  | some h =>
    match matmulCells entry a.elems b.elems n l (cellsOf m l) (w h) with
    | .panic k => .panic k
    | .ok (xs, t) => .ok (⟨outShape, xs, some h⟩, w.update h t)

/-- the entry function the repaired code uses for these operands -/
def entryFor (a b : Cont R) : (R × Nat) × (R × Nat) → Tape R → (R × Nat) × Tape R :=
  productEntry a.history.isSome b.history.isSome

/-- lengths of a two dimensional shape -/
def dims2 (shape : Shape String) : Option ((String × Nat) × (String × Nat)) :=
  match shape with
  | [d0, d1] => some (d0, d1)
  | _ => none

/-- `record_tensor_matrix_multiply` (container_operations.rs:1093): same-tape assertion, inner
    lengths, duplicate result names — in this order; result shape `[left[0], right[1]]`.
    Operands are two dimensional by type. -/
def matmulTensorWith (entry : Cont R → Cont R → (R × Nat) × (R × Nat) → Tape R → (R × Nat) × Tape R)
    (a b : Cont R) (w : World R) : Outcome (Cont R × World R) :=
  if !areSameList a.history b.history then .panic .explicit else
  match dims2 a.shape, dims2 b.shape with
  | some (l0, l1), some (r0, r1) =>
    if l1.2 ≠ r0.2 then .panic .explicit
    else if l0.1 = r1.1 then .panic .explicit
    else matmulCore (entry a b) a b l0.2 l1.2 r1.2 [l0, r1] w
  | _, _ => .panic .explicit

/-- `RecordTensor * RecordTensor`, repaired (fixes/G-11). -/
def matmulTensor (a b : Cont R) (w : World R) : Outcome (Cont R × World R) :=
  matmulTensorWith entryFor a b w

/-- `RecordTensor * RecordTensor` as written at the pinned commit (defect 11). -/
def matmulTensorAsWritten (a b : Cont R) (w : World R) : Outcome (Cont R × World R) :=
  matmulTensorWith (fun _ _ => productEntryAsWritten) a b w

/-- `record_matrix_matrix_multiply` (container_operations.rs:1268) **as repaired** (fixes/G-14,
    G-11): the same-tape assertion of every other binary operation, then the size assertion;
    the result has the size `(lhs.rows, rhs.columns)`. -/
def matmulMatrix (a b : Cont R) (w : World R) : Outcome (Cont R × World R) :=
  if !areSameList a.history b.history then .panic .explicit else
  match dims2 a.shape, dims2 b.shape with
  | some (l0, l1), some (r0, r1) =>
    if l1.2 ≠ r0.2 then .panic .explicit
    else matmulCore (entryFor a b) a b l0.2 l1.2 r1.2 [(l0.1, l0.2), (l1.1, r1.2)] w
  | _, _ => .panic .explicit

/-- `record_matrix_matrix_multiply` as written at the pinned commit: no same-tape assertion
    (defect 14: two tapes are mixed, the left one receives the entries) and always-binary product
    entries (defect 11). -/
def matmulMatrixAsWritten (a b : Cont R) (w : World R) : Outcome (Cont R × World R) :=
  match dims2 a.shape, dims2 b.shape with
  | some (l0, l1), some (r0, r1) =>
    if l1.2 ≠ r0.2 then .panic .explicit
    else matmulCore productEntryAsWritten a b l0.2 l1.2 r1.2 [(l0.1, l0.2), (l1.1, r1.2)] w
  | _, _ => .panic .explicit

end Matmul

/-! ### Derivatives (mod.rs:1173-1211, 1261-1337, 2084-2125) -/

section Derivs
variable [Add R] [Mul R] [Zero R] [One R]

/-- all-or-nothing collection of per-element outcomes, in order -/
def collectOutcomes {α : Type} : List (Outcome α) → Outcome (List α)
  | [] => .ok []
  | .panic k :: _ => .panic k
  | .ok a :: rest =>
    match collectOutcomes rest with
    | .ok as => .ok (a :: as)
    | .panic k => .panic k

/-- `derivatives()` (mod.rs:1173, 2084): `None` for constants, otherwise one reverse sweep per
    element, in iteration order. -/
def derivatives (c : Cont R) (w : World R) : Outcome (Option (List (List R))) :=
  match c.history with
  | none => .ok none
  | some h =>
    match collectOutcomes (c.elems.map fun e => Rec.derivatives ⟨e.1, some h, e.2⟩ w) with
    | .ok ds => .ok (some ds)
    | .panic k => .panic k

/-- `derivatives_for(index)` (mod.rs:1196, 2107) with the element given by its position in
    iteration order: `None` out of range and for constants. -/
def derivativesFor (c : Cont R) (k : Nat) (w : World R) : Outcome (Option (List R)) :=
  match c.elems[k]? with
  | none => .ok none
  | some e => Rec.tryDerivatives ⟨e.1, c.history, e.2⟩ w

/-- `Derivatives::at_tensor` / `at_matrix` (mod.rs:1293, 1332): `self.derivatives[i]` for every
    stored index of the input, whatever tape the input belongs to. -/
def derivativesAt (d : List R) (input : Cont R) : Outcome (List R) :=
  collectOutcomes (input.elems.map fun e => derivativeAt d ⟨e.1, input.history, e.2⟩)

end Derivs

/-! ### single elements as records, 0-dimensional containers, moving elements -/

/-- Row-major position of an index tuple in a shape; `none` when a coordinate is out of range
    (`get_index_direct`'s bounds test, Model/Tensor.lean). -/
def position (shape : Shape String) (indexes : List Nat) : Option Nat :=
  if indexes.length ≠ shape.length then none
  else getIndexDirect indexes (computeStrides shape) shape

/-- `TensorAccess::try_get_as_record` (tensors/indexing.rs:504, 544, 584) /
    `RecordMatrix::try_get_as_record` (mod.rs:582): `Record::from_existing(element, history)`;
    `pos` is the element's position in the access order, `none` for an index out of range. -/
def tryGetAsRecord (c : Cont R) (pos : Option Nat) : Option (Rec R) :=
  match pos with
  | none => none
  | some k => (c.elems[k]?).map fun e => ⟨e.1, c.history, e.2⟩

/-- `get_as_record` (indexing.rs:491, 531, 571, mod.rs:570): panics out of range. -/
def getAsRecord (c : Cont R) (pos : Option Nat) : Outcome (Rec R) :=
  match c.tryGetAsRecord pos with
  | some r => .ok r
  | none => .panic .explicit

/-- `From<Record> / From<&Record> for RecordTensor<…, 0>` (mod.rs:2685, 2703). -/
def ofRecord (r : Rec R) : Cont R := ⟨[], [(r.number, r.index)], r.history⟩

/-- `From<RecordTensor<…, 0>> / From<&RecordTensor<…, 0>> for Record` (mod.rs:2650, 2670):
    `Record::from_existing(scalar.view().scalar(), scalar.history)`. -/
def toRecord (c : Cont R) : Outcome (Rec R) :=
  match c.elems with
  | e :: _ => .ok ⟨e.1, c.history, e.2⟩
  | [] => .panic .unwrap

/-- two elements exchanged in place through `get_reference_mut` / `try_get_reference_mut`
    (mod.rs:2549, 2626) — "moving data around" -/
def swapElems (c : Cont R) (i j : Nat) : Cont R :=
  match c.elems[i]?, c.elems[j]? with
  | some x, some y => { c with elems := (c.elems.set i y).set j x }
  | _, _ => c

/-! ### Records in, records out (iterators.rs, `map`, `map_mut`) -/

/-- `InvalidRecordIteratorError` (iterators.rs:382). -/
inductive IterError where
  | shape
  | empty
  | inconsistent (first later : Option Nat)
  deriving DecidableEq, Repr

/-- The pass of `collect_into_components` over the rest of the iterator (iterators.rs:465-483):
    every history is compared with the *first* one, the *last* differing one is reported. -/
def lastDifferent (first : Option Nat) : List (Rec R) → Option (Option Nat) → Option (Option Nat)
  | [], acc => acc
  | r :: rest, acc =>
    lastDifferent first rest (if areExactSameList first r.history then acc else some r.history)

/-- `collect_into_components` (iterators.rs:453): inconsistent histories are reported before
    emptiness. -/
def collectComponents (recs : List (Rec R)) : Except IterError (Option Nat × List (R × Nat)) :=
  match recs with
  | [] => .error .empty
  | r :: rest =>
    match lastDifferent r.history rest none with
    | some later => .error (.inconsistent r.history later)
    | none => .ok (r.history, recs.map fun x => (x.number, x.index))

/-- `RecordTensor::from_iter` (iterators.rs:595): then `Tensor::try_from(shape, numbers)`. -/
def fromIterTensor (shape : Shape String) (recs : List (Rec R)) : Except IterError (Cont R) :=
  match collectComponents recs with
  | .error e => .error e
  | .ok (history, numbers) =>
    match validateDimensions shape numbers.length with
    | some _ => .error .shape
    | none => .ok ⟨shape, numbers, history⟩

/-- `RecordMatrix::from_iter` (iterators.rs:676): `Some(len) == rows.checked_mul(columns)`. -/
def fromIterMatrix (rowName colName : String) (rows cols : Nat) (recs : List (Rec R)) :
    Except IterError (Cont R) :=
  match collectComponents recs with
  | .error e => .error e
  | .ok (history, numbers) =>
    if rows * cols ≤ usizeMax ∧ numbers.length = rows * cols then
      .ok ⟨[(rowName, rows), (colName, cols)], numbers, history⟩
    else .error .shape

/-- `from_iters` (iterators.rs:633, 715): `collect_into_n_components` streams the arrays and keeps,
    for every position `n` of the array, what `collect_into_components` keeps; `columns[n]` are
    the `n`-th records of every step. -/
def fromItersTensor (shape : Shape String) (columns : List (List (Rec R))) :
    List (Except IterError (Cont R)) :=
  columns.map (fromIterTensor shape)

def fromItersMatrix (rowName colName : String) (rows cols : Nat) (columns : List (List (Rec R))) :
    List (Except IterError (Cont R)) :=
  columns.map (fromIterMatrix rowName colName rows cols)

/-- Applying a function on records to every element in order (`iter.map(fx)` consumed by
    `collect`); the function may use the tapes. -/
def mapRecs (f : Rec R → World R → Rec R × World R) : List (Rec R) → World R → List (Rec R) × World R
  | [], w => ([], w)
  | r :: rest, w =>
    let (y, w1) := f r w
    let (ys, w2) := mapRecs f rest w1
    (y :: ys, w2)

/-- the same with the element's position handed to the function (`with_index`) -/
def mapRecsIdx (f : Nat → Rec R → World R → Rec R × World R) :
    Nat → List (Rec R) → World R → List (Rec R) × World R
  | _, [], w => ([], w)
  | k, r :: rest, w =>
    let (y, w1) := f k r w
    let (ys, w2) := mapRecsIdx f (k + 1) rest w1
    (y :: ys, w2)

/-- `map` / `map_with_index` (mod.rs:1081-1152, 1990-2063): `from_iter` of the mapped records;
    `Empty` and `Shape` are "illegal state" panics, inconsistent histories the `Err`.  The tapes
    keep what the function appended in either case.  `isMatrix` selects the `from_iter`. -/
def map (isMatrix : Bool) (c : Cont R) (f : Nat → Rec R → World R → Rec R × World R) (w : World R) :
    World R × Outcome (Except (Option Nat × Option Nat) (Cont R)) :=
  let (recs, w1) := mapRecsIdx f 0 c.toRecs w
  let collected :=
    if isMatrix then
      match c.shape with
      | [(rn, r), (cn, k)] => fromIterMatrix rn cn r k recs
      | _ => .error .shape
    else fromIterTensor c.shape recs
  match collected with
  | .ok c' => (w1, .ok (.ok c'))
  | .error .empty => (w1, .panic .explicit)
  | .error .shape => (w1, .panic .explicit)
  | .error (.inconsistent first later) => (w1, .ok (.error (first, later)))

/-- `map_mut` / `map_mut_with_index` via `map_mut_base` (mod.rs:1546-1631, 2385-2441): every
    element is overwritten in place; on inconsistent histories the container keeps its old tape
    (and the overwritten elements).  `expect` panics on an empty container. -/
def mapMut (c : Cont R) (f : Nat → Rec R → World R → Rec R × World R) (w : World R) :
    World R × Outcome (Cont R × Option (Option Nat × Option Nat)) :=
  match c.toRecs with
  | [] => (w, .panic .explicit)
  | _ :: _ =>
    let (recs, w1) := mapRecsIdx f 0 c.toRecs w
    let elems := recs.map fun r => (r.number, r.index)
    match recs with
    | [] => (w1, .panic .explicit)
    | r :: rest =>
      match lastDifferent r.history rest none with
      | none => (w1, .ok ({ c with elems := elems, history := r.history }, none))
      | some later => (w1, .ok ({ c with elems := elems }, some (r.history, later)))

/-- `map` whose function panics at element `k`: the tapes after the first `k` calls. -/
def mapPanicAt (c : Cont R) (f : Nat → Rec R → World R → Rec R × World R) (k : Nat) (w : World R) :
    World R :=
  (mapRecsIdx f 0 (c.toRecs.take k) w).2

/-- `map_mut` whose function panics at element `k`: the first `k` elements have been overwritten
    in place, the container keeps its tape field. -/
def mapMutPanicAt (c : Cont R) (f : Nat → Rec R → World R → Rec R × World R) (k : Nat) (w : World R) :
    Cont R × World R :=
  let (recs, w1) := mapRecsIdx f 0 (c.toRecs.take k) w
  ({ c with elems := (recs.map fun r => (r.number, r.index)) ++ c.elems.drop k }, w1)

end Cont

end EasyMl
