/-
  EasyMl.Model.Basic — conventions shared by every model file.

  * `usize` is modelled as `Nat` together with the explicit bound `usizeMax`; arithmetic the
    Rust code performs unchecked goes through `cadd/csub/cmul`, which report `.overflow` when
    the mathematical result leaves `[0, 2^64)`.
  * `Outcome α` is the result of running a piece of Rust: a value, or a panic of some kind.
    Fallible APIs return `Outcome (Option α)` / `Outcome (Except ε α)`.

  Core Lean only: everything here is also executed by the `emlmodel` driver.
-/
namespace EasyMl

/-- `usize::MAX` on the 64-bit targets the harness runs on. -/
def usizeMax : Nat := 2 ^ 64 - 1

/-- The kinds of panic the harness distinguishes (by message prefix). -/
inductive PanicKind where
  | explicit   -- a `panic!`/`assert!` raised on purpose by the library
  | overflow   -- "attempt to add/subtract/multiply with overflow"
  | index      -- slice / Vec index out of range
  | unwrap     -- `Option::unwrap` / `Result::unwrap` on the failure value
  | borrow     -- `RefCell` already borrowed
  | hook       -- the guarded verification hook fired
  deriving DecidableEq, Repr, Inhabited

def PanicKind.toString : PanicKind → String
  | .explicit => "explicit" | .overflow => "overflow" | .index => "index"
  | .unwrap => "unwrap" | .borrow => "borrow" | .hook => "hook"

instance : ToString PanicKind := ⟨PanicKind.toString⟩

/-- Result of running a piece of Rust code. -/
inductive Outcome (α : Type) where
  | ok (a : α)
  | panic (k : PanicKind)
  deriving Repr, Inhabited

namespace Outcome

def bind {α β : Type} : Outcome α → (α → Outcome β) → Outcome β
  | ok a, f => f a
  | panic k, _ => panic k

instance : Monad Outcome where
  pure := ok
  bind := bind

def isOk {α : Type} : Outcome α → Bool
  | ok _ => true
  | panic _ => false

@[simp] theorem bind_ok {α β : Type} (a : α) (f : α → Outcome β) : (ok a >>= f) = f a := rfl
@[simp] theorem bind_panic {α β : Type} (k : PanicKind) (f : α → Outcome β) :
    ((panic k : Outcome α) >>= f) = panic k := rfl
@[simp] theorem pure_eq {α : Type} (a : α) : (pure a : Outcome α) = ok a := rfl

end Outcome

/-- checked `usize` addition -/
def cadd (a b : Nat) : Outcome Nat :=
  if a + b ≤ usizeMax then .ok (a + b) else .panic .overflow

/-- checked `usize` subtraction -/
def csub (a b : Nat) : Outcome Nat :=
  if b ≤ a then .ok (a - b) else .panic .overflow

/-- checked `usize` multiplication -/
def cmul (a b : Nat) : Outcome Nat :=
  if a * b ≤ usizeMax then .ok (a * b) else .panic .overflow

/-- Product of a list of naturals (`Iterator::product`), as a left fold like the Rust one. -/
def prod (l : List Nat) : Nat := l.foldl (· * ·) 1

/-! ### Line-protocol helpers (used by the drivers only) -/

def showOpt {α : Type} [ToString α] : Option α → String
  | some a => s!"some({a})"
  | none => "none"

def showList {α : Type} [ToString α] (l : List α) : String :=
  "[" ++ ",".intercalate (l.map toString) ++ "]"

def showOutcome {α : Type} (f : α → String) : Outcome α → String
  | .ok a => f a
  | .panic k => s!"panic({k})"

end EasyMl
