/-
  EasyMl.Model.Iter — code-shaped model of the iterators (property C09).

    src/tensors/indexing.rs   ShapeIterator (`from`, `iter`, `size_hint`), TensorIterator,
                              TensorReferenceIterator, TensorReferenceMutIterator,
                              TensorOwnedIterator, their `WithIndex` impls
    src/matrices/iterators.rs row_major_iter / column_major_iter and their size hints,
                              Row/Column/Diagonal iterators (a `Range<usize>`), the copying,
                              reference, mutable-reference and owned flavours, `WithIndex`

  Conventions.  A shape is the list of its lengths (dimension names play no role in iteration);
  `D` is the length of the list, so the model covers every dimensionality.  `usize` arithmetic
  that the Rust performs with a possible wrap/underflow goes through `csub/cmul/cadd`, so an
  underflow or overflow is a visible `.panic .overflow` outcome of the model.
  The *source* that is iterated is a parameter: a tensor source is `(shape, cell)` where `cell`
  says which storage cell `get_reference_unchecked(indexes)` resolves to (`none`: outside the
  source — undefined behaviour in the Rust), a matrix source is `(rows, columns, cell)`.
  Tensor view adaptors and their compositions come from the C02 model (`TSource.ofView`,
  Model/IterView.lean).

  Core Lean only: everything here is executed by the `emlmodel` driver.
-/
import EasyMl.Model.Basic
import EasyMl.Model.Tensor

namespace EasyMl.Iter
open EasyMl

/-! ## `ShapeIterator` (indexing.rs:680-785) -/

/-- `ShapeIterator<D>`: `shape` (lengths only), `indexes`, `finished`. -/
structure ShapeIter where
  shape : List Nat
  indexes : List Nat
  finished : Bool
  deriving Repr, DecidableEq

/-- `ShapeIterator::from`: all-zero index; finished at once if any length is zero. -/
def ShapeIter.new (shape : List Nat) : ShapeIter :=
  { shape := shape
    indexes := shape.map fun _ => 0
    finished := !(shape.all fun l => decide (l > 0)) }

/-- The carry pass of `iter` over the positions `d ≥ 1`: the arguments are `shape[1..]` and
    `indexes[1..]`; positions are processed from the right (`for d in (1..D).rev()`).  The
    result is the new suffix and the amount (0 or 1) added to the position on its left —
    for the empty suffix that is the initial `indexes[D - 1] += 1`.

      indexes[D - 1] += 1;
      for d in (1..D).rev() {
          if indexes[d] == shape[d].1 { indexes[d] = 0; indexes[d - 1] += 1; }
      }

    (`carryLoop` below is the same pass written as the literal loop over `d`; the lemma
    `carryLoop_eq_carry` relates the two.) -/
def carry : List Nat → List Nat → List Nat × Nat
  | l :: ls, i :: is =>
    let r := carry ls is
    let i' := i + r.2
    if i' == l then (0 :: r.1, 1) else (i' :: r.1, 0)
  | _, _ => ([], 1)

/-- common index order iterator logic `iter(&mut finished, &mut indexes, &shape)` -/
def ShapeIter.next (it : ShapeIter) : Option (List Nat) × ShapeIter :=
  if it.finished then (none, it)
  else
    let value := it.indexes
    match it.shape, it.indexes with
    | l0 :: ls, i0 :: is =>
      -- D > 0
      let r := carry ls is
      let i0' := i0 + r.2
      (some value,
        { it with indexes := i0' :: r.1, finished := if i0' == l0 then true else it.finished })
    | _, _ =>
      -- D = 0
      (some value, { it with finished := true })

/-! The same step written as the literal loop over `d` with indexed reads and writes. -/

/-- one iteration of the `for d in (1..D).rev()` body -/
def carryLoopBody (shape : List Nat) (indexes : List Nat) (d : Nat) : List Nat :=
  if indexes.getD d 0 == shape.getD d 0 then
    let indexes := indexes.set d 0
    indexes.set (d - 1) (indexes.getD (d - 1) 0 + 1)
  else indexes

/-- `indexes[D - 1] += 1; for d in (1..D).rev() { … }` -/
def carryLoop (shape indexes : List Nat) : List Nat :=
  let D := shape.length
  let indexes := indexes.set (D - 1) (indexes.getD (D - 1) 0 + 1)
  ((List.range' 1 (D - 1)).reverse).foldl (carryLoopBody shape) indexes

def ShapeIter.nextLoop (it : ShapeIter) : Option (List Nat) × ShapeIter :=
  if it.finished then (none, it)
  else
    let value := it.indexes
    if it.shape.length > 0 then
      let indexes := carryLoop it.shape it.indexes
      (some value,
        { it with indexes := indexes
                  finished := if indexes.getD 0 0 == it.shape.getD 0 0 then true else it.finished })
    else (some value, { it with finished := true })

/-- `Iterator::product` over `usize` with overflow checks (a left fold starting at 1) -/
def prodC : List Nat → Nat → Outcome Nat
  | [], acc => .ok acc
  | x :: xs, acc =>
    match cmul acc x with
    | .ok a => prodC xs a
    | .panic k => .panic k

/-- `compute_strides`: `from_fn(|d| shape.iter().skip(d + 1).map(|d| d.1).product())` -/
def stridesC : List Nat → Outcome (List Nat)
  | [] => .ok []
  | _ :: rest =>
    match prodC rest 1 with
    | .panic k => .panic k
    | .ok s =>
      match stridesC rest with
      | .panic k => .panic k
      | .ok ss => .ok (s :: ss)

/-- `get_index_direct_unchecked`: `for d in 0..D { index += indexes[d] * strides[d] }` -/
def seenC : List Nat → List Nat → Nat → Outcome Nat
  | n :: is, s :: ss, acc =>
    match cmul n s with
    | .panic k => .panic k
    | .ok p =>
      match cadd acc p with
      | .panic k => .panic k
      | .ok a => seenC is ss a
  | _, _, acc => .ok acc

/-- common size hint logic `size_hint(finished, &indexes, &shape)` -/
def ShapeIter.sizeHint (it : ShapeIter) : Outcome (Nat × Option Nat) :=
  if it.finished then .ok (0, some 0)
  else if it.shape.length > 0 then
    match prodC it.shape 1 with
    | .panic k => .panic k
    | .ok total =>
      match stridesC it.shape with
      | .panic k => .panic k
      | .ok strides =>
        match seenC it.indexes strides 0 with
        | .panic k => .panic k
        | .ok seen =>
          match csub total seen with
          | .panic k => .panic k
          | .ok remaining => .ok (remaining, some remaining)
  else .ok (1, some 1)

/-- `ExactSizeIterator::len` (std's default: `assert_eq!(upper, Some(lower)); lower`) -/
def lenOfHint : Outcome (Nat × Option Nat) → Outcome Nat
  | .panic k => .panic k
  | .ok (lower, upper) => if upper = some lower then .ok lower else .panic .explicit

/-- the state after `k` calls of `next` -/
def ShapeIter.steps : Nat → ShapeIter → ShapeIter
  | 0, it => it
  | k + 1, it => ShapeIter.steps k it.next.2

/-! ## Matrix whole-container iterators (iterators.rs:297-357, 473-533) -/

/-- the counters shared by the eight row-major / column-major iterator structs -/
structure MatIter where
  rows : Nat
  columns : Nat
  rowCounter : Nat
  columnCounter : Nat
  finished : Bool
  deriving Repr, DecidableEq

/-- the constructors: counters 0, `finished: !source.index_is_valid(0, 0)` -/
def MatIter.new (rows columns : Nat) : MatIter :=
  { rows := rows, columns := columns, rowCounter := 0, columnCounter := 0
    finished := !(decide (0 < rows) && decide (0 < columns)) }

/-- `row_major_iter` -/
def rowMajorNext (it : MatIter) : Outcome (Option (Nat × Nat) × MatIter) :=
  if it.finished then .ok (none, it)
  else
    let value := (it.rowCounter, it.columnCounter)
    match csub it.columns 1 with
    | .panic k => .panic k
    | .ok lastColumn =>
      -- `*column_counter == columns - 1 && *row_counter == rows - 1`
      let atEnd : Outcome Bool :=
        if it.columnCounter == lastColumn then
          match csub it.rows 1 with
          | .panic k => .panic k
          | .ok lastRow => .ok (it.rowCounter == lastRow)
        else .ok false
      match atEnd with
      | .panic k => .panic k
      | .ok atEnd =>
        let finished := if atEnd then true else it.finished
        if it.columnCounter == lastColumn then
          .ok (some value, { it with finished := finished, columnCounter := 0,
                                     rowCounter := it.rowCounter + 1 })
        else
          .ok (some value, { it with finished := finished,
                                     columnCounter := it.columnCounter + 1 })

/-- `row_major_size_hint` -/
def rowMajorSizeHint (it : MatIter) : Outcome (Nat × Option Nat) :=
  match csub it.rows it.rowCounter with
  | .panic k => .panic k
  | .ok remainingRows =>
    match remainingRows with
    | 0 => .ok (0, some 0)
    | 1 =>
      match csub it.columns it.columnCounter with
      | .panic k => .panic k
      | .ok remainingColumns => .ok (remainingColumns, some remainingColumns)
    | x + 2 =>
      match csub it.columns it.columnCounter with
      | .panic k => .panic k
      | .ok remainingColumns =>
        match cmul (x + 1) it.columns with
        | .panic k => .panic k
        | .ok remainingFullRows =>
          match cadd remainingColumns remainingFullRows with
          | .panic k => .panic k
          | .ok remaining => .ok (remaining, some remaining)

/-- `column_major_iter` -/
def colMajorNext (it : MatIter) : Outcome (Option (Nat × Nat) × MatIter) :=
  if it.finished then .ok (none, it)
  else
    let value := (it.rowCounter, it.columnCounter)
    match csub it.rows 1 with
    | .panic k => .panic k
    | .ok lastRow =>
      -- `*row_counter == rows - 1 && *column_counter == columns - 1`
      let atEnd : Outcome Bool :=
        if it.rowCounter == lastRow then
          match csub it.columns 1 with
          | .panic k => .panic k
          | .ok lastColumn => .ok (it.columnCounter == lastColumn)
        else .ok false
      match atEnd with
      | .panic k => .panic k
      | .ok atEnd =>
        let finished := if atEnd then true else it.finished
        if it.rowCounter == lastRow then
          .ok (some value, { it with finished := finished, rowCounter := 0,
                                     columnCounter := it.columnCounter + 1 })
        else
          .ok (some value, { it with finished := finished, rowCounter := it.rowCounter + 1 })

/-- `column_major_size_hint` -/
def colMajorSizeHint (it : MatIter) : Outcome (Nat × Option Nat) :=
  match csub it.columns it.columnCounter with
  | .panic k => .panic k
  | .ok remainingColumns =>
    match remainingColumns with
    | 0 => .ok (0, some 0)
    | 1 =>
      match csub it.rows it.rowCounter with
      | .panic k => .panic k
      | .ok remainingRows => .ok (remainingRows, some remainingRows)
    | x + 2 =>
      match csub it.rows it.rowCounter with
      | .panic k => .panic k
      | .ok remainingRows =>
        match cmul (x + 1) it.rows with
        | .panic k => .panic k
        | .ok remainingFullColumns =>
          match cadd remainingRows remainingFullColumns with
          | .panic k => .panic k
          | .ok remaining => .ok (remaining, some remaining)

/-! ## `Range<usize>` and the row / column / diagonal iterators -/

/-- `std::ops::Range<usize>` as an iterator -/
structure RangeIter where
  start : Nat
  stop : Nat
  deriving Repr, DecidableEq

def RangeIter.next (r : RangeIter) : Option Nat × RangeIter :=
  if r.start < r.stop then (some r.start, { r with start := r.start + 1 }) else (none, r)

def RangeIter.sizeHint (r : RangeIter) : Nat × Option Nat :=
  if r.start < r.stop then (r.stop - r.start, some (r.stop - r.start)) else (0, some 0)

/-- which line of the matrix a `Range`-based iterator walks -/
inductive Line where
  | row (row : Nat)
  | column (column : Nat)
  | diagonal
  deriving Repr, DecidableEq

/-- Row*/Column*/Diagonal* iterators: the line and the range over the other coordinate -/
structure LineIter where
  line : Line
  range : RangeIter
  deriving Repr, DecidableEq

/-- `RowIterator::from` etc.: `assert!(source.index_is_valid(row, 0))`, `range: 0..view_columns` -/
def LineIter.newRow (rows columns row : Nat) : Outcome LineIter :=
  if row < rows ∧ 0 < columns then .ok ⟨.row row, ⟨0, columns⟩⟩ else .panic .explicit

/-- `ColumnIterator::from` etc.: `assert!(source.index_is_valid(0, column))`, `range: 0..view_rows` -/
def LineIter.newColumn (rows columns column : Nat) : Outcome LineIter :=
  if 0 < rows ∧ column < columns then .ok ⟨.column column, ⟨0, rows⟩⟩ else .panic .explicit

/-- `DiagonalIterator::from` etc.: `range: 0..min(view_rows, view_columns)` -/
def LineIter.newDiagonal (rows columns : Nat) : LineIter :=
  ⟨.diagonal, ⟨0, min rows columns⟩⟩

/-- position handed to `get_reference_unchecked` -/
def Line.position : Line → Nat → Nat × Nat
  | .row r, i => (r, i)
  | .column c, i => (i, c)
  | .diagonal, i => (i, i)

def LineIter.next (it : LineIter) : Option (Nat × Nat) × LineIter :=
  let r := it.range.next
  (r.1.map it.line.position, { it with range := r.2 })

def LineIter.sizeHint (it : LineIter) : Nat × Option Nat := it.range.sizeHint

/-! ## `WithIndex` and the four element-access flavours

  Generic in the underlying position iterator: a state `σ`, a step
  `next : σ → Outcome (Option π × σ)` producing positions `π` (`[usize; D]` or `(Row, Column)`)
  and the source's `cell : π → Option κ`. -/

section Flavours
variable {σ π κ α : Type}

/-- `WithIndex<…>::next`: reads the counter *before* stepping the inner iterator and pairs it
    with the inner item:  `let index = self.iterator.<counter>; self.iterator.next().map(|x| (index, x))` -/
def withIndexNext {β : Type} (counter : σ → π) (next : σ → Outcome (Option β × σ)) (s : σ) :
    Outcome (Option (π × β) × σ) :=
  let index := counter s
  match next s with
  | .panic k => .panic k
  | .ok (x, s') => .ok (x.map fun x => (index, x), s')

/-- `…ReferenceIterator` / `…ReferenceMutIterator`: the item is (a reference to) the cell the
    position resolves to — `.map(|indexes| source.get_reference_unchecked(indexes))`.
    The inner `Option` is `none` if the unchecked accessor is called outside the source. -/
def refNext (next : σ → Outcome (Option π × σ)) (cell : π → Option κ) (s : σ) :
    Outcome (Option (Option κ) × σ) :=
  match next s with
  | .panic k => .panic k
  | .ok (p, s') => .ok (p.map cell, s')

/-- the copying iterators: `.map(|indexes| source.get_reference_unchecked(indexes).clone())` -/
def copyNext (next : σ → Outcome (Option π × σ)) (cell : π → Option κ) (mem : κ → α) (s : σ) :
    Outcome (Option (Option α) × σ) :=
  match next s with
  | .panic k => .panic k
  | .ok (p, s') => .ok (p.map fun p => (cell p).map mem, s')

/-- writing one cell of the memory -/
def update [DecidableEq κ] (mem : κ → α) (c : κ) (v : α) : κ → α :=
  fun c' => if c' = c then v else mem c'

/-- the owned iterators: `std::mem::replace(source.get_reference_unchecked_mut(indexes), producer())` -/
def ownedNext [DecidableEq κ] (next : σ → Outcome (Option π × σ)) (cell : π → Option κ)
    (placeholder : α) (st : σ × (κ → α)) : Outcome (Option (Option α) × (σ × (κ → α))) :=
  match next st.1 with
  | .panic k => .panic k
  | .ok (none, s') => .ok (none, (s', st.2))
  | .ok (some p, s') =>
    match cell p with
    | none => .ok (some none, (s', st.2))
    | some c => .ok (some (some (st.2 c)), (s', update st.2 c placeholder))

/-- the items of the first `n` calls of a step function (stops at a panic) -/
def collect {β : Type} (next : σ → Outcome (Option β × σ)) : Nat → σ → Outcome (List (Option β) × σ)
  | 0, s => .ok ([], s)
  | n + 1, s =>
    match next s with
    | .panic k => .panic k
    | .ok (x, s') =>
      match collect next n s' with
      | .panic k => .panic k
      | .ok (xs, s'') => .ok (x :: xs, s'')

/-- An iterator that maps the items of a wrapped one — `AsRecords::next`:
    `self.numbers.next().map(|number| Record::from_existing(number, self.history))`
    (container_record/iterators.rs), and `Iterator::map` in general. -/
def mapNext {β γ : Type} (f : β → γ) (next : σ → Outcome (Option β × σ)) (s : σ) :
    Outcome (Option γ × σ) :=
  match next s with
  | .panic k => .panic k
  | .ok (x, s') => .ok (x.map f, s')

/-- Mutable iteration that writes `g (old value)` through every handed-out reference —
    `for x in it { *x = g(x.clone()) }`, the loop of `map_mut`: one call of the reference
    iterator, then the write to the cell it resolved to. -/
def writeNext [DecidableEq κ] (next : σ → Outcome (Option π × σ)) (cell : π → Option κ)
    (g : α → α) (st : σ × (κ → α)) : Outcome (Option (Option κ) × (σ × (κ → α))) :=
  match next st.1 with
  | .panic k => .panic k
  | .ok (none, s') => .ok (none, (s', st.2))
  | .ok (some p, s') =>
    match cell p with
    | none => .ok (some none, (s', st.2))
    | some c => .ok (some (some c), (s', update st.2 c (g (st.2 c))))

/-! ### std's consumers, which the two files do not override: loops over `next`

  `Iterator::count`, `last`, `fold` (hence `sum`, `collect`, `for_each`) call `next` until the
  first `None`; `nth(j)` is `advance_by(j)` (stops at the first `None`) followed by `next`.
  The loops get a `fuel` bound here (on an iterator that never returned `None` they would not
  terminate). -/

/-- the items up to the first `None` (which is consumed), at most `fuel` of them -/
def drain {β : Type} (next : σ → Outcome (Option β × σ)) : Nat → σ → Outcome (List β × σ)
  | 0, s => .ok ([], s)
  | fuel + 1, s =>
    match next s with
    | .panic k => .panic k
    | .ok (none, s') => .ok ([], s')
    | .ok (some x, s') =>
      match drain next fuel s' with
      | .panic k => .panic k
      | .ok (xs, s'') => .ok (x :: xs, s'')

/-- `Iterator::nth(j)` -/
def nthOf {β : Type} (next : σ → Outcome (Option β × σ)) : Nat → σ → Outcome (Option β × σ)
  | 0, s => next s
  | j + 1, s =>
    match next s with
    | .panic k => .panic k
    | .ok (none, s') => .ok (none, s')
    | .ok (some _, s') => nthOf next j s'

end Flavours

/-- `ShapeIter.next` as a step function of the generic layer -/
def shapeNext (it : ShapeIter) : Outcome (Option (List Nat) × ShapeIter) := .ok it.next

def lineNext (it : LineIter) : Outcome (Option (Nat × Nat) × LineIter) := .ok it.next

/-! ## Sources -/

/-- what a tensor iterator needs from its source: `view_shape()` (lengths) and which storage
    cell `get_reference_unchecked(indexes)` resolves to -/
structure TSource (κ : Type) where
  shape : List Nat
  cell : List Nat → Option κ

/-- what a matrix iterator needs: `view_rows()`, `view_columns()`, and the resolved cell -/
structure MSource (κ : Type) where
  rows : Nat
  columns : Nat
  cell : Nat × Nat → Option κ

/-- `Matrix<T>` with flat row-major data: `_get_reference_unchecked` reads `column + row * columns`
    (outside the matrix it is undefined behaviour: `none`) -/
def MSource.ofMatrix (rows columns : Nat) : MSource Nat :=
  { rows := rows, columns := columns
    cell := fun p => if p.1 < rows ∧ p.2 < columns then some (p.2 + p.1 * columns) else none }

/-- `IndexRange::clip` (views/ranges.rs): `end = min(start + length, max); length = end ⊖ start` -/
def clipLength (start length max : Nat) : Nat := min (start + length) max - start

/-- `IndexRange::map` -/
def rangeMap (start length index : Nat) : Option Nat :=
  if index < length then some (index + start) else none

/-- `MatrixRange::from(source, rows, columns)` with `IndexRange`s `(start, length)`;
    `get_reference_unchecked` does `rows.map(row).unwrap()` etc. (a panic is `none` here) -/
def MSource.range {κ : Type} (src : MSource κ) (rowStart rowLength colStart colLength : Nat) :
    MSource κ :=
  let rl := clipLength rowStart rowLength src.rows
  let cl := clipLength colStart colLength src.columns
  { rows := rl, columns := cl
    cell := fun p =>
      match rangeMap rowStart rl p.1, rangeMap colStart cl p.2 with
      | some r, some c => src.cell (r, c)
      | _, _ => none }

/-- `MatrixReverse::from(source, Reverse { rows, columns })`:
    `reverse_indexes` computes `length - 1 - index` on the flagged axes -/
def MSource.reverse {κ : Type} (src : MSource κ) (revRows revColumns : Bool) : MSource κ :=
  { rows := src.rows, columns := src.columns
    cell := fun p =>
      if src.rows = 0 ∨ src.columns = 0 then none
      else if (revRows ∧ p.1 > src.rows - 1) ∨ (revColumns ∧ p.2 > src.columns - 1) then none
      else
        src.cell (if revRows then src.rows - 1 - p.1 else p.1,
                  if revColumns then src.columns - 1 - p.2 else p.2) }

/-- a `Tensor` (C01 model): `view_shape` is its shape, the resolved cell is the row-major offset
    computed by `get_index_direct` (`none` outside the shape) -/
def TSource.ofTensor {ν α : Type} (t : Tensor ν α) : TSource Nat :=
  { shape := t.shape.map (·.2), cell := fun idx => t.offset idx }

/-- `TensorAccess` / `TensorTranspose` over any source: the shape is the source's shape in the
    requested order, indexes are mapped back with `map_dimensions_to_source`
    (used by Model/Survivor.lean; C09's own driver takes adaptors from the C02 view model) -/
def TSource.access {κ : Type} (src : TSource κ) (m : DimensionMappings) : TSource κ :=
  { shape := m.requestedToSource.map fun i => src.shape.getD i 0
    cell := fun idx => src.cell (m.mapDimensionsToSource idx) }

end EasyMl.Iter
