// C02 — the API surface of the adaptor types.
//
// `scan_api` lists every `pub fn` and every `impl … for …` (and `#[derive(Clone)]`) of the
// anchored source files; the `api_*` statically typed cases call each of them at least once on a
// configuration that is not the identity, not an involution (a rotation of three dimensions of
// pairwise different lengths) and record what comes back — the shape AND the contents of every
// returned tensor / view / iterator — as ordinary protocol lines the model answers.  Every call
// marks the key it drives; `api_surface` compares the scan with the marks and the two lists below.

use easy_ml::tensors::indexing::{
    ShapeIterator, TensorIterator, TensorOwnedIterator, TensorReferenceIterator, TensorReferenceMutIterator, WithIndex,
};
use std::collections::BTreeSet;

thread_local! {
    static API_DRIVEN: std::cell::RefCell<BTreeSet<String>> = const { std::cell::RefCell::new(BTreeSet::new()) };
}

fn mark(keys: &[&str]) {
    API_DRIVEN.with(|d| {
        for k in keys {
            d.borrow_mut().insert(k.to_string());
        }
    });
}

const API_FILES: [&str; 10] = [
    "src/tensors/indexing.rs", "src/tensors/views.rs", "src/tensors/views/ranges.rs", "src/tensors/views/indexes.rs",
    "src/tensors/views/renamed.rs", "src/tensors/views/reverse.rs", "src/tensors/views/zip.rs", "src/tensors/views/map.rs",
    "src/tensors/views/traits.rs", "src/interop/mod.rs",
];

/// driven by the dynamic engine or by the older statically typed cases (where)
const API_DRIVEN_ELSEWHERE: [(&str, &str); 14] = [
    ("impl TensorRef for TensorIndex", "index op, every D/I (macro generated impls)"),
    ("impl TensorMut for TensorIndex", "index op"),
    ("impl TensorRef for TensorExpansion", "expand op"),
    ("impl TensorMut for TensorExpansion", "expand op"),
    ("impl TensorRef for TensorStack<[array]>", "stack op via=array"),
    ("impl TensorMut for TensorStack<[array]>", "stack op via=array"),
    ("impl TensorRef for TensorStack<(tuple2)>", "stack op via=tuple"),
    ("impl TensorMut for TensorStack<(tuple2)>", "stack op via=tuple"),
    ("impl TensorRef for TensorStack<(tuple3)>", "stack op via=tuple"),
    ("impl TensorMut for TensorStack<(tuple3)>", "stack op via=tuple"),
    ("impl TensorRef for TensorStack<(tuple4)>", "stack op via=tuple"),
    ("impl TensorMut for TensorStack<(tuple4)>", "stack op via=tuple"),
    ("impl TensorRef for TensorMap", "static case record_display_map (crate-private type)"),
    ("impl DimensionNames for [array]", "matrix / matrixof ops via=with_names"),
];

/// public items of the anchored files this property does not drive (and why)
const API_NOT_DRIVEN: [(&str, &str); 19] = [
    ("derive Clone for InvalidDimensionsError", "an error value, not a view"),
    ("derive Clone for TensorMap", "crate-private type, no public route"),
    ("derive Clone for RowAndColumn", "unit marker type"),
    ("TensorAccess::get_as_record", "record tensors: C04 / C06"),
    ("TensorAccess::try_get_as_record", "record tensors: C04 / C06"),
    ("TensorView::scalar_product", "numeric: C03"),
    ("TensorView::determinant", "numeric: C07"),
    ("TensorView::inverse", "numeric: C07"),
    ("TensorView::covariance", "numeric: C14"),
    ("TensorMap::from", "crate-private type, no public route"),
    ("TensorMap::source", "crate-private type, dead code"),
    ("TensorMap::source_ref", "crate-private type, dead code"),
    ("TensorMap::source_ref_mut", "crate-private type, dead code"),
    ("impl Error for InvalidDimensionsError", "marker impl without methods"),
    ("impl Error for IndexRangeValidationError", "marker impl without methods"),
    ("impl Error for StrictIndexRangeValidationError", "marker impl without methods"),
    ("impl Debug for DebugSourceVisible", "private helper of Debug for TensorView"),
    ("impl NoInteriorMutability for MatrixRefTensor", "marker impl without methods"),
    ("TensorOwnedIterator::from_numeric", "numeric bound (ZeroOne): C09"),
];

fn repo_root() -> String {
    std::env::var("EASYML_REPO").unwrap_or_else(|_| "/repo".to_string())
}

/// `Foo<T, S, D>` → `Foo`; `From<&'a mut Tensor<T, D>>` → `From<&mut Tensor>`; `[S; N]` → `[array]`;
/// `(S1, S2)` → `(tuple2)`
fn simplify_type(t: &str) -> String {
    let mut t = t.trim().to_string();
    // lifetimes
    loop {
        match t.find('\'') {
            Some(p) => {
                let rest = &t[p + 1..];
                let n = rest.find(|c: char| !(c.is_alphanumeric() || c == '_')).unwrap_or(rest.len());
                let mut end = p + 1 + n;
                while t[end..].starts_with(' ') {
                    end += 1;
                }
                t.replace_range(p..end, "");
            }
            None => break,
        }
    }
    let mut pre = String::new();
    loop {
        let tt = t.trim_start().to_string();
        if let Some(r) = tt.strip_prefix('&') {
            pre.push('&');
            let r = r.trim_start();
            if let Some(r2) = r.strip_prefix("mut ") {
                pre.push_str("mut ");
                t = r2.to_string();
            } else {
                t = r.to_string();
            }
        } else if let Some(r) = tt.strip_prefix("dyn ") {
            pre.push_str("dyn ");
            t = r.to_string();
        } else {
            t = tt;
            break;
        }
    }
    if t.starts_with('[') {
        return format!("{}[array]", pre);
    }
    if t.starts_with('(') {
        let inner = t[1..].split(')').next().unwrap_or("");
        return format!("{}(tuple{})", pre, inner.matches(',').count() + 1);
    }
    let n = t.find(|c: char| !(c.is_alphanumeric() || c == '_' || c == ':' || c == '$')).unwrap_or(t.len());
    let base = t[..n].rsplit("::").next().unwrap_or("").to_string();
    let rest = &t[n..];
    if (base == "From" || base == "Box" || base == "WithIndex") && rest.starts_with('<') {
        let mut depth = 0;
        let mut arg = String::new();
        for ch in rest[1..].chars() {
            if ch == '<' || ch == '(' || ch == '[' {
                depth += 1;
            }
            if ch == '>' || ch == ')' || ch == ']' {
                if depth == 0 {
                    break;
                }
                depth -= 1;
            }
            if ch == ',' && depth == 0 {
                break;
            }
            arg.push(ch);
        }
        return format!("{}{}<{}>", pre, base, simplify_type(&arg));
    }
    format!("{}{}", pre, base)
}

/// the type a `TensorStack<T, X, D>` / `TensorChain<T, X, D>` header is about, with its sources
fn zip_suffix(text: &str) -> String {
    for name in ["TensorStack<T, ", "TensorChain<T, "] {
        if let Some(p) = text.find(name) {
            let rest = &text[p + name.len()..];
            if rest.starts_with('[') || rest.starts_with('(') {
                return format!("<{}>", simplify_type(rest));
            }
        }
    }
    String::new()
}

/// every `pub fn`, `impl Trait for Type` and derived `Clone` of the anchored files
fn scan_api() -> Result<Vec<String>, String> {
    let root = repo_root();
    let mut keys: Vec<String> = vec![];
    let mut push = |k: String| {
        if !keys.contains(&k) {
            keys.push(k);
        }
    };
    for f in API_FILES {
        let path = format!("{}/{}", root, f);
        let text = std::fs::read_to_string(&path).map_err(|e| format!("{}: {}", path, e))?;
        let lines: Vec<&str> = text.lines().collect();
        let mut cur: Option<String> = None;
        let mut derive_clone = false;
        let mut i = 0;
        while i < lines.len() {
            let l = lines[i];
            let ls = l.trim();
            if ls.starts_with("#[derive(") {
                derive_clone = ls.contains("Clone");
            } else if ls.starts_with("pub struct ") || ls.starts_with("pub(crate) struct ") {
                if derive_clone {
                    let name = ls.split("struct ").nth(1).unwrap_or("");
                    push(format!("derive Clone for {}", simplify_type(name)));
                }
                derive_clone = false;
            } else if !ls.starts_with("//") && !ls.starts_with('*') && !ls.starts_with("/*") && !ls.starts_with('#') && !ls.is_empty() {
                derive_clone = false;
            }
            let is_impl = (ls.starts_with("impl<") || ls.starts_with("impl ") || ls.starts_with("unsafe impl<") || ls.starts_with("unsafe impl "))
                && !ls.starts_with("impl Fn") && !ls.contains("impl Fn(");
            if is_impl {
                let mut hdr = ls.to_string();
                let mut j = i;
                while !lines[j].trim_end().ends_with('{') && !lines[j].trim().starts_with("where") && j + 1 < lines.len() && j < i + 8 {
                    j += 1;
                    if lines[j].trim().starts_with("where") {
                        break;
                    }
                    hdr.push(' ');
                    hdr.push_str(lines[j].trim());
                }
                let hdr = hdr.trim_end_matches('{').trim().to_string();
                let hdr = hdr.split(" where").next().unwrap_or("").to_string();
                // const expressions `{ $d - $i }`
                let mut clean = String::new();
                let mut depth = 0;
                for ch in hdr.chars() {
                    if ch == '{' {
                        depth += 1;
                        clean.push('N');
                    } else if ch == '}' {
                        depth -= 1;
                    } else if depth == 0 {
                        clean.push(ch);
                    }
                }
                let mut h = clean.trim_start_matches("unsafe ").trim_start_matches("impl").trim_start().to_string();
                if h.starts_with('<') {
                    let mut d = 0;
                    let mut cut = 0;
                    for (k, ch) in h.char_indices() {
                        if ch == '<' {
                            d += 1;
                        }
                        if ch == '>' {
                            d -= 1;
                            if d == 0 {
                                cut = k + 1;
                                break;
                            }
                        }
                    }
                    h = h[cut..].trim().to_string();
                }
                // ` for ` outside angle brackets
                let mut d = 0;
                let mut pos = None;
                let bytes: Vec<char> = h.chars().collect();
                for k in 0..bytes.len() {
                    if bytes[k] == '<' {
                        d += 1;
                    }
                    if bytes[k] == '>' {
                        d -= 1;
                    }
                    if d == 0 && bytes[k..].iter().collect::<String>().starts_with(" for ") {
                        pos = Some(k);
                        break;
                    }
                }
                match pos {
                    Some(p) => {
                        let tr: String = bytes[..p].iter().collect();
                        let ty: String = bytes[p + 5..].iter().collect();
                        let name = format!("{}{}", simplify_type(&ty), zip_suffix(&ty));
                        push(format!("impl {} for {}", simplify_type(&tr), name));
                        cur = Some(name);
                    }
                    None => {
                        cur = Some(format!("{}{}", simplify_type(&h), zip_suffix(&h)));
                    }
                }
            }
            if l.starts_with(' ') && ls.starts_with("pub fn ") {
                let name: String = ls["pub fn ".len()..].chars().take_while(|c| c.is_alphanumeric() || *c == '_').collect();
                if let Some(c) = &cur {
                    push(format!("{}::{}", c, name));
                }
            }
            i += 1;
        }
    }
    Ok(keys)
}

/// (scanned keys, driven keys, listed-as-not-driven keys, unlisted keys)
fn api_report() -> Result<(Vec<String>, Vec<String>, Vec<String>, Vec<String>), String> {
    let scanned = scan_api()?;
    API_DRIVEN.with(|d| d.borrow_mut().clear());
    for key in STATIC_KEYS.iter().filter(|k| k.starts_with("api_")) {
        let _ = static_case(key);
    }
    let mut driven: BTreeSet<String> = API_DRIVEN.with(|d| d.borrow().clone());
    for (k, _) in API_DRIVEN_ELSEWHERE {
        driven.insert(k.to_string());
    }
    let listed: BTreeSet<String> = API_NOT_DRIVEN.iter().map(|x| x.0.to_string()).collect();
    let d: Vec<String> = scanned.iter().filter(|k| driven.contains(*k)).cloned().collect();
    let n: Vec<String> = scanned.iter().filter(|k| !driven.contains(*k) && listed.contains(*k)).cloned().collect();
    let u: Vec<String> = scanned.iter().filter(|k| !driven.contains(*k) && !listed.contains(*k)).cloned().collect();
    Ok((scanned, d, n, u))
}

fn key_token(k: &str) -> String {
    k.replace(' ', "_")
}

/// the answer to `api_surface`: `ok ## unlisted=<public items neither driven nor listed>`
fn api_surface_answer() -> String {
    match api_report() {
        Ok((_, _, _, unlisted)) => {
            format!("ok ## unlisted={}", if unlisted.is_empty() { "-".to_string() } else { unlisted.iter().map(|k| key_token(k)).collect::<Vec<_>>().join(",") })
        }
        Err(e) => format!("ok ## unlisted=scan-failed:{}", e.replace(' ', "_")),
    }
}

/// the `#stat` entries of the generator (`key count`, tab separated): how many public items there
/// are, which are not driven
fn api_stats_line() -> String {
    let mut out: Vec<String> = vec![];
    match api_report() {
        Ok((scanned, driven, listed, unlisted)) => {
            out.push(format!("api.public_items {}", scanned.len()));
            out.push(format!("api.driven {}", driven.len()));
            out.push(format!("api.listed_not_driven {}", listed.len()));
            out.push(format!("api.unlisted {}", unlisted.len()));
            for k in listed {
                out.push(format!("api.not_driven:{} 1", key_token(&k)));
            }
            for k in unlisted {
                out.push(format!("api.UNLISTED:{} 1", key_token(&k)));
            }
        }
        Err(_) => out.push("api.scan_failed 1".to_string()),
    }
    out.join("\t")
}

// ---------------------------------------------------------------------------------------------
// recording helpers
// ---------------------------------------------------------------------------------------------

fn parse_display_shape(text: &str) -> String {
    // second line: ("c", 4), ("a", 2), ("b", 3)
    let line = text.lines().nth(1).unwrap_or("");
    let mut out: Vec<String> = vec![];
    for part in line.split("),") {
        let part = part.trim().trim_start_matches('(').trim_end_matches(')');
        if part.is_empty() {
            continue;
        }
        let mut it = part.rsplitn(2, ',');
        let len = it.next().unwrap_or("").trim();
        let name = it.next().unwrap_or("").trim().trim_matches('"');
        out.push(format!("{}:{}", if name.is_empty() { EMPTY_NAME } else { name }, len));
    }
    if out.is_empty() { "-".into() } else { out.join(",") }
}

fn cells_of(values: &[u64]) -> String {
    values.iter().map(|v| show_cell_opt(Some(*v))).collect::<Vec<_>>().join(" ")
}

impl Script {
    /// a returned view / tensor: its shape and all its contents
    fn api_view<S: TensorRef<u64, D>, const D: usize>(&mut self, keys: &[&str], v: &S) {
        mark(keys);
        self.rec("display via=static".into(), describe(v, 64));
    }
    /// a returned sequence in row-major order of `shape`
    fn api_values<const D: usize>(&mut self, keys: &[&str], shape: [(&'static str, usize); D], values: &[u64]) {
        mark(keys);
        self.rec("display via=static".into(), format!("shape={} cells={}", show_shape(&shape), cells_of(values)));
    }
    /// (index, value) pairs in the order they were handed out: the order must be row-major and
    /// every index must be the one of its position
    fn api_pairs<const D: usize>(&mut self, keys: &[&str], shape: [(&'static str, usize); D], pairs: &[([usize; D], u64)]) {
        let lens: Vec<usize> = shape.iter().map(|d| d.1).collect();
        let order = all_indexes(&lens);
        let values: Vec<u64> = (0..pairs.len())
            .map(|p| if p < order.len() && order[p][..] == pairs[p].0[..] { pairs[p].1 } else { MISPLACED })
            .collect();
        self.api_values(keys, shape, &values);
    }
    /// a getter asked at every index of the shape and just outside it
    fn api_get<const D: usize>(&mut self, keys: &[&str], shape: [(&'static str, usize); D], outside: bool, f: &mut dyn FnMut([usize; D]) -> Option<u64>) {
        mark(keys);
        let lens: Vec<usize> = shape.iter().map(|d| d.1).collect();
        for idx in all_indexes(&lens) {
            let i: [usize; D] = crate::util::to_array(&idx);
            let ans = match catch(|| f(i)) {
                Ok(o) => show_cell_opt(o),
                Err(k) => none_or(k),
            };
            self.rec(format!("get {} via=static", show_usizes(&idx)), ans);
        }
        if outside && D > 0 {
            let mut idx: Vec<usize> = vec![0; D];
            idx[0] = lens[0];
            let i: [usize; D] = crate::util::to_array(&idx);
            let ans = match catch(|| f(i)) {
                Ok(o) => show_cell_opt(o),
                Err(k) => none_or(k),
            };
            self.rec(format!("get {} via=static", show_usizes(&idx)), ans);
        }
    }
    /// a constructor: the operation line, then the view it returned
    fn api_built<S: TensorRef<u64, D>, const D: usize>(&mut self, keys: &[&str], op: &str, v: &S) {
        self.built(op, v);
        self.api_view(keys, v);
    }
    /// a constructor expected to refuse its arguments
    fn api_refused(&mut self, keys: &[&str], op: &str, refused: bool, message: &str) {
        mark(keys);
        self.rec(format!("{} via=static", op), if !refused { "accepted".into() } else if message.is_empty() { "reject-without-message".into() } else { "reject".into() });
    }
    fn api_display<const D: usize>(&mut self, keys: &[&str], text: &str) {
        mark(keys);
        self.rec("display via=static".into(), format!("shape={} cells={}", parse_display_shape(text), cells_of(&values_of_display(text, D))));
    }
}

const ROT: [&str; 3] = ["c", "a", "b"];
const ROT2: [&str; 3] = ["b", "c", "a"];

/// the leaf every case starts from and the rotated access over it
fn api_leaf(s: &mut Script, id: u64) -> Tensor<u64, 3> {
    s.leaf(id, [("a", 2), ("b", 3), ("c", 4)])
}
fn api_again(s: &mut Script, id: u64) {
    s.rec(format!("leaf {} a:2,b:3,c:4 via=static", id), "ok shape=a:2,b:3,c:4".into());
}
fn api_again_rot(s: &mut Script, id: u64) {
    api_again(s, id);
    s.rec("access c,a,b via=static".into(), "ok shape=c:4,a:2,b:3".into());
}

fn api_case(key: &str, s: &mut Script) {
    match key {
        "api_access" => {
            let mut t = api_leaf(s, 1);
            {
                let acc = TensorAccess::from(&t, ROT);
                s.api_built(&["TensorAccess::from"], "access c,a,b", &acc);
                mark(&["TensorAccess::shape"]);
                s.rec("shape via=static".into(), format!("shape={}", show_shape(&acc.shape())));
                mark(&["TensorAccess::source_ref"]);
                s.rec("sources via=static".into(), describe(acc.source_ref(), 16));
                let shape = acc.shape();
                s.api_get(&["TensorAccess::try_get_reference"], shape, true, &mut |i| acc.try_get_reference(i).copied());
                s.api_get(&["TensorAccess::get_ref"], shape, false, &mut |i| Some(*acc.get_ref(i)));
                s.api_get(&["TensorAccess::get"], shape, false, &mut |i| Some(acc.get(i)));
                s.api_get(&["TensorAccess::first"], [("c", 1), ("a", 1), ("b", 1)], false, &mut |_| Some(acc.first()));
                let v: Vec<u64> = acc.iter_reference().copied().collect();
                s.api_values(&["TensorAccess::iter_reference"], shape, &v);
                let v: Vec<u64> = acc.iter().collect();
                s.api_values(&["TensorAccess::iter"], shape, &v);
                let m = acc.map(|x| x);
                s.api_view(&["TensorAccess::map"], &m);
                let seen = std::cell::RefCell::new(vec![]);
                let m = acc.map_with_index(|i, x| {
                    seen.borrow_mut().push((i, x));
                    x
                });
                s.api_view(&["TensorAccess::map_with_index"], &m);
                s.api_pairs(&["TensorAccess::map_with_index"], shape, &seen.into_inner());
                let c = acc.clone();
                s.api_view(&["derive Clone for TensorAccess"], &c);
                s.api_display::<3>(&["impl Display for TensorAccess"], &format!("{}", acc));
                mark(&["impl TensorRef for TensorAccess"]);
                s.probe(&acc);
                s.memorder(&acc);
                // the layout is linear: the access in memory order over the access
                let again = TensorAccess::from_memory_order(&acc).expect("linear");
                s.api_built(&["TensorAccess::from_memory_order"], "access a,b,c", &again);
            }
            {
                api_again(s, 1);
                let mut acc = TensorAccess::from(&mut t, ROT);
                s.built("access c,a,b", &acc);
                let shape = acc.shape();
                s.api_get(&["TensorAccess::try_get_reference_mut"], shape, true, &mut |i| acc.try_get_reference_mut(i).map(|x| *x));
                s.api_get(&["TensorAccess::get_ref_mut"], shape, false, &mut |i| Some(*acc.get_ref_mut(i)));
                let v: Vec<u64> = acc.iter_reference_mut().map(|x| *x).collect();
                s.api_values(&["TensorAccess::iter_reference_mut"], shape, &v);
                let seen = std::cell::RefCell::new(vec![]);
                acc.map_mut(|x| {
                    seen.borrow_mut().push(x);
                    x
                });
                s.api_values(&["TensorAccess::map_mut"], shape, &seen.into_inner());
                let seen = std::cell::RefCell::new(vec![]);
                acc.map_mut_with_index(|i, x| {
                    seen.borrow_mut().push((i, x));
                    x
                });
                s.api_pairs(&["TensorAccess::map_mut_with_index"], shape, &seen.into_inner());
                mark(&["impl TensorMut for TensorAccess"]);
                s.probe_mut(&mut acc);
                s.api_view(&[], &acc);
            }
            {
                api_again(s, 1);
                let acc = TensorAccess::from(t.clone(), ROT);
                s.built("access c,a,b", &acc);
                let back: Tensor<u64, 3> = acc.source();
                mark(&["TensorAccess::source"]);
                s.rec("sources via=static".into(), describe(&back, 16));
            }
            {
                api_again(s, 1);
                let ok = TensorAccess::try_from(&t, ROT2).expect("valid names");
                s.api_built(&["TensorAccess::try_from"], "access b,c,a", &ok);
                api_again(s, 1);
                let err = TensorAccess::try_from(&t, ["c", "a", "a"]);
                let text = err.as_ref().err().map(|e| e.to_string()).unwrap_or_default();
                s.api_refused(&["TensorAccess::try_from", "impl Display for InvalidDimensionsError"], "access c,a,a", err.is_err(), &text);
                let own = TensorAccess::from_source_order(&t);
                s.api_built(&["TensorAccess::from_source_order"], "access a,b,c", &own);
            }
        }
        "api_transpose" => {
            let mut t = api_leaf(s, 1);
            {
                let tr = TensorTranspose::from(&t, ROT);
                s.api_built(&["TensorTranspose::from"], "transpose c,a,b", &tr);
                mark(&["TensorTranspose::shape"]);
                s.rec("shape via=static".into(), format!("shape={}", show_shape(&tr.shape())));
                mark(&["TensorTranspose::source_ref"]);
                s.rec("sources via=static".into(), describe(tr.source_ref(), 16));
                s.api_display::<3>(&["impl Display for TensorTranspose"], &format!("{}", tr));
                let dbg = format!("{:?}", tr);
                mark(&["impl Debug for TensorTranspose"]);
                if !dbg.contains("\"c\"") {
                    s.rec("shape via=static".into(), "debug-without-shape".into());
                }
                mark(&["impl TensorRef for TensorTranspose"]);
                s.probe(&tr);
                s.memorder(&tr);
                let c = tr.clone();
                s.api_view(&["derive Clone for TensorTranspose"], &c);
                // over the rotated access: the rotation of a rotation
                api_again_rot(s, 1);
                let acc = TensorAccess::from(&t, ROT);
                let tr2 = TensorTranspose::from(&acc, ROT2);
                s.api_built(&["TensorTranspose::from"], "transpose b,c,a", &tr2);
                s.probe(&tr2);
                s.memorder(&tr2);
            }
            {
                api_again(s, 1);
                let mut tr = TensorTranspose::from(&mut t, ROT2);
                s.built("transpose b,c,a", &tr);
                mark(&["impl TensorMut for TensorTranspose"]);
                s.probe_mut(&mut tr);
                s.api_view(&[], &tr);
            }
            {
                api_again(s, 1);
                let tr = TensorTranspose::from(t.clone(), ROT);
                s.built("transpose c,a,b", &tr);
                let back: Tensor<u64, 3> = tr.source();
                mark(&["TensorTranspose::source"]);
                s.rec("sources via=static".into(), describe(&back, 16));
                api_again(s, 1);
                let ok = TensorTranspose::try_from(&t, ROT2).expect("valid names");
                s.api_built(&["TensorTranspose::try_from"], "transpose b,c,a", &ok);
                api_again(s, 1);
                let err = TensorTranspose::try_from(&t, ["c", "zz", "a"]);
                let text = err.as_ref().err().map(|e| e.to_string()).unwrap_or_default();
                s.api_refused(&["TensorTranspose::try_from"], "transpose c,zz,a", err.is_err(), &text);
            }
        }
        "api_view_shared" => {
            // a TensorView over the rotated access: everything a shared receiver offers
            let t = api_leaf(s, 1);
            let view = TensorView::from(TensorAccess::from(&t, ROT));
            mark(&["TensorView::from"]);
            s.built("access c,a,b", view.source_ref());
            s.api_view(&["TensorView::source_ref"], view.source_ref());
            let shape = view.shape();
            mark(&["TensorView::shape"]);
            s.rec("shape via=static".into(), format!("shape={}", show_shape(&shape)));
            mark(&["TensorView::length_of", "TensorView::last_index_of"]);
            for n in ["c", "a", "b", "zz"] {
                let show = |o: Option<usize>| o.map_or("none".to_string(), |x| x.to_string());
                s.rec(format!("length_of {} via=static", n), format!("length={} last={}", show(view.length_of(n)), show(view.last_index_of(n))));
            }
            let v: Vec<u64> = view.iter_reference().copied().collect();
            s.api_values(&["TensorView::iter_reference", "TensorReferenceIterator::from", "impl Iterator for TensorReferenceIterator"], shape, &v);
            let v: Vec<u64> = view.iter().collect();
            s.api_values(&["TensorView::iter", "TensorIterator::from", "impl Iterator for TensorIterator"], shape, &v);
            s.api_get(&["TensorView::first"], [("c", 1), ("a", 1), ("b", 1)], false, &mut |_| Some(view.first()));
            let m = view.map(|x| x);
            s.api_view(&["TensorView::map"], &m);
            let seen = std::cell::RefCell::new(vec![]);
            let m = view.map_with_index(|i, x| {
                seen.borrow_mut().push((i, x));
                x
            });
            s.api_view(&["TensorView::map_with_index"], &m);
            s.api_pairs(&["TensorView::map_with_index"], shape, &seen.into_inner());
            // elementwise with a plain tensor of positions on the other side
            let n: usize = shape.iter().map(|d| d.1).product();
            let plain = Tensor::from(shape, (0..n as u64).collect::<Vec<u64>>());
            let r = view.elementwise(&plain, |x, _| x);
            s.api_view(&["TensorView::elementwise"], &r);
            let r = view.elementwise_reference(&plain, |x, _| *x);
            s.api_view(&["TensorView::elementwise_reference"], &r);
            let seen = std::cell::RefCell::new(vec![]);
            let r = view.elementwise_with_index(&plain, |i, x, _| {
                seen.borrow_mut().push((i, x));
                x
            });
            s.api_view(&["TensorView::elementwise_with_index"], &r);
            s.api_pairs(&["TensorView::elementwise_with_index"], shape, &seen.into_inner());
            let seen = std::cell::RefCell::new(vec![]);
            let r = view.elementwise_reference_with_index(&plain, |i, x, _| {
                seen.borrow_mut().push((i, *x));
                *x
            });
            s.api_view(&["TensorView::elementwise_reference_with_index"], &r);
            s.api_pairs(&["TensorView::elementwise_reference_with_index"], shape, &seen.into_inner());
            s.api_display::<3>(&["impl Display for TensorView"], &format!("{}", view));
            let dbg = format!("{:?}", view);
            mark(&["impl Debug for TensorView"]);
            if !dbg.contains("\"c\"") {
                s.rec("shape via=static".into(), "debug-without-shape".into());
            }
            let c = view.clone();
            s.api_view(&["derive Clone for TensorView"], c.source_ref());
            // copies in another order
            let copy = view.transpose(ROT2);
            mark(&["TensorView::transpose"]);
            s.rec("copy_transpose b,c,a via=static".into(), format!("ok {}", describe(&copy, 64)));
            let copy = view.reorder(ROT2);
            mark(&["TensorView::reorder"]);
            s.rec("copy_reorder b,c,a via=static".into(), format!("ok {}", describe(&copy, 64)));
            // adaptors borrowing the view
            let a = view.index_by(ROT2);
            s.api_built(&["TensorView::index_by"], "access b,c,a", &a);
            api_again_rot(s, 1);
            let a = view.index();
            s.api_built(&["TensorView::index"], "access c,a,b", &a);
            api_again_rot(s, 1);
            let r = view.rename_view(["x", "y", "z"]);
            s.api_built(&["TensorView::rename_view"], "rename x,y,z", r.source_ref());
            api_again_rot(s, 1);
            let r = view.transpose_view(ROT2);
            s.api_built(&["TensorView::transpose_view"], "transpose b,c,a", r.source_ref());
            api_again_rot(s, 1);
            let r = view.range([("a", 1..2), ("c", 1..3)]).expect("valid range");
            s.api_built(&["TensorView::range"], "range a:1:1,c:1:2", r.source_ref());
            api_again_rot(s, 1);
            let r = view.mask([("c", 0..2), ("b", 1..2)]).expect("valid mask");
            s.api_built(&["TensorView::mask"], "mask c:0:2,b:1:1", r.source_ref());
            api_again_rot(s, 1);
            let r = view.reverse(&["c", "b"]);
            s.api_built(&["TensorView::reverse"], "reverse c,b", r.source_ref());
            api_again_rot(s, 1);
            let r = view.select([("a", 1)]);
            s.api_built(&["TensorView::select"], "index a:1", r.source_ref());
            api_again_rot(s, 1);
            let r = view.expand([(1, "x")]);
            s.api_built(&["TensorView::expand"], "expand 1:x", r.source_ref());
            // a view of the view
            api_again_rot(s, 1);
            let vv = <TensorView<u64, &TensorAccess<u64, &Tensor<u64, 3>, 3>, 3> as From<&TensorView<u64, TensorAccess<u64, &Tensor<u64, 3>, 3>, 3>>>::from(&view);
            s.api_view(&["impl From<&TensorView> for TensorView"], vv.source_ref());
            let sel = view.select([("c", 3)]);
            s.built("index c:3", sel.source_ref());
            let sel2 = sel.select([("a", 1)]);
            s.built("index a:1", sel2.source_ref());
            let sel3 = sel2.select([("b", 2)]);
            s.built("index b:2", sel3.source_ref());
            mark(&["TensorView::scalar"]);
            s.rec("get - via=static".into(), show_cell_opt(Some(sel3.scalar())));
            let back = view.source();
            mark(&["TensorView::source"]);
            let _ = back;
        }
        "api_view_mut" => {
            // mutable and owned receivers of TensorView over the rotated access
            let mut t = api_leaf(s, 1);
            {
                let mut view = TensorView::from(TensorAccess::from(&mut t, ROT));
                s.built("access c,a,b", view.source_ref());
                let shape = view.shape();
                {
                    let inner = view.source_ref_mut();
                    mark(&["TensorView::source_ref_mut"]);
                    let v: Vec<u64> = inner.iter().collect();
                    s.api_values(&[], shape, &v);
                }
                let v: Vec<u64> = view.iter_reference_mut().map(|x| *x).collect();
                s.api_values(&["TensorView::iter_reference_mut", "TensorReferenceMutIterator::from", "impl Iterator for TensorReferenceMutIterator"], shape, &v);
                let seen = std::cell::RefCell::new(vec![]);
                view.map_mut(|x| {
                    seen.borrow_mut().push(x);
                    x
                });
                s.api_values(&["TensorView::map_mut"], shape, &seen.into_inner());
                let seen = std::cell::RefCell::new(vec![]);
                view.map_mut_with_index(|i, x| {
                    seen.borrow_mut().push((i, x));
                    x
                });
                s.api_pairs(&["TensorView::map_mut_with_index"], shape, &seen.into_inner());
                {
                    let mut a = view.index_by_mut(ROT2);
                    s.api_built(&["TensorView::index_by_mut"], "access b,c,a", &a);
                    s.probe_mut(&mut a);
                }
                api_again_rot(s, 1);
                {
                    let a = view.index_mut();
                    s.api_built(&["TensorView::index_mut"], "access c,a,b", &a);
                }
                api_again_rot(s, 1);
                {
                    let mut r = view.range_mut([("a", 1..2), ("c", 1..3)]).expect("valid range");
                    s.api_built(&["TensorView::range_mut"], "range a:1:1,c:1:2", r.source_ref());
                    s.probe_mut(r.source_ref_mut());
                }
                api_again_rot(s, 1);
                {
                    let mut r = view.mask_mut([("c", 0..2), ("b", 1..2)]).expect("valid mask");
                    s.api_built(&["TensorView::mask_mut"], "mask c:0:2,b:1:1", r.source_ref());
                    s.probe_mut(r.source_ref_mut());
                }
                api_again_rot(s, 1);
                {
                    let mut r = view.reverse_mut(&["c", "b"]);
                    s.api_built(&["TensorView::reverse_mut"], "reverse c,b", r.source_ref());
                    s.probe_mut(r.source_ref_mut());
                }
                api_again_rot(s, 1);
                {
                    let mut r = view.select_mut([("a", 1)]);
                    s.api_built(&["TensorView::select_mut"], "index a:1", r.source_ref());
                    s.probe_mut(r.source_ref_mut());
                }
                api_again_rot(s, 1);
                {
                    let mut r = view.expand_mut([(1, "x")]);
                    s.api_built(&["TensorView::expand_mut"], "expand 1:x", r.source_ref());
                    s.probe_mut(r.source_ref_mut());
                }
                api_again_rot(s, 1);
                {
                    let vv = <TensorView<u64, &mut TensorAccess<u64, &mut Tensor<u64, 3>, 3>, 3> as From<&mut TensorView<u64, TensorAccess<u64, &mut Tensor<u64, 3>, 3>, 3>>>::from(&mut view);
                    s.api_view(&["impl From<&mut TensorView> for TensorView"], vv.source_ref());
                }
            }
            // owned receivers: each consumes a view over a copy of the leaf
            let owned = |t: &Tensor<u64, 3>| TensorView::from(TensorAccess::from(t.clone(), ROT));
            {
                let a = owned(&t).index_by_owned(ROT2);
                s.api_built(&["TensorView::index_by_owned"], "access b,c,a", &a);
                api_again_rot(s, 1);
                let a = owned(&t).index_owned();
                s.api_built(&["TensorView::index_owned"], "access c,a,b", &a);
                api_again_rot(s, 1);
                let r = owned(&t).range_owned([("a", 1..2), ("c", 1..3)]).expect("valid range");
                s.api_built(&["TensorView::range_owned"], "range a:1:1,c:1:2", r.source_ref());
                api_again_rot(s, 1);
                let r = owned(&t).mask_owned([("c", 0..2), ("b", 1..2)]).expect("valid mask");
                s.api_built(&["TensorView::mask_owned"], "mask c:0:2,b:1:1", r.source_ref());
                api_again_rot(s, 1);
                let r = owned(&t).reverse_owned(&["c", "b"]);
                s.api_built(&["TensorView::reverse_owned"], "reverse c,b", r.source_ref());
                api_again_rot(s, 1);
                let r = owned(&t).select_owned([("a", 1)]);
                s.api_built(&["TensorView::select_owned"], "index a:1", r.source_ref());
                api_again_rot(s, 1);
                let r = owned(&t).expand_owned([(1, "x")]);
                s.api_built(&["TensorView::expand_owned"], "expand 1:x", r.source_ref());
                api_again_rot(s, 1);
                let v: Vec<u64> = owned(&t).iter_owned().collect();
                s.api_values(&["TensorView::iter_owned", "TensorOwnedIterator::from", "impl Iterator for TensorOwnedIterator"], [("c", 4), ("a", 2), ("b", 3)], &v);
                let sel = owned(&t).select_owned([("c", 3)]);
                s.built("index c:3", sel.source_ref());
                let sel2 = sel.select_owned([("a", 1)]);
                s.built("index a:1", sel2.source_ref());
                let sel3 = sel2.select_owned([("b", 2)]);
                s.built("index b:2", sel3.source_ref());
                mark(&["TensorView::into_scalar"]);
                s.rec("get - via=static".into(), show_cell_opt(Some(sel3.into_scalar())));
            }
            // a tensor as a view
            {
                api_again(s, 1);
                let v: TensorView<u64, Tensor<u64, 3>, 3> = TensorView::from(t.clone());
                s.api_view(&["impl From<Tensor> for TensorView"], v.source_ref());
                let v: TensorView<u64, &Tensor<u64, 3>, 3> = TensorView::from(&t);
                s.api_view(&["impl From<&Tensor> for TensorView"], v.source_ref());
                let v: TensorView<u64, &mut Tensor<u64, 3>, 3> = TensorView::from(&mut t);
                s.api_view(&["impl From<&mut Tensor> for TensorView"], v.source_ref());
            }
        }
        "api_adaptors" => {
            // the constructors and accessors of every single-source adaptor over the rotated access
            let mut t = api_leaf(s, 1);
            let mut other = t.clone();
            {
                let acc = TensorAccess::from(&t, ROT);
                s.built("access c,a,b", &acc);
                let r = TensorRange::from(&acc, [("a", 1..2), ("c", 1..3)]).expect("valid");
                s.api_built(&["TensorRange::from", "impl TensorRef for TensorRange"], "range a:1:1,c:1:2", &r);
                s.probe(&r);
                let c = r.clone();
                s.api_view(&["derive Clone for TensorRange"], &c);
                api_again_rot(s, 1);
                let r = TensorRange::from_strict(&acc, [("c", 1..3), ("b", 0..2)]).expect("valid");
                s.api_built(&["TensorRange::from_strict"], "range c:1:2,b:0:2 kind=strict", &r);
                api_again_rot(s, 1);
                let r = TensorRange::from_all(&acc, [Some(IndexRange::new(2, 2)), None, Some(IndexRange::new(1, 2))]).expect("valid");
                s.api_built(&["TensorRange::from_all"], "range c:2:2,b:1:2", &r);
                api_again_rot(s, 1);
                let r = TensorRange::from_all_strict(&acc, [None, Some(IndexRange::new(1, 1)), None]).expect("valid");
                s.api_built(&["TensorRange::from_all_strict"], "range a:1:1 kind=strict", &r);
                api_again_rot(s, 1);
                let err = TensorRange::from_strict(&acc, [("c", 2..9)]);
                let text = err.as_ref().err().map(|e| e.to_string()).unwrap_or_default();
                s.api_refused(&["impl Display for StrictIndexRangeValidationError"], "range c:2:7 kind=strict", err.is_err(), &text);
                let err = TensorRange::from(&acc, [("c", 4..9)]);
                let text = err.as_ref().err().map(|e| e.to_string()).unwrap_or_default();
                s.api_refused(&["impl Display for IndexRangeValidationError"], "range c:4:5", err.is_err(), &text);
                let m = TensorMask::from(&acc, [("c", 0..2), ("b", 1..2)]).expect("valid");
                s.api_built(&["TensorMask::from", "impl TensorRef for TensorMask"], "mask c:0:2,b:1:1", &m);
                s.probe(&m);
                let c = m.clone();
                s.api_view(&["derive Clone for TensorMask"], &c);
                api_again_rot(s, 1);
                let m = TensorMask::from_strict(&acc, [("c", 1..3)]).expect("valid");
                s.api_built(&["TensorMask::from_strict"], "mask c:1:2 kind=strict", &m);
                api_again_rot(s, 1);
                let m = TensorMask::from_all(&acc, [Some(IndexRange::new(3, 5)), None, Some(IndexRange::new(0, 1))]).expect("valid");
                s.api_built(&["TensorMask::from_all"], "mask c:3:5,b:0:1", &m);
                api_again_rot(s, 1);
                let m = TensorMask::from_all_strict(&acc, [None, Some(IndexRange::new(0, 1)), None]).expect("valid");
                s.api_built(&["TensorMask::from_all_strict"], "mask a:0:1 kind=strict", &m);
                api_again_rot(s, 1);
                let ix = TensorIndex::from(&acc, [("a", 1)]);
                s.api_built(&["TensorIndex::from"], "index a:1", &ix);
                mark(&["TensorIndex::source_ref"]);
                s.rec("sources via=static".into(), describe(ix.source_ref(), 16));
                let c = ix.clone();
                s.api_view(&["derive Clone for TensorIndex"], &c);
                api_again_rot(s, 1);
                let ex = TensorExpansion::from(&acc, [(1, "x"), (3, "y")]);
                s.api_built(&["TensorExpansion::from"], "expand 1:x,3:y", &ex);
                mark(&["TensorExpansion::source_ref"]);
                s.rec("sources via=static".into(), describe(ex.source_ref(), 16));
                let c = ex.clone();
                s.api_view(&["derive Clone for TensorExpansion"], &c);
                api_again_rot(s, 1);
                let rn = TensorRename::from(&acc, ["x", "y", "z"]);
                s.api_built(&["TensorRename::from", "impl TensorRef for TensorRename"], "rename x,y,z", &rn);
                s.probe(&rn);
                s.memorder(&rn);
                mark(&["TensorRename::source_ref", "TensorRename::get_names"]);
                s.rec("sources via=static".into(), describe(rn.source_ref(), 16));
                s.rec("get_names via=static".into(), format!("names={}", show_names(rn.get_names())));
                let c = rn.clone();
                s.api_view(&["derive Clone for TensorRename"], &c);
                api_again_rot(s, 1);
                let rv = TensorReverse::from(&acc, &["c", "b"]);
                s.api_built(&["TensorReverse::from", "impl TensorRef for TensorReverse"], "reverse c,b", &rv);
                s.probe(&rv);
                mark(&["TensorReverse::source_ref"]);
                s.rec("sources via=static".into(), describe(rv.source_ref(), 16));
                let c = rv.clone();
                s.api_view(&["derive Clone for TensorReverse"], &c);
            }
            {
                // mutable sources, setters, owned accessors
                api_again_rot(s, 1);
                let mut rn = TensorRename::from(TensorAccess::from(&mut t, ROT), ["x", "y", "z"]);
                s.built("rename x,y,z", &rn);
                mark(&["impl TensorMut for TensorRename"]);
                s.probe_mut(&mut rn);
                rn.set_names(["p", "q", "r"]);
                mark(&["TensorRename::set_names"]);
                s.rec("set_names p,q,r via=static".into(), format!("ok shape={}", show_shape(&rn.view_shape())));
                s.api_view(&[], &rn);
                // the source replaced by a rotated access over another tensor
                s.rec("leaf 2 a:2,b:3,c:4 via=static".into(), "ok shape=a:2,b:3,c:4".into());
                s.rec("access c,a,b via=static".into(), "ok shape=c:4,a:2,b:3".into());
                for (k, x) in other.iter_reference_mut().enumerate() {
                    *x = 2 * LEAF_MUL + k as u64;
                }
                api_again_rot(s, 1);
                s.rec("rename p,q,r via=static".into(), "ok shape=p:4,q:2,r:3".into());
                *rn.source_ref_mut() = TensorAccess::from(&mut other, ROT);
                mark(&["TensorRename::source_ref_mut"]);
                s.rec("swap_source via=static".into(), format!("ok shape={}", show_shape(&rn.view_shape())));
                s.api_view(&[], &rn);
                let inner = rn.source();
                mark(&["TensorRename::source"]);
                s.rec("sources via=static".into(), describe(&inner, 16));
            }
            {
                api_again_rot(s, 1);
                let mut rv = TensorReverse::from(TensorAccess::from(&mut t, ROT), &["a"]);
                s.built("reverse a", &rv);
                mark(&["impl TensorMut for TensorReverse", "TensorReverse::source_ref_mut"]);
                s.probe_mut(&mut rv);
                let _ = rv.source_ref_mut();
                let inner = rv.source();
                mark(&["TensorReverse::source"]);
                s.rec("sources via=static".into(), describe(&inner, 16));
            }
            {
                api_again_rot(s, 1);
                let mut r = TensorRange::from(TensorAccess::from(&mut t, ROT), [("b", 1..3)]).expect("valid");
                s.built("range b:1:2", &r);
                mark(&["impl TensorMut for TensorRange"]);
                s.probe_mut(&mut r);
            }
            {
                api_again_rot(s, 1);
                let mut m = TensorMask::from(TensorAccess::from(&mut t, ROT), [("b", 1..3)]).expect("valid");
                s.built("mask b:1:2", &m);
                mark(&["impl TensorMut for TensorMask"]);
                s.probe_mut(&mut m);
            }
            {
                api_again_rot(s, 1);
                let ix = TensorIndex::from(TensorAccess::from(t.clone(), ROT), [("b", 2)]);
                s.built("index b:2", &ix);
                let inner = ix.source();
                mark(&["TensorIndex::source"]);
                s.rec("sources via=static".into(), describe(&inner, 16));
                api_again_rot(s, 1);
                let ex = TensorExpansion::from(TensorAccess::from(t.clone(), ROT), [(0, "x")]);
                s.built("expand 0:x", &ex);
                let inner = ex.source();
                mark(&["TensorExpansion::source"]);
                s.rec("sources via=static".into(), describe(&inner, 16));
            }
        }
        "api_zip" => {
            // stacks and chains whose sources are rotated accesses
            let t1 = s.leaf(1, [("a", 1), ("b", 2), ("c", 3)]);
            let again = |s: &mut Script, id: u64| {
                s.rec(format!("leaf {} a:1,b:2,c:3 via=static", id), "ok shape=a:1,b:2,c:3".into());
                s.rec("access c,a,b via=static".into(), "ok shape=c:3,a:1,b:2".into());
            };
            s.rec("access c,a,b via=static".into(), "ok shape=c:3,a:1,b:2".into());
            let t2 = Tensor::from([("a", 1), ("b", 2), ("c", 3)], leaf_values(2, 6));
            let t3 = Tensor::from([("a", 1), ("b", 2), ("c", 3)], leaf_values(3, 6));
            let t4 = Tensor::from([("a", 1), ("b", 2), ("c", 3)], leaf_values(4, 6));
            let acc = |t: &Tensor<u64, 3>| TensorAccess::from(t.clone(), ROT);
            let show_sources = |views: Vec<String>| views.join(" | ");
            macro_rules! zip_case {
                ($n:literal, $stack_key:literal, $chain_key:literal, $ty:ty, $mk:expr, $each:expr) => {{
                    for id in 2..=$n {
                        again(s, id);
                    }
                    let st = TensorStack::<u64, $ty, 3>::from($mk, (2, "s"));
                    s.api_built(&[concat!($stack_key, "::from"), concat!("impl TensorRef for ", $stack_key)], &format!("stack {} 2:s", $n), &st);
                    s.probe(&st);
                    mark(&[concat!($stack_key, "::sources_ref"), concat!($stack_key, "::sources"), concat!("impl TensorMut for ", $stack_key)]);
                    let each: fn(&_) -> Vec<String> = $each;
                    s.rec("sources via=static".into(), show_sources(each(st.sources_ref())));
                    let mut st = st;
                    s.probe_mut(&mut st);
                    let owned = st.sources();
                    s.rec("sources via=static".into(), show_sources(each(&owned)));
                    again(s, 1);
                    for id in 2..=$n {
                        again(s, id);
                    }
                    let ch = TensorChain::<u64, $ty, 3>::from($mk, "a");
                    s.api_built(&[concat!($chain_key, "::from"), concat!("impl TensorRef for ", $chain_key)], &format!("chain {} a", $n), &ch);
                    s.probe(&ch);
                    mark(&[concat!($chain_key, "::sources_ref"), concat!($chain_key, "::sources")]);
                    s.rec("sources via=static".into(), show_sources(each(ch.sources_ref())));
                    let mut ch = ch;
                    mark(&[concat!("impl TensorMut for ", $chain_key)]);
                    s.probe_mut(&mut ch);
                    let owned = ch.sources();
                    s.rec("sources via=static".into(), show_sources(each(&owned)));
                    again(s, 1);
                }};
            }
            type A = TensorAccess<u64, Tensor<u64, 3>, 3>;
            zip_case!(2, "TensorStack<(tuple2)>", "TensorChain<(tuple2)>", (A, A), (acc(&t1), acc(&t2)), |x: &(A, A)| vec![describe(&x.0, 16), describe(&x.1, 16)]);
            zip_case!(3, "TensorStack<(tuple3)>", "TensorChain<(tuple3)>", (A, A, A), (acc(&t1), acc(&t2), acc(&t3)), |x: &(A, A, A)| vec![describe(&x.0, 16), describe(&x.1, 16), describe(&x.2, 16)]);
            zip_case!(4, "TensorStack<(tuple4)>", "TensorChain<(tuple4)>", (A, A, A, A), (acc(&t1), acc(&t2), acc(&t3), acc(&t4)), |x: &(A, A, A, A)| vec![describe(&x.0, 16), describe(&x.1, 16), describe(&x.2, 16), describe(&x.3, 16)]);
            zip_case!(3, "TensorStack<[array]>", "TensorChain<[array]>", [A; 3], [acc(&t1), acc(&t2), acc(&t3)], |x: &[A; 3]| x.iter().map(|v| describe(v, 16)).collect());
            let st = TensorStack::<u64, [A; 1], 3>::from([acc(&t1)], (0, "s"));
            let c = st.clone();
            s.api_built(&["derive Clone for TensorStack"], "stack 1 0:s", &c);
            again(s, 1);
            let ch = TensorChain::<u64, [A; 1], 3>::from([acc(&t1)], "b");
            let c = ch.clone();
            s.api_built(&["derive Clone for TensorChain"], "chain 1 b", &c);
        }
        "api_iterators" => {
            // the iterator types themselves over the rotated access
            let mut t = api_leaf(s, 1);
            let shape = [("c", 4), ("a", 2), ("b", 3)];
            {
                let acc = TensorAccess::from(&t, ROT);
                s.built("access c,a,b", &acc);
                let order: Vec<[usize; 3]> = ShapeIterator::from(shape).collect();
                let v: Vec<u64> = order.iter().map(|i| acc.get_reference(*i).copied().unwrap_or(MISPLACED)).collect();
                s.api_values(&["ShapeIterator::from", "impl Iterator for ShapeIterator"], shape, &v);
                let mut it = ShapeIterator::from(shape);
                let len = it.len();
                for _ in 0..len {
                    it.next();
                }
                mark(&["impl ExactSizeIterator for ShapeIterator", "impl FusedIterator for ShapeIterator"]);
                s.rec("first 0 via=static".into(), if len == 24 && it.len() == 0 && it.next().is_none() && it.next().is_none() { "cells=".into() } else { format!("len={}", len) });
                let c = ShapeIterator::from(shape).clone();
                mark(&["derive Clone for ShapeIterator"]);
                let _ = c;
                macro_rules! drained {
                    ($it:expr) => {{
                        let mut it = $it;
                        let before = it.len();
                        let mut n = 0;
                        while it.next().is_some() {
                            n += 1;
                        }
                        before == 24 && n == 24 && it.len() == 0 && it.next().is_none()
                    }};
                }
                let p: Vec<([usize; 3], u64)> = TensorIterator::from(&acc).with_index().collect();
                s.api_pairs(&["TensorIterator::with_index", "impl Iterator for WithIndex<TensorIterator>"], shape, &p);
                let w: WithIndex<TensorIterator<u64, _, 3>> = TensorIterator::from(&acc).into();
                let p: Vec<([usize; 3], u64)> = w.collect();
                s.api_pairs(&["impl From<TensorIterator> for WithIndex<TensorIterator>"], shape, &p);
                let ok = drained!(TensorIterator::from(&acc)) && drained!(TensorIterator::from(&acc).with_index());
                mark(&["impl ExactSizeIterator for TensorIterator", "impl FusedIterator for TensorIterator", "impl ExactSizeIterator for WithIndex<TensorIterator>", "impl FusedIterator for WithIndex<TensorIterator>"]);
                s.rec("first 0 via=static".into(), if ok { "cells=".into() } else { "iterator-length-wrong".into() });
                let p: Vec<([usize; 3], u64)> = TensorReferenceIterator::from(&acc).with_index().map(|(i, x)| (i, *x)).collect();
                s.api_pairs(&["TensorReferenceIterator::with_index", "impl Iterator for WithIndex<TensorReferenceIterator>"], shape, &p);
                let w: WithIndex<TensorReferenceIterator<u64, _, 3>> = TensorReferenceIterator::from(&acc).into();
                let p: Vec<([usize; 3], u64)> = w.map(|(i, x)| (i, *x)).collect();
                s.api_pairs(&["impl From<TensorReferenceIterator> for WithIndex<TensorReferenceIterator>"], shape, &p);
                let ok = drained!(TensorReferenceIterator::from(&acc)) && drained!(TensorReferenceIterator::from(&acc).with_index());
                mark(&["impl ExactSizeIterator for TensorReferenceIterator", "impl FusedIterator for TensorReferenceIterator", "impl ExactSizeIterator for WithIndex<TensorReferenceIterator>", "impl FusedIterator for WithIndex<TensorReferenceIterator>"]);
                s.rec("first 0 via=static".into(), if ok { "cells=".into() } else { "iterator-length-wrong".into() });
            }
            {
                let mut acc = TensorAccess::from(&mut t, ROT);
                let p: Vec<([usize; 3], u64)> = TensorReferenceMutIterator::from(&mut acc).with_index().map(|(i, x)| (i, *x)).collect();
                s.api_pairs(&["TensorReferenceMutIterator::with_index", "impl Iterator for WithIndex<TensorReferenceMutIterator>"], shape, &p);
                let w: WithIndex<TensorReferenceMutIterator<u64, _, 3>> = TensorReferenceMutIterator::from(&mut acc).into();
                let p: Vec<([usize; 3], u64)> = w.map(|(i, x)| (i, *x)).collect();
                s.api_pairs(&["impl From<TensorReferenceMutIterator> for WithIndex<TensorReferenceMutIterator>"], shape, &p);
                let mut ok = true;
                {
                    let mut it = TensorReferenceMutIterator::from(&mut acc);
                    let before = it.len();
                    let mut n = 0;
                    while it.next().is_some() {
                        n += 1;
                    }
                    ok = ok && before == 24 && n == 24 && it.len() == 0 && it.next().is_none();
                }
                {
                    let mut it = TensorReferenceMutIterator::from(&mut acc).with_index();
                    let before = it.len();
                    let mut n = 0;
                    while it.next().is_some() {
                        n += 1;
                    }
                    ok = ok && before == 24 && n == 24 && it.len() == 0 && it.next().is_none();
                }
                mark(&["impl ExactSizeIterator for TensorReferenceMutIterator", "impl FusedIterator for TensorReferenceMutIterator", "impl ExactSizeIterator for WithIndex<TensorReferenceMutIterator>", "impl FusedIterator for WithIndex<TensorReferenceMutIterator>"]);
                s.rec("first 0 via=static".into(), if ok { "cells=".into() } else { "iterator-length-wrong".into() });
            }
            {
                let owned = || TensorOwnedIterator::from(TensorAccess::from(t.clone(), ROT));
                let p: Vec<([usize; 3], u64)> = owned().with_index().collect();
                s.api_pairs(&["TensorOwnedIterator::with_index", "impl Iterator for WithIndex<TensorOwnedIterator>"], shape, &p);
                let w: WithIndex<TensorOwnedIterator<u64, _, 3>> = owned().into();
                let p: Vec<([usize; 3], u64)> = w.collect();
                s.api_pairs(&["impl From<TensorOwnedIterator> for WithIndex<TensorOwnedIterator>"], shape, &p);
                let mut ok = true;
                {
                    let mut it = owned();
                    let before = it.len();
                    let mut n = 0;
                    while it.next().is_some() {
                        n += 1;
                    }
                    ok = ok && before == 24 && n == 24 && it.len() == 0 && it.next().is_none();
                }
                {
                    let mut it = owned().with_index();
                    let before = it.len();
                    let mut n = 0;
                    while it.next().is_some() {
                        n += 1;
                    }
                    ok = ok && before == 24 && n == 24 && it.len() == 0 && it.next().is_none();
                }
                mark(&["impl ExactSizeIterator for TensorOwnedIterator", "impl FusedIterator for TensorOwnedIterator", "impl ExactSizeIterator for WithIndex<TensorOwnedIterator>", "impl FusedIterator for WithIndex<TensorOwnedIterator>"]);
                s.rec("first 0 via=static".into(), if ok { "cells=".into() } else { "iterator-length-wrong".into() });
            }
        }
        "api_wrappers" => {
            // references and boxes of the rotated access as sources themselves
            let mut t = api_leaf(s, 1);
            {
                let acc = TensorAccess::from(&t, ROT);
                s.built("access c,a,b", &acc);
                let r: &TensorAccess<u64, &Tensor<u64, 3>, 3> = &acc;
                mark(&["impl TensorRef for &S"]);
                s.probe(&r);
                s.memorder(&r);
                let b: Box<TensorAccess<u64, &Tensor<u64, 3>, 3>> = Box::new(acc.clone());
                mark(&["impl TensorRef for Box<S>"]);
                s.probe(&b);
                s.memorder(&b);
                let d: Box<dyn TensorRef<u64, 3> + '_> = Box::new(acc.clone());
                let _ = d;
            }
            {
                let d: Box<dyn TensorRef<u64, 3>> = Box::new(TensorAccess::from(t.clone(), ROT));
                mark(&["impl TensorRef for Box<dyn TensorRef>"]);
                s.probe(&d);
                s.memorder(&d);
                let mut d: Box<dyn TensorMut<u64, 3>> = Box::new(TensorAccess::from(t.clone(), ROT));
                mark(&["impl TensorRef for Box<dyn TensorMut>", "impl TensorMut for Box<dyn TensorMut>"]);
                s.probe(&d);
                s.probe_mut(&mut d);
            }
            {
                let mut acc = TensorAccess::from(&mut t, ROT);
                {
                    let mut r: &mut TensorAccess<u64, &mut Tensor<u64, 3>, 3> = &mut acc;
                    mark(&["impl TensorRef for &mut S", "impl TensorMut for &mut S"]);
                    s.probe(&r);
                    s.probe_mut(&mut r);
                }
                let mut b = Box::new(acc);
                mark(&["impl TensorMut for Box<S>"]);
                s.probe_mut(&mut b);
            }
        }
        "api_interop" => {
            // a reordered (column major) 2-dimensional view as a matrix as a tensor
            let mut t = s.leaf(1, [("r", 3), ("c", 4)]);
            {
                let acc = TensorAccess::from(&t, ["c", "r"]);
                s.built("access c,r", &acc);
                let m = MatrixRefTensor::from(&acc);
                mark(&["MatrixRefTensor::from", "impl MatrixRef for MatrixRefTensor"]);
                let (rows, columns) = (m.view_rows(), m.view_columns());
                let cells: Vec<u64> = (0..rows).flat_map(|r| (0..columns).map(move |c| (r, c))).map(|(r, c)| m.try_get_reference(r, c).copied().unwrap_or(MISPLACED)).collect();
                s.api_values(&[], [("c", rows), ("r", columns)], &cells);
                let cells: Vec<u64> = (0..rows).flat_map(|r| (0..columns).map(move |c| (r, c))).map(|(r, c)| unsafe { *m.get_reference_unchecked(r, c) }).collect();
                s.api_values(&[], [("c", rows), ("r", columns)], &cells);
                if m.try_get_reference(rows, 0).is_some() || m.try_get_reference(0, columns).is_some() {
                    s.rec("shape via=static".into(), "matrix-answers-outside".into());
                }
                let v = TensorRefMatrix::from(MatrixRefTensor::from(&acc)).expect("valid");
                s.api_built(&["TensorRefMatrix::from", "impl DimensionNames for RowAndColumn", "impl TensorRef for TensorRefMatrix"], "matrixof row,column", &v);
                s.probe(&v);
                s.memorder(&v);
                {
                    let mx = Matrix::from_flat_row_major((3, 4), leaf_values(2, 12));
                    s.rec("matrix 2 3 4 row,column via=static".into(), "ok shape=row:3,column:4".into());
                    let v0 = TensorRefMatrix::from(&mx).expect("valid");
                    let c = v0.clone();
                    s.api_view(&["derive Clone for TensorRefMatrix"], &c);
                }
                s.rec("leaf 1 r:3,c:4 via=static".into(), "ok shape=r:3,c:4".into());
                s.rec("access c,r via=static".into(), "ok shape=c:4,r:3".into());
                let v = TensorRefMatrix::with_names(m, ["x", "y"]).expect("valid");
                s.api_built(&["TensorRefMatrix::with_names"], "matrixof x,y", &v);
                s.probe(&v);
                s.memorder(&v);
            }
            {
                s.rec("leaf 1 r:3,c:4 via=static".into(), "ok shape=r:3,c:4".into());
                s.rec("access c,r via=static".into(), "ok shape=c:4,r:3".into());
                let mut m = MatrixRefTensor::from(TensorAccess::from(&mut t, ["c", "r"]));
                mark(&["impl MatrixMut for MatrixRefTensor"]);
                let (rows, columns) = (m.view_rows(), m.view_columns());
                let cells: Vec<u64> = (0..rows).flat_map(|r| (0..columns).map(move |c| (r, c))).collect::<Vec<_>>().into_iter().map(|(r, c)| m.try_get_reference_mut(r, c).map(|x| *x).unwrap_or(MISPLACED)).collect();
                s.api_values(&[], [("c", rows), ("r", columns)], &cells);
                let cells: Vec<u64> = (0..rows).flat_map(|r| (0..columns).map(move |c| (r, c))).collect::<Vec<_>>().into_iter().map(|(r, c)| unsafe { *m.get_reference_unchecked_mut(r, c) }).collect();
                s.api_values(&[], [("c", rows), ("r", columns)], &cells);
                let mut v = TensorRefMatrix::with_names(m, ["x", "y"]).expect("valid");
                s.built("matrixof x,y", &v);
                mark(&["impl TensorMut for TensorRefMatrix"]);
                s.probe_mut(&mut v);
            }
        }
        other => panic!("unknown api case {}", other),
    }
}
