//! C05 — forward-mode differentiation: the programs of C04 executed with `Trace<Fp>` /
//! `Trace<Rat>`, once per input (that input being `Trace::variable`, the others constants), every
//! operator in every ownership / operand-kind form; on `derivs` lines the same program run with
//! records on a tape is differentiated in reverse mode and compared.
//!
//! Line protocol: lean/Driver/Prog.lean, lean/Driver/C05.lean.

use crate::c04::*;
use crate::exact::{Fp, Rat};
use crate::util::*;
use crate::{op2, op4};
use easy_ml::differentiation::{Primitive, Trace};
use easy_ml::numeric::extra::{Cos, Exp, Ln, Pi, Pow, Sin, Sqrt};
use easy_ml::numeric::{FromUsize, Numeric, NumericRef, ZeroOne};
use std::ops::{Add, Div, Mul, Neg, Sub};

pub fn gen(g: &mut Gen) {
    let (n_fp, n_rat) = if g.thorough { (20000, 4000) } else { (1000, 300) };
    for line in [
        "@ trace fp", "var r0 5 via=record", "const r1 7 via=constant", "cos r2 r0 via=ref",
        "divn r3 r0 7 via=ref_ref", "npow r4 7 r0 via=ref_ref", "pow r5 r0 r0 via=ref_ref",
        "neg r6 r0 via=val", "subsw r7 r0 9 via=ref_ref", "divsw r8 r0 9 via=val_val", "derivs r8",
        // equal numbers with different derivative components
        "@ trace fp", "var r0 5 via=record", "const r1 5 via=constant", "muln r2 r0 1 via=ref_ref",
        "addn r3 r1 0 via=ref_ref", "clone r4 r0", "cmp eq r0 r1 via=ref", "cmp eq r1 r0 via=val",
        "cmp ne r0 r3 via=method", "cmp le r0 r1 via=ref", "cmp ge r1 r2 via=val", "cmp lt r0 r1 via=ref",
        "cmp pcmp r0 r1 via=ref", "cmp eq r4 r0 via=ref", "show r0", "show r1", "derivs r4",
    ] {
        g.op(line.to_string());
    }
    gen_large(g, "c05.fp", "@ trace fp");
    gen_degenerate(g, "c05.fp", "@ trace", " fp", Kind::Fp);
    gen_degenerate(g, "c05.rat", "@ trace", " rat", Kind::Rat);
    gen_matrix(g, "c05.fp", "@ trace", " fp", Kind::Fp);
    gen_matrix(g, "c05.rat", "@ trace", " rat", Kind::Rat);
    gen_int(g, "c05", "trace", &["vc", "cv", "xx", "vn", "cc"]);
    // `nv` only exists for pow (number ^ trace); gen_f64 skips it for add/mul, sub/div are `cv`
    gen_f64(g, "c05", "trace", &["vc", "cv", "xx", "vn", "nv", "cc"], &|op, pairing, x, y| {
        if pairing == "nv" && op != "pow" { (0.0, None, None) } else { f64_expect_trace(op, pairing, x, y) }
    });
    for _ in 0..n_fp {
        gen_program(g, Kind::Fp, "c05.fp", "@ trace fp", 30);
    }
    for _ in 0..n_rat {
        gen_program(g, Kind::Rat, "c05.rat", "@ trace rat", 10);
    }
}

// ---------------------------------------------------------------------------------------------
// f64 at degenerate values (see c04.rs): Trace<f64> vs the formulae in the comments of
// trace_operations.rs (`u'v + uv'`, `(u'v - uv') / v^2`, `u' cos(u)`, `-u' sin(u)`, …)
// ---------------------------------------------------------------------------------------------

/// (value, derivative) the documentation promises for `(u,u') op (v,v')`
fn dual_rule(op: &str, u: f64, du: f64, v: f64, dv: f64) -> (f64, f64) {
    match op {
        "add" => (u + v, du + dv),
        "sub" => (u - v, du - dv),
        "mul" => (u * v, (du * v) + (u * dv)),
        "div" => (u / v, ((du * v) - (u * dv)) / (v * v)),
        "pow" => (u.powf(v), (du * v * u.powf(v - 1.0)) + (dv * u.powf(v) * u.ln())),
        // the plain computation; a zero result is compared without its sign (see c04::f64_compare):
        // Trace computes `Trace::zero() - self`
        "neg" => (-u, -du),
        "sin" => (u.sin(), du * u.cos()),
        "cos" => (u.cos(), -du * u.sin()),
        "exp" => (u.exp(), du * u.exp()),
        "ln" => (u.ln(), du / u),
        "sqrt" => (u.sqrt(), du / (2.0 * u.sqrt())),
        other => panic!("harness: f64 op {}", other),
    }
}

/// trace ∘ plain number (no formula documented for `+ − × ÷`: the obvious one, for `÷` the
/// quotient rule with a constant divisor as the code writes it, `(u'·c)/(c·c)`)
fn dual_rule_number(op: &str, u: f64, du: f64, c: f64) -> (f64, f64) {
    match op {
        "add" => (u + c, du),
        "sub" => (u - c, du),
        "mul" => (u * c, du * c),
        "div" => (u / c, (du * c) / (c * c)),
        _ => (u.powf(c), du * c * u.powf(c - 1.0)),
    }
}

/// documented answer: value and the derivative of the run seeded at x (dx) / at y (dy)
fn f64_expect_trace(op: &str, pairing: &str, x: f64, y: f64) -> (f64, Option<f64>, Option<f64>) {
    if is_unary(op) {
        let (v, d) = dual_rule(op, x, if pairing == "v" { 1.0 } else { 0.0 }, 0.0, 0.0);
        return (v, if pairing == "v" { Some(d) } else { None }, None);
    }
    match pairing {
        "xx" => { let (v, d) = dual_rule(op, x, 1.0, x, 1.0); (v, Some(d), None) }
        "vc" => { let (v, d) = dual_rule(op, x, 1.0, y, 0.0); (v, Some(d), None) }
        "cv" => { let (v, d) = dual_rule(op, x, 0.0, y, 1.0); (v, None, Some(d)) }
        "vn" => { let (v, d) = dual_rule_number(op, x, 1.0, y); (v, Some(d), None) }
        // number ^ trace: (v' * u^v * ln(u))
        "nv" => (x.powf(y), None, Some(1.0 * x.powf(y) * x.ln())),
        _ => { let (v, _) = dual_rule(op, x, 0.0, y, 0.0); (v, None, None) }
    }
}

fn f64_run_trace(op: &str, pairing: &str, x: f64, y: f64, via: &str) -> Result<(f64, Option<f64>, Option<f64>), PanicKind> {
    catch(|| {
        let mk = |is_var: bool, v: f64| if is_var { Trace::variable(v) } else { Trace::constant(v) };
        if is_unary(op) {
            let a = mk(pairing == "v", x);
            let r = match op {
                "neg" => op2!(via, &a, Neg::neg),
                "sin" => op2!(via, &a, Sin::sin),
                "cos" => op2!(via, &a, Cos::cos),
                "exp" => op2!(via, &a, Exp::exp),
                "ln" => op2!(via, &a, Ln::ln),
                _ => op2!(via, &a, Sqrt::sqrt),
            };
            return (r.number, if pairing == "v" { Some(r.derivative) } else { None }, None);
        }
        let (xv, yv) = match pairing {
            "vc" | "vn" | "xx" => (true, false),
            "cv" | "nv" => (false, true),
            _ => (false, false),
        };
        let a = mk(xv, x);
        let b = mk(yv, y);
        let r = match (pairing, op) {
            ("xx", "add") => op4!(via, &a, &a, Add::add),
            ("xx", "sub") => op4!(via, &a, &a, Sub::sub),
            ("xx", "mul") => op4!(via, &a, &a, Mul::mul),
            ("xx", "div") => op4!(via, &a, &a, Div::div),
            ("xx", _) => op4!(via, &a, &a, Pow::pow),
            ("vn", "add") => op4!(via, &a, &y, Add::add),
            ("vn", "sub") => op4!(via, &a, &y, Sub::sub),
            ("vn", "mul") => op4!(via, &a, &y, Mul::mul),
            ("vn", "div") => op4!(via, &a, &y, Div::div),
            ("vn", _) => op4!(via, &a, &y, Pow::pow),
            ("nv", _) => op4!(via, &x, &b, Pow::pow),
            (_, "add") => op4!(via, &a, &b, Add::add),
            (_, "sub") => op4!(via, &a, &b, Sub::sub),
            (_, "mul") => op4!(via, &a, &b, Mul::mul),
            (_, "div") => op4!(via, &a, &b, Div::div),
            (_, _) => op4!(via, &a, &b, Pow::pow),
        };
        (r.number, if xv { Some(r.derivative) } else { None }, if yv { Some(r.derivative) } else { None })
    })
}

fn f64_line_trace(toks: &[&str]) -> String {
    let (op, pairing) = (toks[3], toks[4]);
    let (x, y) = (parse_bits(toks[5]), parse_bits(toks[6]));
    let via = opt_arg("via", toks).unwrap_or("ref_ref");
    match f64_run_trace(op, pairing, x, y, via) {
        Ok(got) => f64_compare(got, f64_expect_trace(op, pairing, x, y), op == "neg"),
        Err(k) => panic_str(k),
    }
}

// ---------------------------------------------------------------------------------------------
// integer element types at their boundary values (see c04.rs): Trace<i32> / Trace<i64>
// ---------------------------------------------------------------------------------------------

macro_rules! int_trace_checks {
    ($T:ty, $modname:ident) => {
        mod $modname {
            use super::*;
            type Out = Result<($T, Option<$T>, Option<$T>), PanicKind>;
            /// value then derivative, as the rules are documented
            fn rule(op: &str, u: $T, du: $T, v: $T, dv: $T) -> ($T, $T) {
                match op {
                    "add" => (u + v, du + dv),
                    "sub" => (u - v, du - dv),
                    "mul" => (u * v, (du * v) + (u * dv)),
                    "div" => (u / v, ((du * v) - (u * dv)) / (v * v)),
                    // the plain computation; Trace computes `Trace::zero() - self`, which is the
                    // same number and the same overflow for MIN
                    _ => (-u, 0 - du),
                }
            }
            fn rule_number(op: &str, u: $T, du: $T, c: $T) -> ($T, $T) {
                match op {
                    "add" => (u + c, du),
                    "sub" => (u - c, du),
                    "mul" => (u * c, du * c),
                    _ => (u / c, (du * c) / (c * c)),
                }
            }
            fn expect(op: &str, pairing: &str, x: $T, y: $T) -> Out {
                catch(|| match pairing {
                    "v" => { let (v, d) = rule(op, x, 1, 0, 0); (v, Some(d), None) }
                    "c" => { let (v, _) = rule(op, x, 0, 0, 0); (v, None, None) }
                    "xx" => { let (v, d) = rule(op, x, 1, x, 1); (v, Some(d), None) }
                    "vc" => { let (v, d) = rule(op, x, 1, y, 0); (v, Some(d), None) }
                    "cv" => { let (v, d) = rule(op, x, 0, y, 1); (v, None, Some(d)) }
                    "vn" => { let (v, d) = rule_number(op, x, 1, y); (v, Some(d), None) }
                    _ => { let (v, _) = rule(op, x, 0, y, 0); (v, None, None) }
                })
            }
            fn run(op: &str, pairing: &str, x: $T, y: $T, via: &str) -> Out {
                catch(|| {
                    let mk = |is_var: bool, v: $T| if is_var { Trace::variable(v) } else { Trace::constant(v) };
                    if op == "neg" {
                        let a = mk(pairing == "v", x);
                        let r = op2!(via, &a, Neg::neg);
                        return (r.number, if pairing == "v" { Some(r.derivative) } else { None }, None);
                    }
                    let (xv, yv) = match pairing {
                        "vc" | "vn" | "xx" => (true, false),
                        "cv" => (false, true),
                        _ => (false, false),
                    };
                    let a = mk(xv, x);
                    let b = mk(yv, y);
                    let r = match (pairing, op) {
                        ("xx", "add") => op4!(via, &a, &a, Add::add),
                        ("xx", "sub") => op4!(via, &a, &a, Sub::sub),
                        ("xx", "mul") => op4!(via, &a, &a, Mul::mul),
                        ("xx", _) => op4!(via, &a, &a, Div::div),
                        ("vn", "add") => op4!(via, &a, &y, Add::add),
                        ("vn", "sub") => op4!(via, &a, &y, Sub::sub),
                        ("vn", "mul") => op4!(via, &a, &y, Mul::mul),
                        ("vn", _) => op4!(via, &a, &y, Div::div),
                        (_, "add") => op4!(via, &a, &b, Add::add),
                        (_, "sub") => op4!(via, &a, &b, Sub::sub),
                        (_, "mul") => op4!(via, &a, &b, Mul::mul),
                        (_, _) => op4!(via, &a, &b, Div::div),
                    };
                    (r.number, if xv { Some(r.derivative) } else { None }, if yv { Some(r.derivative) } else { None })
                })
            }
            pub fn line(toks: &[&str]) -> String {
                let (op, pairing) = (toks[4], toks[5]);
                let (x, y): ($T, $T) = (toks[6].parse().unwrap(), toks[7].parse().unwrap());
                let via = opt_arg("via", toks).unwrap_or("ref_ref");
                let (got, want) = (run(op, pairing, x, y, via), expect(op, pairing, x, y));
                if got == want {
                    return "int=ok".into();
                }
                let sh = |r: &Out| match r {
                    Ok(t) => format!("{:?}", t),
                    Err(k) => panic_str(*k),
                };
                format!("int=DIFF got={} want={}", sh(&got), sh(&want))
            }
        }
    };
}
int_trace_checks!(i32, tint32);
int_trace_checks!(i64, tint64);

/// One run of the program with traces: `vals[k]` is the trace of instruction `k`.
/// `seed`: position of the input that is the `Trace::variable`.
fn trace_arith<T>(vals: &[Trace<T>], names: &Names, toks: &[&str], seed: Option<usize>) -> Option<Trace<T>>
where
    T: Numeric + Primitive + El,
    for<'a> &'a T: NumericRef<T>,
{
    let via = opt_arg("via", toks).unwrap_or("");
    let tr = |s: &str| &vals[names[s]];
    let r = match toks[0] {
        "const" => {
            let v = T::parse(toks[2]);
            match via {
                "zero" => <Trace<T> as ZeroOne>::zero(),
                "one" => <Trace<T> as ZeroOne>::one(),
                "from_usize" => <Trace<T> as FromUsize>::from_usize(toks[2].parse().unwrap()).unwrap(),
                _ => Trace::constant(v),
            }
        }
        "var" => {
            let v = T::parse(toks[2]);
            if seed == Some(vals.len()) {
                match via {
                    // the two ways of making the variable: constructor and struct literal
                    "list" => Trace { number: v, derivative: T::one() },
                    _ => Trace::variable(v),
                }
            } else {
                Trace::constant(v)
            }
        }
        "add" => { let (a, b) = (tr(toks[2]), tr(toks[3])); op4!(via, a, b, Add::add) }
        "sub" => { let (a, b) = (tr(toks[2]), tr(toks[3])); op4!(via, a, b, Sub::sub) }
        "mul" => { let (a, b) = (tr(toks[2]), tr(toks[3])); op4!(via, a, b, Mul::mul) }
        "div" => { let (a, b) = (tr(toks[2]), tr(toks[3])); op4!(via, a, b, Div::div) }
        "addn" => { let (a, b) = (tr(toks[2]), &T::parse(toks[3])); op4!(via, a, b, Add::add) }
        "subn" => { let (a, b) = (tr(toks[2]), &T::parse(toks[3])); op4!(via, a, b, Sub::sub) }
        "muln" => { let (a, b) = (tr(toks[2]), &T::parse(toks[3])); op4!(via, a, b, Mul::mul) }
        "divn" => { let (a, b) = (tr(toks[2]), &T::parse(toks[3])); op4!(via, a, b, Div::div) }
        // there is no `number - trace`: "you can just lift a constant to a Trace with ease"
        "subsw" => {
            let (a, b) = (&Trace::constant(T::parse(toks[3])), tr(toks[2]));
            op4!(via, a, b, Sub::sub)
        }
        "divsw" => {
            let (a, b) = (&Trace::constant(T::parse(toks[3])), tr(toks[2]));
            op4!(via, a, b, Div::div)
        }
        "neg" => { let a = tr(toks[2]); op2!(via, a, Neg::neg) }
        "clone" => match via {
            "clone_from" => {
                let mut d = vals.first().cloned().unwrap_or_else(|| Trace::constant(T::zero()));
                Clone::clone_from(&mut d, tr(toks[2]));
                d
            }
            _ => Clone::clone(tr(toks[2])),
        },
        "sum" => {
            let items: Vec<Trace<T>> = split_comma(toks[2]).iter().map(|s| tr(s).clone()).collect();
            items.into_iter().sum::<Trace<T>>()
        }
        "unary" => {
            let a = tr(toks[2]);
            let (f, df) = unary_fn::<T>(opt_arg("fn", toks).unwrap());
            a.unary(f, df)
        }
        "binary" => {
            let (a, b) = (tr(toks[2]), tr(toks[3]));
            let (f, dfx, dfy) = binary_fn::<T>(opt_arg("fn", toks).unwrap());
            a.binary(b, f, dfx, dfy)
        }
        _ => return None,
    };
    Some(r)
}

fn trace_real(vals: &[Trace<Fp>], names: &Names, toks: &[&str]) -> Option<Trace<Fp>> {
    let via = opt_arg("via", toks).unwrap_or("");
    let tr = |s: &str| &vals[names[s]];
    let r = match toks[0] {
        "const" if via == "pi" => <Trace<Fp> as Pi>::pi(),
        "sin" => { let a = tr(toks[2]); op2!(via, a, Sin::sin) }
        "cos" => { let a = tr(toks[2]); op2!(via, a, Cos::cos) }
        "exp" => { let a = tr(toks[2]); op2!(via, a, Exp::exp) }
        "ln" => { let a = tr(toks[2]); op2!(via, a, Ln::ln) }
        "sqrt" => { let a = tr(toks[2]); op2!(via, a, Sqrt::sqrt) }
        "pow" => { let (a, b) = (tr(toks[2]), tr(toks[3])); op4!(via, a, b, Pow::pow) }
        "pown" => { let (a, b) = (tr(toks[2]), &Fp::parse(toks[3])); op4!(via, a, b, Pow::pow) }
        "npow" => { let (a, b) = (&Fp::parse(toks[2]), tr(toks[3])); op4!(via, a, b, Pow::pow) }
        _ => return None,
    };
    Some(r)
}

/// Element types of the trace runs: how one instruction is executed.
trait TraceEl: Numeric + Primitive + El {
    fn instr(vals: &[Trace<Self>], names: &Names, toks: &[&str], seed: Option<usize>) -> Option<Trace<Self>>;
    fn rec_instr(c: &CaseG<Self>, toks: &[&str]) -> Option<Result<Rc<Self>, PanicKind>>;
    fn derivs(c: &CaseG<Self>, toks: &[&str]) -> String;
}
impl TraceEl for Fp {
    fn instr(vals: &[Trace<Fp>], names: &Names, toks: &[&str], seed: Option<usize>) -> Option<Trace<Fp>> {
        trace_real(vals, names, toks).or_else(|| trace_arith::<Fp>(vals, names, toks, seed))
    }
    fn rec_instr(c: &CaseG<Fp>, toks: &[&str]) -> Option<Result<Rc<Fp>, PanicKind>> {
        real_instr(c, toks).or_else(|| arith_instr::<Fp>(c, toks, 0))
    }
    fn derivs(c: &CaseG<Fp>, toks: &[&str]) -> String {
        derivs_line::<Fp>(c, toks)
    }
}
impl TraceEl for Rat {
    fn instr(vals: &[Trace<Rat>], names: &Names, toks: &[&str], seed: Option<usize>) -> Option<Trace<Rat>> {
        trace_arith::<Rat>(vals, names, toks, seed)
    }
    fn rec_instr(c: &CaseG<Rat>, toks: &[&str]) -> Option<Result<Rc<Rat>, PanicKind>> {
        arith_instr::<Rat>(c, toks, 0)
    }
    fn derivs(c: &CaseG<Rat>, toks: &[&str]) -> String {
        derivs_line::<Rat>(c, toks)
    }
}

struct CaseT<T: TraceEl> {
    /// the same program with records on a tape
    rec: CaseG<T>,
    /// the instruction lines so far (a new input replays them)
    lines: Vec<Vec<String>>,
    /// per input: (position, traces of the run in which it is the variable)
    runs: Vec<(usize, Vec<Trace<T>>)>,
}

impl<T: TraceEl> CaseT<T> {
    fn new(via: &str) -> CaseT<T> {
        CaseT { rec: CaseG::new_via(1, via), lines: vec![], runs: vec![] }
    }

    /// the whole program so far with input `seed` as the variable
    fn replay(&self, seed: usize) -> Vec<Trace<T>> {
        let mut vals: Vec<Trace<T>> = vec![];
        for l in &self.lines {
            let toks: Vec<&str> = l.iter().map(|s| s.as_str()).collect();
            let t = T::instr(&vals, &self.rec.names, &toks, Some(seed)).expect("replay");
            vals.push(t);
        }
        vals
    }

    fn instr(&mut self, toks: &[&str]) -> String {
        let pos = self.rec.recs.len();
        // records first (keeps the name table)
        let r = match T::rec_instr(&self.rec, toks) {
            Some(Ok(r)) => r,
            Some(Err(k)) => return panic_str(k),
            None => return "bad-op".into(),
        };
        let value = r.number.clone();
        // traces: every existing run, before the name of this result is known
        let mut new_vals = vec![];
        for (seed, vals) in &self.runs {
            match catch(|| T::instr(vals, &self.rec.names, toks, Some(*seed))) {
                Ok(Some(t)) => new_vals.push(t),
                Ok(None) => return "bad-op".into(),
                Err(k) => return panic_str(k),
            }
        }
        for ((_, vals), t) in self.runs.iter_mut().zip(new_vals) {
            vals.push(t);
        }
        if toks[0] == "var" {
            self.rec.vars.push(pos);
        }
        self.rec.names.insert(toks[1].to_string(), pos);
        self.rec.recs.push(r);
        self.lines.push(toks.iter().map(|s| s.to_string()).collect());
        if toks[0] == "var" {
            let vals = self.replay(pos);
            self.runs.push((pos, vals));
        }
        let mut same_value = true;
        let ds: Vec<T> = self
            .runs
            .iter()
            .map(|(_, vals)| {
                same_value &= vals[pos].number == value;
                vals[pos].derivative.clone()
            })
            .collect();
        format!("v={} d={}{}", value, show_list(&ds), if same_value { "" } else { " VALUES-DIFFER" })
    }

    fn derivs(&self, toks: &[&str]) -> String {
        let k = self.rec.names[toks[1]];
        let fwd: Vec<T> = self.runs.iter().map(|(_, vals)| vals[k].derivative.clone()).collect();
        // `Trace::derivative(function, x)`: the whole program as a function of its first input
        let mut via_fn = true;
        if let Some((seed, vals)) = self.runs.first() {
            let x = vals[*seed].number.clone();
            let d = Trace::derivative(
                |t: Trace<T>| {
                    let mut vs: Vec<Trace<T>> = vec![];
                    for (i, l) in self.lines.iter().enumerate() {
                        let tk: Vec<&str> = l.iter().map(|s| s.as_str()).collect();
                        if i == *seed {
                            vs.push(t.clone());
                        } else {
                            vs.push(T::instr(&vs, &self.rec.names, &tk, None).expect("replay"));
                        }
                    }
                    vs[k].clone()
                },
                x,
            );
            via_fn = d == fwd[0];
        }
        let line = T::derivs(&self.rec, &["derivs", toks[1], "via=vec"]);
        let fn_note = if via_fn { "" } else { " DERIVATIVE-FN-DIFFERS" };
        if line == "panic(explicit)" {
            // reverse mode reports nothing for a constant: forward must report zeros
            let zero = T::zero();
            return if fwd.iter().all(|d| *d == zero) {
                format!("fwdrev=ok const{}", fn_note)
            } else {
                format!("fwdrev=DIFF const fwd={}", show_list(&fwd))
            };
        }
        let rev = line.split(" ## ").next().unwrap().trim_start_matches("d=").to_string();
        if rev == show_list(&fwd) {
            format!("fwdrev=ok d={}{}", rev, fn_note)
        } else {
            format!("fwdrev=DIFF d={} rev={}", show_list(&fwd), rev)
        }
    }

    /// `cmp` / `show` on traces: in every seeded run and in an all-constant run; the answers must
    /// be the same (they only depend on the numbers), and the same as for records
    fn observe(&self, toks: &[&str]) -> String {
        let mut runs: Vec<Vec<Trace<T>>> = self.runs.iter().map(|(_, v)| v.clone()).collect();
        runs.push(self.replay(usize::MAX));
        let via = opt_arg("via", toks).unwrap_or("ref");
        let mut answers: Vec<String> = runs
            .iter()
            .map(|vals| match toks[0] {
                "cmp" => {
                    let (a, b) = (&vals[self.rec.names[toks[2]]], &vals[self.rec.names[toks[3]]]);
                    cmp_answer(toks[1], via, a, b)
                }
                _ => format!("s={}", &vals[self.rec.names[toks[1]]]),
            })
            .collect();
        if let Some(r) = observe_line(&self.rec, toks) {
            answers.push(r);
        }
        let first = answers[0].clone();
        if answers.iter().all(|a| *a == first) {
            first
        } else {
            format!("{} RUNS-DIFFER {:?}", first, answers)
        }
    }

    fn step(&mut self, toks: &[&str]) -> String {
        let is_derivs = toks[0].ends_with("derivs");
        if !refs_ok(&self.rec.names, toks, refs_from(toks)) {
            return "bad-ref".into();
        }
        if toks[0] == "debug" {
            let k = self.rec.names[toks[1]];
            let texts: Vec<String> = self.runs.iter().map(|(_, vals)| format!("{:?}", vals[k])).collect();
            return format!("dbg ## {}", texts.join("|"));
        }
        if toks[0] == "cmp" || toks[0] == "show" {
            return match catch(|| self.observe(toks)) {
                Ok(s) => s,
                Err(k) => panic_str(k),
            };
        }
        if is_derivs {
            match catch(|| self.derivs(toks)) {
                Ok(s) => s,
                Err(k) => panic_str(k),
            }
        } else {
            self.instr(toks)
        }
    }
}

enum Case {
    None,
    Fp(CaseT<Fp>),
    Rat(CaseT<Rat>),
}

pub struct Runner {
    case: Case,
}

impl Runner {
    pub fn new() -> Runner {
        Runner { case: Case::None }
    }

    pub fn step(&mut self, toks: &[&str]) -> String {
        if toks.is_empty() {
            return "bad-op".into();
        }
        if toks[0] == "@" && toks.get(1) == Some(&"int") {
            self.case = Case::None;
            return if toks[3] == "i32" { tint32::line(toks) } else { tint64::line(toks) };
        }
        if toks[0] == "@" && toks.get(1) == Some(&"f64") {
            self.case = Case::None;
            if toks[4] == "nv" && toks[3] != "pow" {
                return "f64=ok".into(); // no number - trace / number / trace form exists
            }
            return f64_line_trace(toks);
        }
        if toks[0] == "@" {
            self.case = Case::None;
            let via = opt_arg("via", toks).unwrap_or("new");
            self.case = match toks.get(2) {
                Some(&"rat") => Case::Rat(CaseT::new(via)),
                _ => Case::Fp(CaseT::new(via)),
            };
            return "ok".into();
        }
        match &mut self.case {
            Case::None => "bad-op".into(),
            Case::Fp(c) => c.step(toks),
            Case::Rat(c) => c.step(toks),
        }
    }
}
