//! C03 — tensor and matrix arithmetic.  See lean/Driver/C03.lean for the protocol.
//!
//! Operand forms (`via=<left>-<right>`), tensors:
//!   t / rt        `Tensor` by value / by reference                    (plain tensors only)
//!   v / rv        `TensorView<T, Tensor<T, D>, D>` by value / by reference   (plain tensors only)
//!   qv / rqv      `TensorView<T, &Tensor<T, D>, D>`                     (plain tensors only)
//!   av / rav      `TensorView<T, TensorAccess<T, Tensor<T, D>, D>, D>`  (exactly one `access` adaptor)
//!   xv / rxv      `TensorView<T, TensorTranspose<T, Tensor<T, D>, D>, D>` (exactly one `transpose`)
//!   bv / rbv      `TensorView<T, Box<dyn TensorRef<T, D>>, D>`          (any adaptor chain)
//! matrices: m / rm, w / rw (`MatrixView<T, Matrix<T>>`), qw / rqw (`MatrixView<T, &Matrix<T>>`),
//!   gw / rgw (`MatrixView<T, MatrixRange<T, Matrix<T>>>`, exactly one `range`), bw / rbw (boxed),
//!   tw / rtw (`MatrixView<T, MatrixRefTensor<T, TensorAccess<T, Tensor<T, 2>, 2>>>`: a matrix view
//!   of a tensor accessed in another dimension order — its `data_layout()` is `ColumnMajor`).
//! The 16 forms of the operator macros are {owned, borrowed} x {container, view} on each side;
//! every view flavour above counts as "view".

use crate::exact::{Fp, Rat, P};
use crate::util::*;
use easy_ml::interop::MatrixRefTensor;
use easy_ml::matrices::views::{MatrixRange, MatrixRef, MatrixReverse, MatrixView, Reverse};
use easy_ml::matrices::Matrix;
use easy_ml::tensors::indexing::{TensorAccess, TensorTranspose};
use easy_ml::tensors::views::{TensorChain, TensorMask, TensorRange, TensorRef, TensorRename, TensorReverse, TensorStack, TensorView};
use easy_ml::tensors::Tensor;

// ---------------------------------------------------------------------------------------------
// element types
// ---------------------------------------------------------------------------------------------

pub trait Elem: Clone + 'static {
    fn parse(s: &str) -> Self;
    fn show(&self) -> String;
}
impl Elem for Fp {
    fn parse(s: &str) -> Fp { Fp::new(s.parse::<u64>().expect("fp")) }
    fn show(&self) -> String { self.0.to_string() }
}
impl Elem for Rat {
    fn parse(s: &str) -> Rat {
        match s.split_once('/') {
            Some((n, d)) => Rat::new(n.parse().expect("rat n"), d.parse().expect("rat d")),
            None => Rat::new(s.parse().expect("rat"), 1),
        }
    }
    fn show(&self) -> String { format!("{}", self) }
}
/// `f64` runs use integer-valued data only: `+ - *` on small integers are exact in binary
/// floating point, so the answers are compared as integers with the integer model (division and
/// rounding behaviour of floats are not part of these runs).
impl Elem for f64 {
    fn parse(s: &str) -> f64 { s.parse::<i64>().expect("integer-valued f64") as f64 }
    fn show(&self) -> String {
        assert!(self.fract() == 0.0 && self.abs() < 9.0e15, "f64 run left the exact integer range");
        (*self as i64).to_string()
    }
}
/// `Trace<Fp>` elements (forward-mode dual numbers): `v~d` is a value with derivative part `d`,
/// a bare `v` a constant; used by C14's element-type axis.
impl Elem for easy_ml::differentiation::Trace<Fp> {
    fn parse(s: &str) -> Self {
        match s.split_once('~') {
            Some((v, d)) => easy_ml::differentiation::Trace { number: <Fp as Elem>::parse(v), derivative: <Fp as Elem>::parse(d) },
            None => easy_ml::differentiation::Trace::constant(<Fp as Elem>::parse(s)),
        }
    }
    fn show(&self) -> String { format!("{}~{}", self.number.0, self.derivative.0) }
}
impl Elem for i64 {
    fn parse(s: &str) -> i64 { s.parse().expect("i64") }
    fn show(&self) -> String { self.to_string() }
}

fn show_vals<T: Elem>(v: impl Iterator<Item = T>) -> String {
    let s: Vec<String> = v.map(|x| x.show()).collect();
    if s.is_empty() { "-".into() } else { s.join(",") }
}

fn parse_pairs(s: &str) -> Vec<(usize, usize)> {
    split_comma(s)
        .iter()
        .map(|p| {
            let (a, b) = p.split_once(':').expect("start:len");
            (a.parse().unwrap(), b.parse().unwrap())
        })
        .collect()
}

// ---------------------------------------------------------------------------------------------
// generation
// ---------------------------------------------------------------------------------------------

const T_PLAIN: [&str; 8] = ["t", "rt", "v", "rv", "qv", "rqv", "bv", "rbv"];
const T_ACCESS: [&str; 4] = ["av", "rav", "bv", "rbv"];
const T_TRANSPOSE: [&str; 4] = ["xv", "rxv", "bv", "rbv"];
const T_BOXED: [&str; 2] = ["bv", "rbv"];
const T_LITE: [&str; 4] = ["t", "rt", "bv", "rbv"];
const M_LITE: [&str; 4] = ["m", "rm", "bw", "rbw"];
const M_PLAIN: [&str; 8] = ["m", "rm", "w", "rw", "qw", "rqw", "bw", "rbw"];
const M_RANGE: [&str; 4] = ["gw", "rgw", "bw", "rbw"];
const M_BOXED: [&str; 2] = ["bw", "rbw"];
const M_TENSOR: [&str; 4] = ["tw", "rtw", "bw", "rbw"];

fn is_main_t(f: &str) -> bool {
    matches!(f, "t" | "rt" | "v" | "rv" | "bv" | "rbv")
}
fn is_main_m(f: &str) -> bool {
    matches!(f, "m" | "rm" | "w" | "rw" | "bw" | "rbw")
}
/// the main flavour with the same macro form as an extra flavour
fn main_of(f: &'static str) -> &'static str {
    match f {
        "qv" => "v", "rqv" => "rv", "av" | "xv" => "bv", "rav" | "rxv" => "rbv",
        "qw" => "w", "rqw" => "rw", "gw" | "tw" => "bw", "rgw" | "rtw" => "rbw",
        other => other,
    }
}
/// the harness pairs an extra (statically typed) flavour only with `rt`/`bv` (`rm`/`bw`)
fn fix_pair(lf: &'static str, rf: &'static str) -> (&'static str, &'static str) {
    let main = |f: &str| is_main_t(f) || is_main_m(f);
    let two = |f: &str| matches!(f, "rt" | "bv" | "rm" | "bw");
    if main(lf) && main(rf) {
        (lf, rf)
    } else if !main(lf) && two(rf) {
        (lf, rf)
    } else if !main(rf) && two(lf) {
        (lf, rf)
    } else if !main(lf) && !main(rf) {
        (main_of(lf), main_of(rf))
    } else if !main(lf) {
        (main_of(lf), rf)
    } else {
        (lf, main_of(rf))
    }
}

/// which of the four macro forms (owned/borrowed x container/view) a flavour belongs to
fn base_form(f: &str) -> &'static str {
    match f {
        "t" | "m" => "owned-container",
        "rt" | "rm" => "ref-container",
        _ if f.starts_with('r') => "ref-view",
        _ => "owned-view",
    }
}

#[derive(Clone, Copy, PartialEq)]
enum Ety { Fp, Rat, I64, F64 }

impl Ety {
    fn name(self) -> &'static str {
        match self { Ety::Fp => "fp", Ety::Rat => "rat", Ety::I64 => "i64", Ety::F64 => "f64" }
    }
}

fn rand_val(g: &mut Gen, e: Ety) -> String {
    match e {
        Ety::Fp => match g.rng.below(12) {
            0 => "0".into(),
            1 => "1".into(),
            2 => (P - 1).to_string(),
            _ => (g.rng.next() % P).to_string(),
        },
        Ety::Rat => {
            let n = g.rng.below(19) as i64 - 9;
            let d = g.rng.range(1, 4) as i64;
            Rat::new(n as i128, d as i128).show()
        }
        Ety::I64 | Ety::F64 => (g.rng.below(41) as i64 - 20).to_string(),
    }
}

fn rand_vals(g: &mut Gen, e: Ety, n: usize) -> String {
    if n == 0 {
        return "-".into();
    }
    // degenerate data: all zero, all equal, many zeros, duplicates from a pool of two
    if g.rng.chance(1, 8) {
        let (a, b) = (rand_val(g, e), rand_val(g, e));
        let mode = g.rng.below(4);
        g.count(&format!("data.degenerate.mode{}", mode));
        return (0..n)
            .map(|_| match mode {
                0 => "0".to_string(),
                1 => a.clone(),
                2 => if g.rng.chance(2, 3) { "0".to_string() } else { a.clone() },
                _ => if g.rng.chance(1, 2) { a.clone() } else { b.clone() },
            })
            .collect::<Vec<_>>()
            .join(",");
    }
    (0..n).map(|_| rand_val(g, e)).collect::<Vec<_>>().join(",")
}

/// An operand available in the current case: its name, its view shape and the forms it admits.
#[derive(Clone)]
struct GOp {
    name: String,
    shape: Vec<(&'static str, usize)>,
    forms: &'static [&'static str],
    kind: &'static str,
}

struct CaseGen<'a> {
    g: &'a mut Gen,
    e: Ety,
    next: usize,
    /// only the four main operand flavours (dimensionalities 5 and 6)
    force_lite: bool,
}

impl<'a> CaseGen<'a> {
    fn new(g: &'a mut Gen, e: Ety) -> CaseGen<'a> {
        g.op(format!("@ {}", e.name()));
        g.count(&format!("case.ety={}", e.name()));
        CaseGen { g, e, next: 0, force_lite: false }
    }
    fn lite(&self) -> bool {
        self.e != Ety::Fp || self.force_lite
    }
    fn fresh(&mut self, prefix: &str) -> String {
        self.next += 1;
        format!("{}{}", prefix, self.next)
    }
    fn tensor(&mut self, shape: &[(&'static str, usize)]) -> GOp {
        let name = self.fresh("T");
        let n: usize = shape.iter().map(|d| d.1).product();
        let vals = rand_vals(self.g, self.e, n);
        self.g.op(format!("t {} {} {}", name, show_shape(shape), vals));
        let forms: &'static [&'static str] = if self.lite() { &T_LITE } else { &T_PLAIN };
        GOp { name, shape: shape.to_vec(), forms, kind: "tensor" }
    }
    /// a view with view shape `shape` whose iteration order differs from its storage order (or
    /// that at least goes through the adaptor's index mapping)
    fn view_with_shape(&mut self, shape: &[(&'static str, usize)], kind: usize) -> GOp {
        let d = shape.len();
        let mut perm: Vec<usize> = (0..d).collect();
        self.g.rng.shuffle(&mut perm);
        match kind {
            0 => {
                // TensorAccess: source has the dimensions in permuted order
                let src: Vec<(&'static str, usize)> = perm.iter().map(|&p| shape[p]).collect();
                let s = self.tensor(&src);
                let name = self.fresh("V");
                let names: Vec<&str> = shape.iter().map(|d| d.0).collect();
                self.g.op(format!("v {} {} access {}", name, s.name, show_names(&names)));
                self.g.count("operand.view.access");
                if perm.iter().enumerate().any(|(i, &p)| i != p) {
                    self.g.count("operand.view.order_differs_from_storage");
                }
                let forms: &'static [&'static str] = if self.lite() { &T_BOXED } else { &T_ACCESS };
                GOp { name, shape: shape.to_vec(), forms, kind: "access" }
            }
            1 => {
                // TensorTranspose: names stay in source order, lengths follow the request.
                // source names = shape names (in order), source length of name n = shape length
                // at the position where n is requested.
                // request order `req` (a permutation of the names); view length at position i is the
                // source length of req[i]; so source length of req[i] must be shape[i].1
                let req: Vec<&'static str> = perm.iter().map(|&p| shape[p].0).collect();
                let mut src: Vec<(&'static str, usize)> = shape.to_vec();
                for (i, n) in req.iter().enumerate() {
                    let pos = shape.iter().position(|d| d.0 == *n).unwrap();
                    src[pos].1 = shape[i].1;
                }
                let s = self.tensor(&src);
                let name = self.fresh("V");
                self.g.op(format!("v {} {} transpose {}", name, s.name, show_names(&req)));
                self.g.count("operand.view.transpose");
                if perm.iter().enumerate().any(|(i, &p)| i != p) {
                    self.g.count("operand.view.order_differs_from_storage");
                }
                let forms: &'static [&'static str] = if self.lite() { &T_BOXED } else { &T_TRANSPOSE };
                GOp { name, shape: shape.to_vec(), forms, kind: "transpose" }
            }
            2 => {
                // TensorRange of a larger tensor
                let mut src = shape.to_vec();
                let mut ranges = vec![];
                for dd in src.iter_mut() {
                    let before = self.g.rng.below(3);
                    let after = self.g.rng.below(3);
                    ranges.push(format!("{}:{}", before, dd.1));
                    dd.1 += before + after;
                }
                let s = self.tensor(&src);
                let name = self.fresh("V");
                let r = if ranges.is_empty() { "-".to_string() } else { ranges.join(",") };
                self.g.op(format!("v {} {} range {}", name, s.name, r));
                self.g.count("operand.view.range");
                GOp { name, shape: shape.to_vec(), forms: &T_BOXED, kind: "range" }
            }
            3 => {
                // TensorReverse of some dimensions
                let s = self.tensor(shape);
                let name = self.fresh("V");
                let mut names: Vec<&str> = shape.iter().map(|d| d.0).filter(|_| self.g.rng.chance(2, 3)).collect();
                self.g.rng.shuffle(&mut names);
                self.g.op(format!("v {} {} reverse {}", name, s.name, show_names(&names)));
                self.g.count("operand.view.reverse");
                if shape.iter().any(|d| names.contains(&d.0) && d.1 > 1) {
                    self.g.count("operand.view.order_differs_from_storage");
                }
                GOp { name, shape: shape.to_vec(), forms: &T_BOXED, kind: "reverse" }
            }
            4 => {
                // TensorRename from other names
                let src: Vec<(&'static str, usize)> =
                    shape.iter().enumerate().map(|(i, d)| (intern(&format!("n{}", i)), d.1)).collect();
                let s = self.tensor(&src);
                let name = self.fresh("V");
                let names: Vec<&str> = shape.iter().map(|d| d.0).collect();
                self.g.op(format!("v {} {} rename {}", name, s.name, show_names(&names)));
                self.g.count("operand.view.rename");
                GOp { name, shape: shape.to_vec(), forms: &T_BOXED, kind: "rename" }
            }
            8 => {
                // TensorMask of a larger tensor: a block of junk hidden inside every dimension
                let mut src = shape.to_vec();
                let mut masks = vec![];
                for dd in src.iter_mut() {
                    let hidden = self.g.rng.below(3);
                    let start = self.g.rng.below(dd.1 + 1);
                    masks.push(format!("{}:{}", start, hidden));
                    dd.1 += hidden;
                }
                let s = self.tensor(&src);
                let name = self.fresh("V");
                let m = if masks.is_empty() { "-".to_string() } else { masks.join(",") };
                self.g.op(format!("v {} {} mask {}", name, s.name, m));
                self.g.count("operand.view.mask");
                GOp { name, shape: shape.to_vec(), forms: &T_BOXED, kind: "mask" }
            }
            6 | 7 if self.stackable(shape, kind) => {
                let d = shape.len();
                if kind == 6 {
                    // TensorStack of `n` sources of one dimension less, along position `p`
                    let cands: Vec<usize> = (0..d).filter(|&p| shape[p].1 <= 4).collect();
                    let p = cands[self.g.rng.below(cands.len())];
                    let n = shape[p].1;
                    let sub: Vec<(&'static str, usize)> = shape.iter().enumerate().filter(|(i, _)| *i != p).map(|(_, x)| *x).collect();
                    let mut srcs = vec![];
                    for _ in 0..n {
                        let o = if self.g.rng.chance(2, 3) { self.tensor(&sub) } else { let k = self.g.rng.below(6); self.view_with_shape(&sub, k) };
                        srcs.push(o.name);
                    }
                    let via = if n == 1 || self.g.rng.chance(1, 3) { "array" } else { "tuple" };
                    let name = self.fresh("K");
                    self.g.op(format!("k {} stack {} {}:{} via={}", name, srcs.join(","), p, wn(shape[p].0), via));
                    self.g.count(&format!("operand.view.stack.{}{}", via, n));
                    GOp { name, shape: shape.to_vec(), forms: &T_BOXED, kind: "stack" }
                } else {
                    // TensorChain of 2..4 sources of different lengths along dimension `p`
                    let cands: Vec<usize> = (0..d).filter(|&p| shape[p].1 >= 2).collect();
                    let p = cands[self.g.rng.below(cands.len())];
                    let total = shape[p].1;
                    let parts_n = self.g.rng.range(2, total.min(4));
                    let mut parts = vec![1usize; parts_n];
                    for _ in 0..(total - parts_n) {
                        let i = self.g.rng.below(parts_n);
                        parts[i] += 1;
                    }
                    let mut srcs = vec![];
                    for len in &parts {
                        let mut sub = shape.to_vec();
                        sub[p].1 = *len;
                        let o = if self.g.rng.chance(2, 3) { self.tensor(&sub) } else { let k = self.g.rng.below(6); self.view_with_shape(&sub, k) };
                        srcs.push(o.name);
                    }
                    let via = if self.g.rng.chance(1, 3) { "array" } else { "tuple" };
                    let name = self.fresh("K");
                    self.g.op(format!("k {} chain {} {} via={}", name, srcs.join(","), wn(shape[p].0), via));
                    self.g.count(&format!("operand.view.chain.{}{}", via, parts_n));
                    if parts.iter().any(|l| *l != parts[0]) {
                        self.g.count("operand.view.chain.sources_of_different_lengths");
                    }
                    GOp { name, shape: shape.to_vec(), forms: &T_BOXED, kind: "chain" }
                }
            }
            _ => {
                // a chain: access over reverse over range
                let src: Vec<(&'static str, usize)> = perm.iter().map(|&p| (shape[p].0, shape[p].1 + 1)).collect();
                let s = self.tensor(&src);
                let n1 = self.fresh("V");
                let ranges: Vec<String> = src.iter().map(|d| format!("{}:{}", self.g.rng.below(2), d.1 - 1)).collect();
                let r = if ranges.is_empty() { "-".to_string() } else { ranges.join(",") };
                self.g.op(format!("v {} {} range {}", n1, s.name, r));
                let n2 = self.fresh("V");
                let rev: Vec<&str> = src.iter().map(|d| d.0).filter(|_| self.g.rng.chance(1, 2)).collect();
                self.g.op(format!("v {} {} reverse {}", n2, n1, show_names(&rev)));
                let name = self.fresh("V");
                let names: Vec<&str> = shape.iter().map(|d| d.0).collect();
                self.g.op(format!("v {} {} access {}", name, n2, show_names(&names)));
                self.g.count("operand.view.chain3");
                self.g.count("operand.view.order_differs_from_storage");
                GOp { name, shape: shape.to_vec(), forms: &T_BOXED, kind: "chain" }
            }
        }
    }
    /// can a view of this shape be a TensorStack (kind 6) / TensorChain (kind 7) in the harness?
    fn stackable(&self, shape: &[(&'static str, usize)], kind: usize) -> bool {
        let d = shape.len();
        if kind == 6 {
            d >= 1 && d <= 3 && shape.iter().any(|x| x.1 <= 4)
        } else {
            d >= 1 && d <= 3 && shape.iter().any(|x| x.1 >= 2)
        }
    }
    fn matrix(&mut self, rows: usize, cols: usize) -> GOp {
        let name = self.fresh("M");
        let vals = rand_vals(self.g, self.e, rows * cols);
        self.g.op(format!("m {} {} {} {}", name, rows, cols, vals));
        let forms: &'static [&'static str] = if self.lite() { &M_LITE } else { &M_PLAIN };
        GOp { name, shape: vec![("row", rows), ("column", cols)], forms, kind: "matrix" }
    }
    fn matrix_view(&mut self, rows: usize, cols: usize, kind: usize) -> GOp {
        match kind {
            0 => {
                let (rb, ra, cb, ca) = (self.g.rng.below(3), self.g.rng.below(2), self.g.rng.below(3), self.g.rng.below(2));
                let s = self.matrix(rows + rb + ra, cols + cb + ca);
                let name = self.fresh("W");
                self.g.op(format!("w {} {} range {}:{} {}:{}", name, s.name, rb, rows, cb, cols));
                self.g.count("operand.matrixview.range");
                let forms: &'static [&'static str] = if self.lite() { &M_BOXED } else { &M_RANGE };
                GOp { name, shape: vec![("row", rows), ("column", cols)], forms, kind: "mrange" }
            }
            1 => {
                let s = self.matrix(rows, cols);
                let name = self.fresh("W");
                let flags = ["01", "10", "11"][self.g.rng.below(3)];
                self.g.op(format!("w {} {} reverse {}", name, s.name, flags));
                self.g.count("operand.matrixview.reverse");
                GOp { name, shape: vec![("row", rows), ("column", cols)], forms: &M_BOXED, kind: "mreverse" }
            }
            3 | 4 | 5 | 6 => {
                // MatrixRefTensor over a tensor view: 3 = TensorAccess in swapped dimension order
                // (data_layout ColumnMajor), 4 = the same with a MatrixRange on top, 5 = a
                // TensorTranspose, 6 = the plain tensor (RowMajor)
                let (extra_r, extra_c) = if kind == 4 { (self.g.rng.below(2) + 1, self.g.rng.below(2)) } else { (0, 0) };
                let (tr, tc) = (rows + extra_r, cols + extra_c);
                let view_name = match kind {
                    3 | 4 => {
                        let t = self.tensor(&[(intern("c"), tc), (intern("r"), tr)]);
                        let v = self.fresh("V");
                        self.g.op(format!("v {} {} access r,c", v, t.name));
                        v
                    }
                    5 => {
                        let t = self.tensor(&[(intern("r"), tc), (intern("c"), tr)]);
                        let v = self.fresh("V");
                        self.g.op(format!("v {} {} transpose c,r", v, t.name));
                        v
                    }
                    _ => self.tensor(&[(intern("r"), tr), (intern("c"), tc)]).name,
                };
                let w = self.fresh("W");
                self.g.op(format!("w {} {} oftensor", w, view_name));
                self.g.count(&format!("operand.matrixview.oftensor.kind{}", kind));
                if kind == 4 {
                    let name = self.fresh("W");
                    let (rb, cb) = (self.g.rng.below(extra_r + 1), self.g.rng.below(extra_c + 1));
                    self.g.op(format!("w {} {} range {}:{} {}:{}", name, w, rb, rows, cb, cols));
                    return GOp { name, shape: vec![("row", rows), ("column", cols)], forms: &M_BOXED, kind: "moftensor_range" };
                }
                let forms: &'static [&'static str] = if self.e == Ety::Fp && kind == 3 { &M_TENSOR } else { &M_BOXED };
                GOp { name: w, shape: vec![("row", rows), ("column", cols)], forms, kind: "moftensor" }
            }
            _ => {
                let s = self.matrix(rows + 1, cols + 1);
                let n1 = self.fresh("W");
                self.g.op(format!("w {} {} reverse 11", n1, s.name));
                let name = self.fresh("W");
                let (rb, cb) = (self.g.rng.below(2), self.g.rng.below(2));
                self.g.op(format!("w {} {} range {}:{} {}:{}", name, n1, rb, rows, cb, cols));
                self.g.count("operand.matrixview.chain2");
                GOp { name, shape: vec![("row", rows), ("column", cols)], forms: &M_BOXED, kind: "mchain" }
            }
        }
    }
    fn pick_form(&mut self, o: &GOp, want: &str) -> &'static str {
        // a flavour of `o` belonging to the macro form `want`, if it has one
        let c: Vec<&'static str> = o.forms.iter().copied().filter(|f| base_form(f) == want).collect();
        if c.is_empty() { o.forms[self.g.rng.below(o.forms.len())] } else { c[self.g.rng.below(c.len())] }
    }
    fn pick_from(&mut self, o: &GOp, want: &str, allowed: &[&str]) -> &'static str {
        let all: Vec<&'static str> = o.forms.iter().copied().filter(|f| allowed.contains(f)).collect();
        let c: Vec<&'static str> = all.iter().copied().filter(|f| base_form(f) == want).collect();
        if c.is_empty() { all[self.g.rng.below(all.len())] } else { c[self.g.rng.below(c.len())] }
    }
    fn binop(&mut self, op: &str, l: &GOp, r: &GOp, lf: &'static str, rf: &'static str, tag: &str) {
        let (lf, rf) = if op == "dot" { (lf, rf) } else { fix_pair(lf, rf) };
        if !(is_main_t(lf) || is_main_m(lf)) || !(is_main_t(rf) || is_main_m(rf)) {
            self.g.count(&format!("{}.{}.static_flavour.{}", tag, op, if is_main_t(lf) || is_main_m(lf) { rf } else { lf }));
        }
        self.g.op(format!("{} {} {} via={}-{}", op, l.name, r.name, lf, rf));
        self.g.count(&format!("{}.{}.form.{}+{}", tag, op, base_form(lf), base_form(rf)));
        self.g.count(&format!("{}.{}.operands.{}+{}", tag, op, l.kind, r.kind));
    }
}

const RECEIVERS: [&str; 4] = ["rt", "rv", "rav", "rbv"];
const RHS: [&str; 5] = ["t", "rt", "rv", "bv", "rbv"];
const FORMS4: [&str; 4] = ["owned-container", "ref-container", "owned-view", "ref-view"];

/// the wire token of a dimension name (the empty name is written `_empty_`)
fn wn(n: &str) -> &str {
    if n.is_empty() { EMPTY_NAME } else { n }
}

fn names_for(g: &mut Gen, d: usize) -> Vec<&'static str> {
    // a third of the cases use adversarial names (library-internal names, substrings of one
    // another, the empty name …); names are opaque to the operators, so nothing may change
    if g.rng.chance(1, 3) {
        g.count("names.adversarial");
        return adversarial_names(&mut g.rng, d).iter().map(|n| intern(n)).collect();
    }
    let mut pool = vec!["a", "b", "c", "d", "row", "column", "x", "y"];
    g.rng.shuffle(&mut pool);
    pool[..d].iter().map(|n| intern(n)).collect()
}

/// every pair of the 16 macro forms, for `+`, `-` (and `elementwise`) on same-shape operands,
/// where the view operands iterate in an order different from their storage order
fn gen_elementwise_case(g: &mut Gen, e: Ety, lens: &[usize]) {
    let names = names_for(g, lens.len());
    let shape: Vec<(&'static str, usize)> = names.iter().copied().zip(lens.iter().copied()).collect();
    g.count(&format!("elementwise.D={}", lens.len()));
    g.count(&format!("elementwise.elements={}", lens.iter().product::<usize>()));
    let mut c = CaseGen::new(g, e);
    let a = c.tensor(&shape);
    let b = c.tensor(&shape);
    let k1 = c.g.rng.below(9);
    let k2 = c.g.rng.below(9);
    let v1 = c.view_with_shape(&shape, k1);
    let v2 = c.view_with_shape(&shape, k2);
    for op in ["add", "sub"] {
        for lw in FORMS4 {
            for rw in FORMS4 {
                let l = if lw.ends_with("container") { if c.g.rng.chance(1, 2) { &a } else { &b } } else {
                    match c.g.rng.below(4) { 0 => &a, 1 | 2 => &v1, _ => &v2 }
                };
                let r = if rw.ends_with("container") { if c.g.rng.chance(1, 2) { &a } else { &b } } else {
                    match c.g.rng.below(4) { 0 => &b, 1 | 2 => &v2, _ => &v1 }
                };
                let lf = c.pick_form(l, lw);
                let rf = c.pick_form(r, rw);
                c.binop(op, l, r, lf, rf, "tensor");
            }
        }
    }
    // Tensor::elementwise* / TensorView::elementwise* (left by reference, right anything)
    for kind in ["e", "ei", "er", "eri"] {
        let (l, r) = match c.g.rng.below(4) { 0 => (&a, &v1), 1 => (&v1, &b), 2 => (&v2, &v1), _ => (&a, &b) };
        let lw = if l.kind == "tensor" && c.g.rng.chance(1, 2) { "ref-container" } else { "ref-view" };
        let lf = c.pick_from(l, lw, &RECEIVERS);
        let rw = FORMS4[c.g.rng.below(4)];
        let rf = c.pick_from(r, rw, &RHS);
        c.g.op(format!("ewise {} {} via={}-{}-{}", l.name, r.name, lf, rf, kind));
        c.g.count(&format!("tensor.ewise.{}", kind));
    }
}

/// mismatching pairs, enumerated from the documented rejection table of elementwise operations
fn gen_elementwise_reject_case(g: &mut Gen, e: Ety, lens: &[usize]) {
    let d = lens.len();
    if d == 0 {
        return;
    }
    let names = names_for(g, d + 1);
    let shape: Vec<(&'static str, usize)> = names[..d].iter().copied().zip(lens.iter().copied()).collect();
    let mut c = CaseGen::new(g, e);
    let a = c.tensor(&shape);
    let mut others: Vec<(&str, Vec<(&'static str, usize)>)> = vec![];
    // a different name in one position
    let mut s = shape.clone();
    let p = c.g.rng.below(d);
    s[p].0 = names[d];
    others.push(("different_name", s));
    // a different length in one position
    let mut s = shape.clone();
    let p = c.g.rng.below(d);
    s[p].1 += 1;
    others.push(("different_length", s));
    if shape[p].1 > 1 {
        let mut s = shape.clone();
        s[p].1 -= 1;
        others.push(("different_length", s));
    }
    if d >= 2 {
        // same dimensions in another order ("similar" tensors are still rejected)
        let mut s = shape.clone();
        s.swap(0, d - 1);
        others.push(("name_order", s));
        // names swapped but lengths in place
        let mut s = shape.clone();
        let (n0, n1) = (s[0].0, s[d - 1].0);
        s[0].0 = n1;
        s[d - 1].0 = n0;
        others.push(("names_swapped", s));
        // lengths swapped but names in place
        if shape[0].1 != shape[d - 1].1 {
            let mut s = shape.clone();
            let (l0, l1) = (s[0].1, s[d - 1].1);
            s[0].1 = l1;
            s[d - 1].1 = l0;
            others.push(("lengths_swapped", s));
        }
    }
    for (why, s) in others {
        let o = if c.g.rng.chance(1, 2) { c.tensor(&s) } else { let k = c.g.rng.below(9); c.view_with_shape(&s, k) };
        for op in ["add", "sub", "ewise"] {
            let (l, r) = if c.g.rng.chance(1, 2) { (&a, &o) } else { (&o, &a) };
            let lw = FORMS4[c.g.rng.below(4)];
            let rw = FORMS4[c.g.rng.below(4)];
            if op == "ewise" {
                let lw2 = if c.g.rng.chance(1, 2) { "ref-container" } else { "ref-view" };
                let lf = c.pick_from(l, lw2, &RECEIVERS);
                let rf = c.pick_from(r, rw, &RHS);
                let kind = ["e", "ei", "er", "eri"][c.g.rng.below(4)];
                c.g.op(format!("ewise {} {} via={}-{}-{}", l.name, r.name, lf, rf, kind));
            } else {
                let lf = c.pick_form(l, lw);
                let rf = c.pick_form(r, rw);
                c.binop(op, l, r, lf, rf, "tensor.reject");
            }
            c.g.count(&format!("reject.elementwise.{}", why));
        }
    }
}

fn gen_matmul_case(g: &mut Gen, e: Ety, m: usize, n: usize, l: usize) {
    g.count(&format!("matmul.shape={}x{}.{}x{}", m, n, n, l));
    let mut c = CaseGen::new(g, e);
    // names: the inner names are free (equal or different), outer names must differ
    let pool = ["r", "c", "x", "y"];
    let ln0 = pool[c.g.rng.below(2)];
    let ln1 = *pool.iter().filter(|p| **p != ln0).nth(c.g.rng.below(3)).unwrap();
    let rn1 = *pool.iter().filter(|p| **p != ln0).nth(c.g.rng.below(3)).unwrap();
    let rn0 = *pool.iter().filter(|p| **p != rn1).nth(c.g.rng.below(3)).unwrap();
    let ls = vec![(intern(ln0), m), (intern(ln1), n)];
    let rs = vec![(intern(rn0), n), (intern(rn1), l)];
    let a = c.tensor(&ls);
    let b = c.tensor(&rs);
    let (k1, k2) = (c.g.rng.below(9), c.g.rng.below(9));
    let va = c.view_with_shape(&ls, k1);
    let vb = c.view_with_shape(&rs, k2);
    for lw in FORMS4 {
        for rw in FORMS4 {
            let lo = if lw.ends_with("container") || c.g.rng.chance(1, 4) { &a } else { &va };
            let ro = if rw.ends_with("container") || c.g.rng.chance(1, 4) { &b } else { &vb };
            let lf = c.pick_form(lo, lw);
            let rf = c.pick_form(ro, rw);
            c.binop("mul", lo, ro, lf, rf, "tensor");
        }
    }
    // the same data through the matrix API
    let am = c.matrix(m, n);
    let bm = c.matrix(n, l);
    let (k1, k2) = (c.g.rng.below(7), c.g.rng.below(7));
    let wa = c.matrix_view(m, n, k1);
    let wb = c.matrix_view(n, l, k2);
    for lw in FORMS4 {
        for rw in FORMS4 {
            let lo = if lw.ends_with("container") || c.g.rng.chance(1, 4) { &am } else { &wa };
            let ro = if rw.ends_with("container") || c.g.rng.chance(1, 4) { &bm } else { &wb };
            let lf = c.pick_form(lo, lw);
            let rf = c.pick_form(ro, rw);
            c.binop("mul", lo, ro, lf, rf, "matrix");
        }
    }
}

/// tensor and matrix APIs on literally the same data (the answers carry the same `data=`)
fn gen_agree_case(g: &mut Gen, e: Ety, m: usize, n: usize, l: usize) {
    g.op(format!("@ {}", e.name()));
    g.count("agree.case");
    let av = rand_vals(g, e, m * n);
    let bv = rand_vals(g, e, n * l);
    let cv = rand_vals(g, e, m * n);
    let s = rand_val(g, e);
    g.op(format!("t TA r:{},c:{} {}", m, n, av));
    g.op(format!("t TB x:{},y:{} {}", n, l, bv));
    g.op(format!("t TC r:{},c:{} {}", m, n, cv));
    g.op(format!("m MA {} {} {}", m, n, av));
    g.op(format!("m MB {} {} {}", n, l, bv));
    g.op(format!("m MC {} {} {}", m, n, cv));
    g.op("mul TA TB via=rt-rt".to_string());
    g.op("mul MA MB via=rm-rm".to_string());
    g.op("add TA TC via=rt-rt".to_string());
    g.op("add MA MC via=rm-rm".to_string());
    g.op("sub TA TC via=rt-rt".to_string());
    g.op("sub MA MC via=rm-rm".to_string());
    g.op(format!("smul TA {} via=rt-s", s));
    g.op(format!("smul MA {} via=rm-s", s));
}

fn gen_matmul_reject_case(g: &mut Gen, e: Ety) {
    let mut c = CaseGen::new(g, e);
    let m = c.g.rng.range(1, 3);
    let n = c.g.rng.range(1, 3);
    let l = c.g.rng.range(1, 3);
    // (why, left shape, right shape)
    let mut table: Vec<(&str, Vec<(&'static str, usize)>, Vec<(&'static str, usize)>)> = vec![];
    table.push(("inner_length", vec![("r", m), ("c", n)], vec![("x", n + 1), ("y", l)]));
    table.push(("inner_length", vec![("r", m), ("c", n + 1)], vec![("x", n), ("y", l)]));
    // swapped right operand: inner lengths differ unless n == l
    if n != l {
        table.push(("inner_length", vec![("r", m), ("c", n)], vec![("y", l), ("x", n)]));
    }
    table.push(("result_names_collide", vec![("r", m), ("c", n)], vec![("c", n), ("r", l)]));
    table.push(("result_names_collide", vec![("r", m), ("c", n)], vec![("x", n), ("r", l)]));
    table.push(("both", vec![("r", m), ("c", n)], vec![("c", n + 1), ("r", l)]));
    // accepted neighbours of the table
    table.push(("accepted_same_names", vec![("r", m), ("c", n)], vec![("r", n), ("c", l)]));
    table.push(("accepted_inner_names_differ", vec![("r", m), ("c", n)], vec![("x", n), ("c", l)]));
    for (why, ls, rs) in table {
        let ls: Vec<(&'static str, usize)> = ls.iter().map(|d| (intern(d.0), d.1)).collect();
        let rs: Vec<(&'static str, usize)> = rs.iter().map(|d| (intern(d.0), d.1)).collect();
        let lo = if c.g.rng.chance(1, 2) { c.tensor(&ls) } else { let k = c.g.rng.below(9); c.view_with_shape(&ls, k) };
        let ro = if c.g.rng.chance(1, 2) { c.tensor(&rs) } else { let k = c.g.rng.below(9); c.view_with_shape(&rs, k) };
        let lw = FORMS4[c.g.rng.below(4)];
        let rw = FORMS4[c.g.rng.below(4)];
        let lf = c.pick_form(&lo, lw);
        let rf = c.pick_form(&ro, rw);
        c.binop("mul", &lo, &ro, lf, rf, "tensor.reject");
        c.g.count(&format!("reject.matmul.{}", why));
    }
    // matrices: only the inner sizes can mismatch; elementwise: sizes differ
    for (why, (a, b), (x, y), op) in [
        ("matrix_inner", (m, n), (n + 1, l), "mul"),
        ("matrix_inner", (m, n + 1), (n, l), "mul"),
        ("matrix_size_rows", (m, n), (m + 1, n), "add"),
        ("matrix_size_columns", (m, n), (m, n + 1), "sub"),
        ("matrix_size_transposed", (m, n + 1), (n + 1, m), "add"),
    ] {
        if why == "matrix_size_transposed" && m == n + 1 {
            continue;
        }
        let lo = if c.g.rng.chance(1, 2) { c.matrix(a, b) } else { let k = c.g.rng.below(7); c.matrix_view(a, b, k) };
        let ro = if c.g.rng.chance(1, 2) { c.matrix(x, y) } else { let k = c.g.rng.below(7); c.matrix_view(x, y, k) };
        let lw = FORMS4[c.g.rng.below(4)];
        let rw = FORMS4[c.g.rng.below(4)];
        let lf = c.pick_form(&lo, lw);
        let rf = c.pick_form(&ro, rw);
        c.binop(op, &lo, &ro, lf, rf, "matrix.reject");
        c.g.count(&format!("reject.{}", why));
    }
}

fn gen_matrix_elementwise_case(g: &mut Gen, e: Ety, rows: usize, cols: usize) {
    g.count(&format!("matrix.elementwise.size={}x{}", rows, cols));
    let mut c = CaseGen::new(g, e);
    let a = c.matrix(rows, cols);
    let b = c.matrix(rows, cols);
    // the second view is always a matrix view of a tensor in swapped order (column-major source)
    let (k1, k2) = (c.g.rng.below(7), 3 + c.g.rng.below(3));
    let w1 = c.matrix_view(rows, cols, k1);
    let w2 = c.matrix_view(rows, cols, k2);
    for op in ["add", "sub"] {
        for lw in FORMS4 {
            for rw in FORMS4 {
                let l = if lw.ends_with("container") { &a } else if c.g.rng.chance(1, 4) { &b } else { &w1 };
                let r = if rw.ends_with("container") { &b } else if c.g.rng.chance(1, 4) { &a } else { &w2 };
                let lf = c.pick_form(l, lw);
                let rf = c.pick_form(r, rw);
                c.binop(op, l, r, lf, rf, "matrix");
            }
        }
    }
    // negation and scalar broadcasts
    for o in [&a, &w1, &w2] {
        for f in o.forms.iter() {
            c.g.op(format!("neg {} via={}", o.name, f));
            c.g.count(&format!("matrix.neg.form.{}", base_form(f)));
            c.g.op(format!("mmap {} via={}", o.name, f));
            c.g.count(&format!("matrix.map.form.{}", base_form(f)));
            c.g.count(&format!("matrix.neg_map.operand.{}", o.kind));
        }
        for op in ["sadd", "ssub", "smul", "sdiv"] {
            for sf in ["s", "rs"] {
                let f = o.forms[c.g.rng.below(o.forms.len())];
                let mut s = rand_val(c.g, c.e);
                if op == "sdiv" && c.e == Ety::F64 {
                    continue;
                }
                if op == "sdiv" && c.e == Ety::I64 && s == "0" {
                    s = "3".into();
                }
                c.g.op(format!("{} {} {} via={}-{}", op, o.name, s, f, sf));
                c.g.count(&format!("matrix.{}.form.{}+{}", op, base_form(f), sf));
            }
        }
    }
}

fn gen_scalar_case(g: &mut Gen, e: Ety, lens: &[usize]) {
    let names = names_for(g, lens.len());
    let shape: Vec<(&'static str, usize)> = names.iter().copied().zip(lens.iter().copied()).collect();
    let mut c = CaseGen::new(g, e);
    let a = c.tensor(&shape);
    let k = c.g.rng.below(9);
    let v = c.view_with_shape(&shape, k);
    for o in [&a, &v] {
        for op in ["sadd", "ssub", "smul", "sdiv"] {
            for f in o.forms.iter() {
                let sf = if c.g.rng.chance(1, 2) { "s" } else { "rs" };
                let mut s = rand_val(c.g, c.e);
                if op == "sdiv" && c.e == Ety::F64 {
                    continue;
                }
                if op == "sdiv" && c.e == Ety::I64 && s == "0" {
                    s = "-7".into();
                }
                if op == "sdiv" && s == "0" {
                    c.g.count("scalar.divide_by_zero");
                }
                c.g.op(format!("{} {} {} via={}-{}", op, o.name, s, f, sf));
                c.g.count(&format!("tensor.{}.form.{}+{}", op, base_form(f), sf));
            }
        }
    }
}

fn gen_dot_case(g: &mut Gen, e: Ety, n: usize) {
    g.count(&format!("dot.length={}", n));
    let mut c = CaseGen::new(g, e);
    let shape = vec![(intern("s"), n)];
    let a = c.tensor(&shape);
    let b = c.tensor(&shape);
    let (k1, k2) = (c.g.rng.below(9), c.g.rng.below(9));
    let v1 = c.view_with_shape(&shape, k1);
    let v2 = c.view_with_shape(&shape, k2);
    for lw in ["ref-container", "ref-view"] {
        for rw in FORMS4 {
            let l = if lw == "ref-container" { &a } else if c.g.rng.chance(1, 4) { &a } else { &v1 };
            let r = if rw.ends_with("container") { &b } else if c.g.rng.chance(1, 4) { &b } else { &v2 };
            let lf = c.pick_from(l, lw, &RECEIVERS);
            let rf = c.pick_from(r, rw, &RHS);
            c.binop("dot", l, r, lf, rf, "tensor");
        }
    }
    // rejected: other name, other length
    let other_name = c.tensor(&[(intern("q"), n)]);
    let longer = c.tensor(&[(intern("s"), n + 1)]);
    for (why, o) in [("different_name", &other_name), ("different_length", &longer)] {
        for swap in [false, true] {
            let (l, r) = if swap { (o, &a) } else { (&a, o) };
            let lw = if c.g.rng.chance(1, 2) { "ref-container" } else { "ref-view" };
            let lf = c.pick_from(l, lw, &RECEIVERS);
            let rw = FORMS4[c.g.rng.below(4)];
            let rf = c.pick_from(r, rw, &RHS);
            c.binop("dot", l, r, lf, rf, "tensor.reject");
            c.g.count(&format!("reject.dot.{}", why));
        }
    }
}

/// TensorStack / TensorChain operands of every tuple arity and array length, in every operation
fn gen_stack_chain_cases(g: &mut Gen) {
    for e in [Ety::Fp, Ety::Rat, Ety::I64] {
        for (kind, via, n) in [
            ("stack", "tuple", 2), ("stack", "tuple", 3), ("stack", "tuple", 4),
            ("stack", "array", 1), ("stack", "array", 2), ("stack", "array", 3), ("stack", "array", 4),
            ("chain", "tuple", 2), ("chain", "tuple", 3), ("chain", "tuple", 4),
            ("chain", "array", 1), ("chain", "array", 2), ("chain", "array", 3), ("chain", "array", 4),
        ] {
            if e != Ety::Fp && g.rng.chance(1, 2) {
                continue;
            }
            let mut c = CaseGen::new(g, e);
            c.g.count(&format!("stackchain.{}.{}{}", kind, via, n));
            // a vector: stack of n scalars / chain of n vectors of lengths 1, 2, …
            let vec_len = if kind == "stack" { n } else { n * (n + 1) / 2 };
            let mut srcs = vec![];
            for i in 0..n {
                let o = if kind == "stack" { c.tensor(&[]) } else { c.tensor(&[(intern("s"), i + 1)]) };
                srcs.push(o.name);
            }
            let kv = c.fresh("K");
            if kind == "stack" {
                c.g.op(format!("k {} stack {} 0:s via={}", kv, srcs.join(","), via));
            } else {
                c.g.op(format!("k {} chain {} s via={}", kv, srcs.join(","), via));
            }
            let kvec = GOp { name: kv, shape: vec![(intern("s"), vec_len)], forms: &T_BOXED, kind: "stackchain" };
            let plain = c.tensor(&[(intern("s"), vec_len)]);
            for (l, r) in [(&kvec, &plain), (&plain, &kvec), (&kvec, &kvec)] {
                let lf = c.pick_from(l, "ref-view", &RECEIVERS);
                let rw = FORMS4[c.g.rng.below(4)];
                let rf = c.pick_from(r, rw, &RHS);
                c.binop("dot", l, r, lf, rf, "tensor");
            }
            // a matrix-shaped operand r x c: stack of n rows / chain of row blocks of 1, 2, … rows
            let cols = c.g.rng.range(1, 3);
            let rows = if kind == "stack" { n } else { n * (n + 1) / 2 };
            let mut srcs = vec![];
            for i in 0..n {
                let o = if kind == "stack" { c.tensor(&[(intern("c"), cols)]) } else { c.tensor(&[(intern("r"), i + 1), (intern("c"), cols)]) };
                srcs.push(o.name);
            }
            let km = c.fresh("K");
            if kind == "stack" {
                c.g.op(format!("k {} stack {} 0:r via={}", km, srcs.join(","), via));
            } else {
                c.g.op(format!("k {} chain {} r via={}", km, srcs.join(","), via));
            }
            let kmat = GOp { name: km, shape: vec![(intern("r"), rows), (intern("c"), cols)], forms: &T_BOXED, kind: "stackchain" };
            let same = c.tensor(&[(intern("r"), rows), (intern("c"), cols)]);
            let right = c.tensor(&[(intern("x"), cols), (intern("y"), 2)]);
            let left = c.tensor(&[(intern("x"), 2), (intern("y"), rows)]);
            for op in ["add", "sub"] {
                for (l, r) in [(&kmat, &same), (&same, &kmat), (&kmat, &kmat)] {
                    let lw = FORMS4[c.g.rng.below(4)];
                    let rw = FORMS4[c.g.rng.below(4)];
                    let lf = c.pick_form(l, lw);
                    let rf = c.pick_form(r, rw);
                    c.binop(op, l, r, lf, rf, "tensor");
                }
            }
            for (l, r) in [(&kmat, &right), (&left, &kmat)] {
                let lw = FORMS4[c.g.rng.below(4)];
                let rw = FORMS4[c.g.rng.below(4)];
                let lf = c.pick_form(l, lw);
                let rf = c.pick_form(r, rw);
                c.binop("mul", l, r, lf, rf, "tensor");
            }
            for op in ["sadd", "ssub", "smul", "sdiv"] {
                if op == "sdiv" && c.e == Ety::I64 {
                    continue;
                }
                let s = rand_val(c.g, c.e);
                let f = kmat.forms[c.g.rng.below(kmat.forms.len())];
                c.g.op(format!("{} {} {} via={}-s", op, kmat.name, s, f));
            }
            // through the matrix API: MatrixRefTensor over the stacked / chained tensor
            let w = c.fresh("W");
            c.g.op(format!("w {} {} oftensor", w, kmat.name));
            for f in M_BOXED {
                c.g.op(format!("neg {} via={}", w, f));
                c.g.op(format!("mmap {} via={}", w, f));
            }
            let s = rand_val(c.g, c.e);
            c.g.op(format!("smul {} {} via=bw-rs", w, s));
        }
    }
}

/// sizes beyond the small exhaustive sweeps: long vectors, wide inner dimensions, D = 5, 6
fn gen_large_cases(g: &mut Gen) {
    let thorough = g.thorough;
    for n in [9usize, 16, 17, 31, 33, 64, 70] {
        gen_dot_case(g, Ety::Fp, n);
        if thorough || n % 2 == 1 {
            gen_dot_case(g, Ety::Rat, n);
        }
    }
    gen_dot_case(g, Ety::I64, 17);
    gen_dot_case(g, Ety::F64, 33);
    for n in 8..=17usize {
        let (m, l) = (g.rng.range(1, 3), g.rng.range(1, 3));
        gen_matmul_case(g, Ety::Fp, m, n, l);
        if thorough || n % 3 == 2 {
            gen_matmul_case(g, Ety::Rat, m, n, l);
        }
    }
    gen_matmul_case(g, Ety::I64, 2, 16, 2);
    gen_matmul_case(g, Ety::F64, 2, 17, 1);
    // long elementwise operands
    for lens in [vec![17usize], vec![70], vec![3, 23], vec![33, 2], vec![2, 9, 4]] {
        gen_elementwise_case(g, Ety::Fp, &lens);
        gen_scalar_case(g, Ety::Fp, &lens);
    }
    gen_matrix_elementwise_case(g, Ety::Fp, 17, 4);
    gen_matrix_elementwise_case(g, Ety::Fp, 3, 33);
    // dimensionality 5 and 6
    for d in [5usize, 6] {
        for rep in 0..(if thorough { 6 } else { 2 }) {
            let e = if rep == 0 { Ety::Fp } else { [Ety::Fp, Ety::Rat][g.rng.below(2)] };
            let mut lens: Vec<usize> = (0..d).map(|_| 1).collect();
            let mut elems = 1;
            for _ in 0..8 {
                let i = g.rng.below(d);
                if elems * (lens[i] + 1) / lens[i] <= 48 {
                    elems = elems / lens[i] * (lens[i] + 1);
                    lens[i] += 1;
                }
            }
            gen_big_d_case(g, e, &lens);
        }
    }
}

fn gen_big_d_case(g: &mut Gen, e: Ety, lens: &[usize]) {
    let names: Vec<&'static str> = ["a", "b", "c", "d", "row", "column"][..lens.len()].iter().map(|n| intern(n)).collect();
    let shape: Vec<(&'static str, usize)> = names.iter().copied().zip(lens.iter().copied()).collect();
    g.count(&format!("elementwise.D={}", lens.len()));
    let mut c = CaseGen::new(g, e);
    c.force_lite = true;
    let a = c.tensor(&shape);
    let b = c.tensor(&shape);
    let (k1, k2) = (c.g.rng.below(6), c.g.rng.below(6));
    let v1 = c.view_with_shape(&shape, k1);
    let v2 = c.view_with_shape(&shape, k2);
    for op in ["add", "sub"] {
        for lw in FORMS4 {
            for rw in FORMS4 {
                let l = if lw.ends_with("container") { &a } else if c.g.rng.chance(1, 4) { &a } else { &v1 };
                let r = if rw.ends_with("container") { &b } else if c.g.rng.chance(1, 4) { &b } else { &v2 };
                let lf = c.pick_form(l, lw);
                let rf = c.pick_form(r, rw);
                c.binop(op, l, r, lf, rf, "tensor");
            }
        }
    }
    for o in [&a, &v1] {
        for op in ["sadd", "ssub", "smul", "sdiv"] {
            let f = o.forms[c.g.rng.below(o.forms.len())];
            let s = rand_val(c.g, c.e);
            let sf = if c.g.rng.chance(1, 2) { "s" } else { "rs" };
            c.g.op(format!("{} {} {} via={}-{}", op, o.name, s, f, sf));
        }
    }
    // a rejected neighbour: one name differs
    let mut other = shape.clone();
    other[lens.len() - 1].0 = intern("zz");
    let o = c.tensor(&other);
    c.binop("add", &a, &o, "rt", "rt", "tensor.reject");
    c.binop("sub", &o, &v1, "t", "bv", "tensor.reject");
}

/// `Tensor::euclidean_length` / `Matrix::euclidean_length` (need `sqrt`: prime-field runs)
fn gen_euclidean_length(g: &mut Gen) {
    g.op("@ fp".to_string());
    for n in [1usize, 2, 3, 5, 17] {
        let v = rand_vals(g, Ety::Fp, n);
        g.op(format!("t E{} s:{} {}", n, n, v));
        g.op(format!("elen E{}", n));
        g.op(format!("m R{} 1 {} {}", n, n, v));
        g.op(format!("elen R{}", n));
        g.op(format!("m C{} {} 1 {}", n, n, v));
        g.op(format!("elen C{}", n));
        g.count_n("euclidean_length", 3);
    }
    let v = rand_vals(g, Ety::Fp, 6);
    g.op(format!("m N23 2 3 {}", v));
    g.op("elen N23".to_string());
    g.op(format!("m N32 3 2 {}", v));
    g.op("elen N32".to_string());
    g.count_n("euclidean_length.not_a_vector", 2);
}

/// Adversarial dimension names for every operator: names are opaque, compared-by-text strings, so
/// only genuine equalities / differences may matter (substrings, prefixes, library-internal names
/// and the empty name must not).
fn gen_adversarial_names(g: &mut Gen) {
    let names: Vec<&'static str> = ADVERSARIAL_NAMES.iter().map(|n| intern(n)).collect();
    let e_of = |i: usize| [Ety::Fp, Ety::Rat, Ety::I64, Ety::F64][i % 4];
    // matrix product: every (left row name, right column name) pair, genuine collisions included
    let mut k = 0;
    for chunk in 0..names.len() {
        let mut c = CaseGen::new(g, e_of(chunk));
        let ln0 = names[chunk];
        for &rn1 in &names {
            k += 1;
            let ln1 = names[(chunk + 1 + c.g.rng.below(names.len() - 1)) % names.len()];
            let rn0 = { let mut x = names[c.g.rng.below(names.len())]; if x == rn1 { x = names[(names.iter().position(|n| *n == rn1).unwrap() + 1) % names.len()]; } x };
            let (m, n, l) = (c.g.rng.range(1, 2), c.g.rng.range(1, 2), c.g.rng.range(1, 2));
            let lo = c.tensor(&[(ln0, m), (ln1, n)]);
            let ro = c.tensor(&[(rn0, n), (rn1, l)]);
            let lw = FORMS4[k % 4];
            let rw = FORMS4[(k / 4) % 4];
            let lf = c.pick_form(&lo, lw);
            let rf = c.pick_form(&ro, rw);
            c.binop("mul", &lo, &ro, lf, rf, "names");
            c.g.count(if ln0 == rn1 { "names.matmul.genuine_collision" } else if ln0.contains(rn1) || rn1.contains(ln0) { "names.matmul.substring_pair" } else { "names.matmul.unrelated_pair" });
        }
    }
    // scalar_product and elementwise: every pair of names (equal => accepted, else rejected)
    for (i, &a) in names.iter().enumerate() {
        let mut c = CaseGen::new(g, e_of(i + 1));
        let n = c.g.rng.range(1, 3);
        let la = c.tensor(&[(a, n)]);
        for &b in &names {
            let lb = c.tensor(&[(b, n)]);
            let lf = c.pick_from(&la, if c.next % 2 == 0 { "ref-container" } else { "ref-view" }, &RECEIVERS);
            let rw = FORMS4[c.next % 4];
            let rf = c.pick_from(&lb, rw, &RHS);
            c.binop("dot", &la, &lb, lf, rf, "names");
            let lw = FORMS4[(c.next / 2) % 4];
            let lf = c.pick_form(&la, lw);
            let rf = c.pick_form(&lb, rw);
            c.binop(if c.next % 2 == 0 { "add" } else { "sub" }, &la, &lb, lf, rf, "names");
            c.g.count(if a == b { "names.vector.equal" } else { "names.vector.different" });
        }
    }
    // 2-D elementwise with both names adversarial: same / swapped / one replaced
    for rep in 0..(if g.thorough { 120 } else { 30 }) {
        let mut c = CaseGen::new(g, e_of(rep));
        let ns = adversarial_names(&mut c.g.rng, 3);
        let ns: Vec<&'static str> = ns.iter().map(|n| intern(n)).collect();
        let (r, k2) = (c.g.rng.range(1, 3), c.g.rng.range(1, 3));
        let a = c.tensor(&[(ns[0], r), (ns[1], k2)]);
        let same = c.tensor(&[(ns[0], r), (ns[1], k2)]);
        let swapped = c.tensor(&[(ns[1], r), (ns[0], k2)]);
        let replaced = c.tensor(&[(ns[0], r), (ns[2], k2)]);
        let kview = c.g.rng.below(9);
        let view = c.view_with_shape(&[(ns[0], r), (ns[1], k2)], kview);
        for o in [&same, &swapped, &replaced, &view] {
            let lw = FORMS4[c.g.rng.below(4)];
            let rw = FORMS4[c.g.rng.below(4)];
            let lf = c.pick_form(&a, lw);
            let rf = c.pick_form(o, rw);
            let op = ["add", "sub"][c.g.rng.below(2)];
            c.binop(op, &a, o, lf, rf, "names");
        }
        c.g.count("names.elementwise2d");
    }
}

const F64_SPECIALS: [&str; 12] = [
    "0", "-0", "inf", "-inf", "NaN", "5e-324", "2.2250738585072014e-308", "1e-310", "1", "-1", "2.5", "1e308",
];

/// Degenerate float data (zeros of both signs, infinities, NaN, subnormals, equal elements) in
/// every position of either operand.  These lines are answered by the harness alone: it compares
/// the tensor API, the matrix API and a direct left fold in the documented order by bit pattern
/// (NaN payload-insensitively) and prints `agree`; the Lean model is not involved (floats are
/// never compared with it).
fn gen_degenerate_floats(g: &mut Gen) {
    g.op("@ f64".to_string());
    let sp = &F64_SPECIALS;
    let ord = |g: &mut Gen| ["3", "-7", "0.5", "1e-3", "12345.678"][g.rng.below(5)].to_string();
    // length 1: every pair
    for a in sp.iter() {
        for b in sp.iter() {
            g.op(format!("fdeg dot {} {}", a, b));
            g.op(format!("fdeg mul 1 1 1 {} {}", a, b));
            g.op(format!("fdeg ew add 1 1 {} {}", a, b));
            g.op(format!("fdeg ew sub 1 1 {} {}", a, b));
            for op in ["sadd", "ssub", "smul", "sdiv"] {
                g.op(format!("fdeg scalar {} {} {}", op, a, b));
            }
            g.count_n("degenerate.f64.length1", 8);
        }
        g.op(format!("fdeg neg 1 1 {}", a));
    }
    // lengths 2 and 3: a special in every position of either operand, the rest ordinary
    g.op("@ f64".to_string());
    for n in [2usize, 3] {
        for pl in 0..n {
            for pr in 0..n {
                for a in sp.iter() {
                    for b in sp.iter() {
                        if n == 3 && g.rng.chance(2, 3) {
                            continue;
                        }
                        let mut l: Vec<String> = (0..n).map(|_| ord(g)).collect();
                        let mut r: Vec<String> = (0..n).map(|_| ord(g)).collect();
                        l[pl] = a.to_string();
                        r[pr] = b.to_string();
                        g.op(format!("fdeg dot {} {}", l.join(","), r.join(",")));
                        g.count("degenerate.f64.dot");
                        if g.rng.chance(1, 4) {
                            // l as m x n (m = 1) times r as n x 1, and as 1 x n elementwise
                            g.op(format!("fdeg ew add 1 {} {} {}", n, l.join(","), r.join(",")));
                            g.op(format!("fdeg ew sub {} 1 {} {}", n, l.join(","), r.join(",")));
                            g.op(format!("fdeg neg 1 {} {}", n, l.join(",")));
                        }
                    }
                }
            }
        }
    }
    // matrices full of specials, equal elements
    g.op("@ f64".to_string());
    for _ in 0..(if g.thorough { 400 } else { 80 }) {
        let (m, n, l) = (g.rng.range(1, 3), g.rng.range(1, 3), g.rng.range(1, 3));
        let pick = |g: &mut Gen| if g.rng.chance(1, 2) { sp[g.rng.below(sp.len())].to_string() } else { ord(g) };
        let equal = g.rng.chance(1, 6);
        let first = pick(g);
        let lv: Vec<String> = (0..m * n).map(|_| if equal { first.clone() } else { pick(g) }).collect();
        let rv: Vec<String> = (0..n * l).map(|_| pick(g)).collect();
        g.op(format!("fdeg mul {} {} {} {} {}", m, n, l, lv.join(","), rv.join(",")));
        let rv2: Vec<String> = (0..m * n).map(|_| pick(g)).collect();
        let ewop = ["add", "sub"][g.rng.below(2)];
        g.op(format!("fdeg ew {} {} {} {} {}", ewop, m, n, lv.join(","), rv2.join(",")));
        let s = pick(g);
        let sop = ["sadd", "ssub", "smul", "sdiv"][g.rng.below(4)];
        g.op(format!("fdeg scalar {} {} {}", sop, lv.join(","), s));
        g.op(format!("fdeg neg {} {} {}", m, n, lv.join(",")));
        g.count("degenerate.f64.matrix");
    }
}

/// Integer boundary values (MIN, MIN+1, -1, 0, 1, MAX-1, MAX) in every position of either operand,
/// for i8 / i32 / i64 and a user-defined saturating type: the answer of every API must be what the
/// element type's own operator gives cell by cell (a value, or the same kind of panic).  Decided
/// inside the harness (`ibv` lines); the Lean model answers `agree`.
fn gen_integer_boundaries(g: &mut Gen) {
    for (ty, min, max) in [("i8", i8::MIN as i128, i8::MAX as i128), ("sat8", i8::MIN as i128, i8::MAX as i128),
                           ("i32", i32::MIN as i128, i32::MAX as i128), ("i64", i64::MIN as i128, i64::MAX as i128)] {
        g.op("@ i64".to_string());
        let b: Vec<String> = [min, min + 1, -1, 0, 1, max - 1, max, 2, -3].iter().map(|v| v.to_string()).collect();
        let small = |g: &mut Gen| ["0", "1", "-1", "2", "-2", "3"][g.rng.below(6)].to_string();
        for x in &b {
            g.op(format!("ibv {} neg 1 1 {}", ty, x));
            for y in &b {
                g.op(format!("ibv {} add 1 1 {} {}", ty, x, y));
                g.op(format!("ibv {} sub 1 1 {} {}", ty, x, y));
                g.op(format!("ibv {} dot {} {}", ty, x, y));
                g.op(format!("ibv {} mul 1 1 1 {} {}", ty, x, y));
                for op in ["sadd", "ssub", "smul", "sdiv"] {
                    g.op(format!("ibv {} scalar {} {} {}", ty, op, x, y));
                }
                g.count_n(&format!("boundary.{}.length1", ty), 8);
            }
        }
        g.op("@ i64".to_string());
        // longer operands: a boundary value in every position of either operand
        for n in [2usize, 3] {
            for pl in 0..n {
                for pr in 0..n {
                    for x in &b {
                        for y in &b {
                            if g.rng.chance(if n == 2 { 1 } else { 3 }, 4) {
                                continue;
                            }
                            let mut l: Vec<String> = (0..n).map(|_| small(g)).collect();
                            let mut r: Vec<String> = (0..n).map(|_| small(g)).collect();
                            l[pl] = x.clone();
                            r[pr] = y.clone();
                            let (l, r) = (l.join(","), r.join(","));
                            match g.rng.below(5) {
                                0 => g.op(format!("ibv {} add 1 {} {} {}", ty, n, l, r)),
                                1 => g.op(format!("ibv {} sub {} 1 {} {}", ty, n, l, r)),
                                2 => g.op(format!("ibv {} dot {} {}", ty, l, r)),
                                3 => g.op(format!("ibv {} mul 1 {} 1 {} {}", ty, n, l, r)),
                                _ => {
                                    g.op(format!("ibv {} neg {} 1 {}", ty, n, l));
                                    let op = ["sadd", "ssub", "smul", "sdiv"][g.rng.below(4)];
                                    g.op(format!("ibv {} scalar {} {} {}", ty, op, l, y));
                                }
                            }
                            g.count(&format!("boundary.{}.longer", ty));
                        }
                    }
                }
            }
        }
        // 2x2 products and sums full of boundary values
        for _ in 0..(if g.thorough { 200 } else { 40 }) {
            let pick = |g: &mut Gen| if g.rng.chance(1, 2) { b[g.rng.below(b.len())].clone() } else { small(g) };
            let a: Vec<String> = (0..4).map(|_| pick(g)).collect();
            let c: Vec<String> = (0..4).map(|_| pick(g)).collect();
            g.op(format!("ibv {} mul 2 2 2 {} {}", ty, a.join(","), c.join(",")));
            g.op(format!("ibv {} sub 2 2 {} {}", ty, a.join(","), c.join(",")));
            g.op(format!("ibv {} add 2 2 {} {}", ty, a.join(","), c.join(",")));
            g.count(&format!("boundary.{}.matrix", ty));
        }
    }
}

fn all_lens(max_d: usize, max_len: usize, max_elems: usize) -> Vec<Vec<usize>> {
    let mut out: Vec<Vec<usize>> = vec![vec![]];
    let mut frontier: Vec<Vec<usize>> = vec![vec![]];
    for _ in 0..max_d {
        let mut next = vec![];
        for p in &frontier {
            for l in 1..=max_len {
                let mut q = p.clone();
                q.push(l);
                if q.iter().product::<usize>() <= max_elems {
                    next.push(q);
                }
            }
        }
        out.extend(next.iter().cloned());
        frontier = next;
    }
    out
}

pub fn gen(g: &mut Gen) {
    let thorough = g.thorough;
    // elementwise: every small shape with Fp, a sample with Rat / i64
    let lens_list = if thorough { all_lens(3, 5, 60) } else { all_lens(3, 3, 18) };
    let reps = if thorough { 3 } else { 1 };
    for lens in lens_list.iter().cycle().take(lens_list.len() * reps) {
        gen_elementwise_case(g, Ety::Fp, lens);
        if thorough || g.rng.chance(1, 3) {
            gen_elementwise_case(g, Ety::Rat, lens);
        }
        // the i64 runner of the harness is a reduced one: D in {1, 2}, main flavours only
        let i64_ok = lens.len() == 1 || lens.len() == 2;
        if i64_ok && g.rng.chance(1, 3) {
            gen_elementwise_case(g, Ety::I64, lens);
        }
        if i64_ok && g.rng.chance(1, 3) {
            gen_elementwise_case(g, Ety::F64, lens);
        }
        if thorough || g.rng.chance(1, 2) {
            let e = if i64_ok { [Ety::Fp, Ety::Rat, Ety::I64, Ety::F64][g.rng.below(4)] } else { [Ety::Fp, Ety::Rat][g.rng.below(2)] };
            gen_elementwise_reject_case(g, e, lens);
        }
        if thorough || g.rng.chance(1, 3) {
            let e = [Ety::Fp, Ety::Rat][g.rng.below(2)];
            gen_scalar_case(g, e, lens);
        }
    }
    gen_scalar_case(g, Ety::I64, &[2, 3]);
    gen_scalar_case(g, Ety::F64, &[3, 2]);
    gen_scalar_case(g, Ety::Rat, &[3, 2]);
    gen_scalar_case(g, Ety::Fp, &[]);
    // matrix multiplication: all M x N . N x L up to the tier's bound for Fp
    let (mm, mn, ml) = if thorough { (7, 8, 7) } else { (4, 5, 3) };
    for m in 1..=mm {
        for n in 1..=mn {
            for l in 1..=ml {
                let full = thorough && (m <= 4 && n <= 5 && l <= 4 || g.rng.chance(1, 2));
                if full || !thorough {
                    gen_matmul_case(g, Ety::Fp, m, n, l);
                }
                if g.rng.chance(1, if thorough { 6 } else { 8 }) {
                    gen_matmul_case(g, Ety::Rat, m, n, l);
                }
                if g.rng.chance(1, 20) {
                    gen_matmul_case(g, Ety::I64, m, n, l);
                }
                if g.rng.chance(1, 20) {
                    gen_matmul_case(g, Ety::F64, m, n, l);
                }
                if g.rng.chance(1, 6) {
                    let e = [Ety::Fp, Ety::Rat, Ety::I64, Ety::F64][g.rng.below(4)];
                    gen_agree_case(g, e, m, n, l);
                }
            }
        }
    }
    if thorough {
        gen_matmul_case(g, Ety::Fp, 7, 8, 7);
        gen_matmul_case(g, Ety::Rat, 7, 8, 7);
    } else {
        gen_matmul_case(g, Ety::Fp, 4, 5, 3);
        gen_matmul_case(g, Ety::Rat, 4, 5, 3);
        gen_matmul_case(g, Ety::I64, 4, 5, 3);
        gen_matmul_case(g, Ety::F64, 4, 5, 3);
    }
    for _ in 0..(if thorough { 60 } else { 12 }) {
        let e = [Ety::Fp, Ety::Rat, Ety::I64, Ety::F64][g.rng.below(4)];
        gen_matmul_reject_case(g, e);
    }
    // matrices: elementwise, negation, scalars
    let ms = if thorough { 5 } else { 3 };
    for r in 1..=ms {
        for c in 1..=ms {
            gen_matrix_elementwise_case(g, Ety::Fp, r, c);
            if g.rng.chance(1, 3) {
                gen_matrix_elementwise_case(g, Ety::Rat, r, c);
            }
            if g.rng.chance(1, 6) {
                gen_matrix_elementwise_case(g, Ety::I64, r, c);
            }
            if g.rng.chance(1, 6) {
                gen_matrix_elementwise_case(g, Ety::F64, r, c);
            }
        }
    }
    // scalar products
    for n in 1..=(if thorough { 9 } else { 5 }) {
        gen_dot_case(g, Ety::Fp, n);
        gen_dot_case(g, Ety::Rat, n);
        if n <= 3 {
            gen_dot_case(g, Ety::I64, n);
            gen_dot_case(g, Ety::F64, n);
        }
    }
    gen_stack_chain_cases(g);
    gen_adversarial_names(g);
    gen_degenerate_floats(g);
    gen_integer_boundaries(g);
    gen_large_cases(g);
    gen_euclidean_length(g);
    // catalogue of operator impls found in the sources (so that a new form cannot be missed)
    scan_catalogue(g);
}

/// Scans the macro invocation lists of the two operations.rs files: each invocation is one
/// `impl <Op> for <left> … <right>` of the 16 x 3 catalogue.  Emitted as counters; the generator
/// above covers each (op, left form, right form) and the evidence shows both tables.
fn scan_catalogue(g: &mut Gen) {
    let repo = std::env::var("EASYML_REPO").unwrap_or_else(|_| "/repo".to_string());
    for (file, tag) in [("src/tensors/operations.rs", "tensor"), ("src/matrices/operations.rs", "matrix")] {
        let path = format!("{}/{}", repo, file);
        let text = match std::fs::read_to_string(&path) {
            Ok(t) => t,
            Err(_) => {
                g.count(&format!("catalogue.{}.unreadable", tag));
                continue;
            }
        };
        for line in text.lines() {
            let line = line.trim_start();
            if line.starts_with("macro_rules!") || !line.contains("!(impl ") {
                continue;
            }
            // e.g. tensor_view_reference_tensor_value_operation_iter!(impl Add for TensorView { fn add } …
            let mac = line.split('!').next().unwrap_or("");
            let op = line.split("!(impl ").nth(1).and_then(|s| s.split_whitespace().next()).unwrap_or("?");
            if mac.ends_with("_scalar") {
                g.count(&format!("catalogue.{}.scalar.{}", tag, op));
                continue;
            }
            let stem = mac.trim_end_matches("_iter").trim_end_matches("_operation");
            // stem = <left kind>_<reference|value>_<right kind>_<reference|value>
            let parts: Vec<&str> = stem.split('_').collect();
            let mut sides = vec![];
            let mut cur: Vec<&str> = vec![];
            for p in parts {
                if p == "reference" || p == "value" {
                    let kind = if cur.contains(&"view") { "view" } else { "container" };
                    sides.push(format!("{}-{}", if p == "value" { "owned" } else { "ref" }, kind));
                    cur.clear();
                } else {
                    cur.push(p);
                }
            }
            if sides.len() == 2 {
                g.count(&format!("catalogue.{}.{}.{}+{}", tag, op, sides[0], sides[1]));
            } else {
                g.count(&format!("catalogue.{}.unparsed", tag));
            }
        }
    }
}

// ---------------------------------------------------------------------------------------------
// execution against the implementation
// ---------------------------------------------------------------------------------------------

#[derive(Clone)]
enum Ad {
    Access(Vec<&'static str>),
    Transpose(Vec<&'static str>),
    Reverse(Vec<&'static str>),
    Rename(Vec<&'static str>),
    Range(Vec<(usize, usize)>),
    Mask(Vec<(usize, usize)>),
}

#[derive(Clone)]
enum MAd {
    Range((usize, usize), (usize, usize)),
    Reverse(bool, bool),
}

fn panic_or<T>(r: Result<T, PanicKind>, f: impl FnOnce(T) -> String) -> String {
    match r {
        Ok(v) => f(v),
        Err(k) => panic_str(k),
    }
}

/// binds `$x` to the operand in the requested flavour and evaluates `$body`.
/// To keep the number of monomorphised operator instances (and the compile time)
/// bounded, a binary operation pairs the six main flavours with each other, and each
/// of the six statically typed extra flavours with `rt` / `bv` on the other side.
macro_rules! with_t_main {
    ($form:expr, $o:expr, $x:ident => $body:expr) => {
        match $form {
            "t" => { let $x = $o.plain(); $body }
            "rt" => { let tmp = $o.plain(); let $x = &tmp; $body }
            "v" => { let $x = TensorView::from($o.plain()); $body }
            "rv" => { let tmp = TensorView::from($o.plain()); let $x = &tmp; $body }
            "bv" => { let $x = TensorView::from($o.boxed()); $body }
            "rbv" => { let tmp = TensorView::from($o.boxed()); let $x = &tmp; $body }
            other => panic!("unknown main tensor form {}", other),
        }
    };
}
macro_rules! with_t_extra {
    ($form:expr, $o:expr, $x:ident => $body:expr) => {
        match $form {
            "qv" => { let tmp = $o.plain(); let $x = TensorView::from(&tmp); $body }
            "rqv" => { let tmp = $o.plain(); let tmp2 = TensorView::from(&tmp); let $x = &tmp2; $body }
            "av" => { let $x = TensorView::from($o.access()); $body }
            "rav" => { let tmp = TensorView::from($o.access()); let $x = &tmp; $body }
            "xv" => { let $x = TensorView::from($o.transposed()); $body }
            "rxv" => { let tmp = TensorView::from($o.transposed()); let $x = &tmp; $body }
            other => panic!("unknown extra tensor form {}", other),
        }
    };
}
macro_rules! with_t_two {
    ($form:expr, $o:expr, $x:ident => $body:expr) => {
        match $form {
            "rt" => { let tmp = $o.plain(); let $x = &tmp; $body }
            "bv" => { let $x = TensorView::from($o.boxed()); $body }
            other => panic!("an extra flavour must be paired with rt or bv, not {}", other),
        }
    };
}
macro_rules! with_t_pair {
    ($lf:expr, $l:expr, $x:ident, $rf:expr, $r:expr, $y:ident => $body:expr) => {
        if is_main_t($lf) && is_main_t($rf) {
            with_t_main!($lf, $l, $x => with_t_main!($rf, $r, $y => $body))
        } else if is_main_t($rf) {
            with_t_extra!($lf, $l, $x => with_t_two!($rf, $r, $y => $body))
        } else {
            with_t_two!($lf, $l, $x => with_t_extra!($rf, $r, $y => $body))
        }
    };
}
/// by-reference receivers of `elementwise*` and `scalar_product`
macro_rules! with_t_ref {
    ($form:expr, $o:expr, $x:ident => $body:expr) => {
        match $form {
            "rt" => { let tmp = $o.plain(); let $x = &tmp; $body }
            "rv" => { let tmp = TensorView::from($o.plain()); let $x = &tmp; $body }
            "rav" => { let tmp = TensorView::from($o.access()); let $x = &tmp; $body }
            "rbv" => { let tmp = TensorView::from($o.boxed()); let $x = &tmp; $body }
            other => panic!("unknown receiver form {}", other),
        }
    };
}
/// right-hand sides of `elementwise*` and `scalar_product` (`Into<TensorView>`)
macro_rules! with_t_rhs {
    ($form:expr, $o:expr, $x:ident => $body:expr) => {
        match $form {
            "t" => { let $x = $o.plain(); $body }
            "rt" => { let tmp = $o.plain(); let $x = &tmp; $body }
            "rv" => { let tmp = TensorView::from($o.plain()); let $x = &tmp; $body }
            "bv" => { let $x = TensorView::from($o.boxed()); $body }
            "rbv" => { let tmp = TensorView::from($o.boxed()); let $x = &tmp; $body }
            other => panic!("unknown right-hand form {}", other),
        }
    };
}
/// single operands (scalar broadcasts)
macro_rules! with_t {
    ($form:expr, $o:expr, $x:ident => $body:expr) => {
        if is_main_t($form) { with_t_main!($form, $o, $x => $body) } else { with_t_extra!($form, $o, $x => $body) }
    };
}
macro_rules! with_m_main {
    ($form:expr, $o:expr, $x:ident => $body:expr) => {
        match $form {
            "m" => { let $x = $o.plain(); $body }
            "rm" => { let tmp = $o.plain(); let $x = &tmp; $body }
            "w" => { let $x = MatrixView::from($o.plain()); $body }
            "rw" => { let tmp = MatrixView::from($o.plain()); let $x = &tmp; $body }
            "bw" => { let $x = MatrixView::from($o.boxed()); $body }
            "rbw" => { let tmp = MatrixView::from($o.boxed()); let $x = &tmp; $body }
            other => panic!("unknown main matrix form {}", other),
        }
    };
}
macro_rules! with_m_extra {
    ($form:expr, $o:expr, $x:ident => $body:expr) => {
        match $form {
            "qw" => { let tmp = $o.plain(); let $x = MatrixView::from(&tmp); $body }
            "rqw" => { let tmp = $o.plain(); let tmp2 = MatrixView::from(&tmp); let $x = &tmp2; $body }
            "gw" => { let $x = MatrixView::from($o.ranged()); $body }
            "rgw" => { let tmp = MatrixView::from($o.ranged()); let $x = &tmp; $body }
            "tw" => { let $x = MatrixView::from($o.of_tensor_access()); $body }
            "rtw" => { let tmp = MatrixView::from($o.of_tensor_access()); let $x = &tmp; $body }
            other => panic!("unknown extra matrix form {}", other),
        }
    };
}
macro_rules! with_m_two {
    ($form:expr, $o:expr, $x:ident => $body:expr) => {
        match $form {
            "rm" => { let tmp = $o.plain(); let $x = &tmp; $body }
            "bw" => { let $x = MatrixView::from($o.boxed()); $body }
            other => panic!("an extra flavour must be paired with rm or bw, not {}", other),
        }
    };
}
macro_rules! with_m_pair {
    ($lf:expr, $l:expr, $x:ident, $rf:expr, $r:expr, $y:ident => $body:expr) => {
        if is_main_m($lf) && is_main_m($rf) {
            with_m_main!($lf, $l, $x => with_m_main!($rf, $r, $y => $body))
        } else if is_main_m($rf) {
            with_m_extra!($lf, $l, $x => with_m_two!($rf, $r, $y => $body))
        } else {
            with_m_two!($lf, $l, $x => with_m_extra!($rf, $r, $y => $body))
        }
    };
}
macro_rules! with_m {
    ($form:expr, $o:expr, $x:ident => $body:expr) => {
        if is_main_m($form) { with_m_main!($form, $o, $x => $body) } else { with_m_extra!($form, $o, $x => $body) }
    };
}

macro_rules! same_d {
    ($a:expr, $b:expr, $x:ident, $y:ident => $body:expr) => {
        match ($a, $b) {
            (AnyT::D0($x), AnyT::D0($y)) => $body,
            (AnyT::D1($x), AnyT::D1($y)) => $body,
            (AnyT::D2($x), AnyT::D2($y)) => $body,
            (AnyT::D3($x), AnyT::D3($y)) => $body,
            _ => "bad-op".to_string(),
        }
    };
}
macro_rules! any_d {
    ($a:expr, $x:ident => $body:expr) => {
        match $a {
            AnyT::D0($x) => $body,
            AnyT::D1($x) => $body,
            AnyT::D2($x) => $body,
            AnyT::D3($x) => $body,
            _ => "bad-op".to_string(),
        }
    };
}


// ----- lite variants (Rat and i64 runs: the four main flavours t/rt/bv/rbv; i64 also only D = 1, 2),
// to bound compile time; the Fp runs use every flavour -----
macro_rules! with_t_main_lite {
    ($form:expr, $o:expr, $x:ident => $body:expr) => {
        match $form {
            "t" => { let $x = $o.plain(); $body }
            "rt" => { let tmp = $o.plain(); let $x = &tmp; $body }
            "bv" => { let $x = TensorView::from($o.boxed()); $body }
            "rbv" => { let tmp = TensorView::from($o.boxed()); let $x = &tmp; $body }
            other => panic!("unknown lite tensor form {}", other),
        }
    };
}
macro_rules! with_t_pair_lite {
    ($lf:expr, $l:expr, $x:ident, $rf:expr, $r:expr, $y:ident => $body:expr) => {
        with_t_main_lite!($lf, $l, $x => with_t_main_lite!($rf, $r, $y => $body))
    };
}
macro_rules! with_t_lite {
    ($form:expr, $o:expr, $x:ident => $body:expr) => { with_t_main_lite!($form, $o, $x => $body) };
}
macro_rules! with_t_ref_lite {
    ($form:expr, $o:expr, $x:ident => $body:expr) => {
        match $form {
            "rt" => { let tmp = $o.plain(); let $x = &tmp; $body }
            "rbv" => { let tmp = TensorView::from($o.boxed()); let $x = &tmp; $body }
            other => panic!("unknown lite receiver form {}", other),
        }
    };
}
macro_rules! with_t_rhs_lite {
    ($form:expr, $o:expr, $x:ident => $body:expr) => { with_t_main_lite!($form, $o, $x => $body) };
}
macro_rules! with_m_main_lite {
    ($form:expr, $o:expr, $x:ident => $body:expr) => {
        match $form {
            "m" => { let $x = $o.plain(); $body }
            "rm" => { let tmp = $o.plain(); let $x = &tmp; $body }
            "bw" => { let $x = MatrixView::from($o.boxed()); $body }
            "rbw" => { let tmp = MatrixView::from($o.boxed()); let $x = &tmp; $body }
            other => panic!("unknown lite matrix form {}", other),
        }
    };
}
macro_rules! with_m_pair_lite {
    ($lf:expr, $l:expr, $x:ident, $rf:expr, $r:expr, $y:ident => $body:expr) => {
        with_m_main_lite!($lf, $l, $x => with_m_main_lite!($rf, $r, $y => $body))
    };
}
macro_rules! with_m_lite {
    ($form:expr, $o:expr, $x:ident => $body:expr) => { with_m_main_lite!($form, $o, $x => $body) };
}
macro_rules! same_d_lite {
    ($a:expr, $b:expr, $x:ident, $y:ident => $body:expr) => {
        match ($a, $b) {
            (AnyT::D1($x), AnyT::D1($y)) => $body,
            (AnyT::D2($x), AnyT::D2($y)) => $body,
            _ => "bad-op".to_string(),
        }
    };
}
macro_rules! any_d_lite {
    ($a:expr, $x:ident => $body:expr) => {
        match $a {
            AnyT::D1($x) => $body,
            AnyT::D2($x) => $body,
            _ => "bad-op".to_string(),
        }
    };
}

macro_rules! runner_for {
    ($modname:ident, $T:ty, $pair_t:ident, $one_t:ident, $ref_t:ident, $rhs_t:ident, $pair_m:ident, $one_m:ident, $same_d:ident, $any_d:ident) => {
        pub mod $modname {
            use super::*;
            type T = $T;
            pub type Dyn<const D: usize> = Box<dyn TensorRef<T, D>>;
            pub type MDyn = Box<dyn MatrixRef<T>>;

            #[derive(Clone)]
            pub struct TOp<const D: usize> {
                base: TBase<D>,
                ads: Vec<Ad>,
            }

            /// a tensor, or a recipe that rebuilds a `TensorStack` / `TensorChain` over its sources
            #[derive(Clone)]
            pub enum TBase<const D: usize> {
                Tensor(Tensor<T, D>),
                Built(std::rc::Rc<dyn Fn() -> Dyn<D>>),
            }

            fn wrap<const D: usize>(cur: Dyn<D>, ad: &Ad) -> Dyn<D> {
                match ad {
                    Ad::Access(n) => Box::new(TensorAccess::from(cur, names_array(n))),
                    Ad::Transpose(n) => Box::new(TensorTranspose::from(cur, names_array(n))),
                    Ad::Reverse(n) => Box::new(TensorReverse::from(cur, &n[..])),
                    Ad::Rename(n) => Box::new(TensorRename::from(cur, names_array(n))),
                    Ad::Range(r) => {
                        assert_eq!(r.len(), D);
                        let ranges: [Option<(usize, usize)>; D] = std::array::from_fn(|i| Some(r[i]));
                        Box::new(TensorRange::from_all(cur, ranges).expect("range"))
                    }
                    Ad::Mask(r) => {
                        assert_eq!(r.len(), D);
                        let masks: [Option<(usize, usize)>; D] = std::array::from_fn(|i| Some(r[i]));
                        Box::new(TensorMask::from_all(cur, masks).expect("mask"))
                    }
                }
            }

            impl<const D: usize> TOp<D> {
                pub fn boxed(&self) -> Dyn<D> {
                    let mut cur: Dyn<D> = match &self.base {
                        TBase::Tensor(t) => Box::new(t.clone()),
                        TBase::Built(f) => f(),
                    };
                    for ad in &self.ads {
                        cur = wrap(cur, ad);
                    }
                    cur
                }
                fn base_tensor(&self) -> Tensor<T, D> {
                    match &self.base {
                        TBase::Tensor(t) => t.clone(),
                        TBase::Built(_) => panic!("form needs a tensor at the bottom"),
                    }
                }
                pub fn plain(&self) -> Tensor<T, D> {
                    assert!(self.ads.is_empty(), "form needs a plain tensor");
                    self.base_tensor()
                }
                pub fn access(&self) -> TensorAccess<T, Tensor<T, D>, D> {
                    match &self.ads[..] {
                        [Ad::Access(n)] => TensorAccess::from(self.base_tensor(), names_array(n)),
                        _ => panic!("form needs exactly one access adaptor"),
                    }
                }
                pub fn transposed(&self) -> TensorTranspose<T, Tensor<T, D>, D> {
                    match &self.ads[..] {
                        [Ad::Transpose(n)] => TensorTranspose::from(self.base_tensor(), names_array(n)),
                        _ => panic!("form needs exactly one transpose adaptor"),
                    }
                }
            }

            #[derive(Clone)]
            pub struct MOp {
                base: Matrix<T>,
                /// `Some`: the operand is `MatrixRefTensor` over this tensor operand (`base` unused)
                tsrc: Option<TOp<2>>,
                ads: Vec<MAd>,
            }

            fn mwrap(cur: MDyn, ad: &MAd) -> MDyn {
                match ad {
                    MAd::Range(r, c) => Box::new(MatrixRange::from(cur, *r, *c)),
                    MAd::Reverse(r, c) => Box::new(MatrixReverse::from(cur, Reverse { rows: *r, columns: *c })),
                }
            }

            impl MOp {
                pub fn boxed(&self) -> MDyn {
                    let mut cur: MDyn = match &self.tsrc {
                        Some(t) => Box::new(MatrixRefTensor::from(t.boxed())),
                        None => Box::new(self.base.clone()),
                    };
                    for ad in &self.ads {
                        cur = mwrap(cur, ad);
                    }
                    cur
                }
                pub fn plain(&self) -> Matrix<T> {
                    assert!(self.ads.is_empty() && self.tsrc.is_none(), "form needs a plain matrix");
                    self.base.clone()
                }
                pub fn of_tensor_access(&self) -> MatrixRefTensor<T, TensorAccess<T, Tensor<T, 2>, 2>> {
                    match (&self.tsrc, &self.ads[..]) {
                        (Some(t), []) => MatrixRefTensor::from(t.access()),
                        _ => panic!("form needs a matrix view of one accessed tensor"),
                    }
                }
                pub fn ranged(&self) -> MatrixRange<T, Matrix<T>> {
                    match &self.ads[..] {
                        [MAd::Range(r, c)] if self.tsrc.is_none() => MatrixRange::from(self.base.clone(), *r, *c),
                        _ => panic!("form needs exactly one range adaptor"),
                    }
                }
            }

            fn show_tensor<const D: usize>(t: &Tensor<T, D>) -> String {
                format!("shape={} data={}", show_shape(&t.shape()), show_vals(t.iter()))
            }
            fn show_matrix(m: &Matrix<T>) -> String {
                let (r, c) = m.size();
                format!("size={}x{} data={}", r, c, show_vals(m.row_major_iter()))
            }

            fn pm<const D: usize>(op: &str, l: &TOp<D>, r: &TOp<D>, lf: &str, rf: &str) -> String {
                let res: Result<Tensor<T, D>, PanicKind> = $pair_t!(lf, l, x, rf, r, y => {
                    if op == "add" { catch(|| x + y) } else { catch(|| x - y) }
                });
                panic_or(res, |t| show_tensor(&t))
            }

            fn pm_lite<const D: usize>(op: &str, l: &TOp<D>, r: &TOp<D>, lf: &str, rf: &str) -> String {
                let res: Result<Tensor<T, D>, PanicKind> = with_t_pair_lite!(lf, l, x, rf, r, y => {
                    if op == "add" { catch(|| x + y) } else { catch(|| x - y) }
                });
                panic_or(res, |t| show_tensor(&t))
            }

            fn scalar_lite<const D: usize>(op: &str, o: &TOp<D>, s: &T, f: &str, sf: &str) -> String {
                let res: Result<Tensor<T, D>, PanicKind> = with_t_lite!(f, o, x => {
                    let s = s.clone();
                    match (op, sf) {
                        ("sadd", "s") => catch(|| x + s),
                        ("sadd", _) => catch(|| x + &s),
                        ("ssub", "s") => catch(|| x - s),
                        ("ssub", _) => catch(|| x - &s),
                        ("smul", "s") => catch(|| x * s),
                        ("smul", _) => catch(|| x * &s),
                        ("sdiv", "s") => catch(|| x / s),
                        (_, _) => catch(|| x / &s),
                    }
                });
                panic_or(res, |t| show_tensor(&t))
            }

            fn ewise<const D: usize>(l: &TOp<D>, r: &TOp<D>, lf: &str, rf: &str, kind: &str) -> String {
                let res: Result<Tensor<T, D>, PanicKind> = $ref_t!(lf, l, x => $rhs_t!(rf, r, y => {
                    match kind {
                        "e" => catch(|| x.elementwise(y, |a, b| a.clone() * b.clone() - b)),
                        "ei" => catch(|| x.elementwise_with_index(y, |_i, a, b| a.clone() * b.clone() - b)),
                        "er" => catch(|| x.elementwise_reference(y, |a, b| a.clone() * b.clone() - b.clone())),
                        "eri" => catch(|| x.elementwise_reference_with_index(y, |_i, a, b| a.clone() * b.clone() - b.clone())),
                        other => panic!("unknown elementwise kind {}", other),
                    }
                }));
                panic_or(res, |t| show_tensor(&t))
            }

            fn mul2(l: &TOp<2>, r: &TOp<2>, lf: &str, rf: &str) -> String {
                let res: Result<Tensor<T, 2>, PanicKind> =
                    $pair_t!(lf, l, x, rf, r, y => catch(|| x * y));
                panic_or(res, |t| show_tensor(&t))
            }

            fn dot1(l: &TOp<1>, r: &TOp<1>, lf: &str, rf: &str) -> String {
                let res: Result<T, PanicKind> =
                    $ref_t!(lf, l, x => $rhs_t!(rf, r, y => catch(|| x.scalar_product(y))));
                panic_or(res, |v| format!("value={}", v.show()))
            }

            fn scalar<const D: usize>(op: &str, o: &TOp<D>, s: &T, f: &str, sf: &str) -> String {
                let res: Result<Tensor<T, D>, PanicKind> = $one_t!(f, o, x => {
                    let s = s.clone();
                    match (op, sf) {
                        ("sadd", "s") => catch(|| x + s),
                        ("sadd", _) => catch(|| x + &s),
                        ("ssub", "s") => catch(|| x - s),
                        ("ssub", _) => catch(|| x - &s),
                        ("smul", "s") => catch(|| x * s),
                        ("smul", _) => catch(|| x * &s),
                        ("sdiv", "s") => catch(|| x / s),
                        (_, _) => catch(|| x / &s),
                    }
                });
                panic_or(res, |t| show_tensor(&t))
            }

            fn mbin(op: &str, l: &MOp, r: &MOp, lf: &str, rf: &str) -> String {
                let res: Result<Matrix<T>, PanicKind> = $pair_m!(lf, l, x, rf, r, y => {
                    match op {
                        "add" => catch(|| x + y),
                        "sub" => catch(|| x - y),
                        _ => catch(|| x * y),
                    }
                });
                panic_or(res, |m| show_matrix(&m))
            }

            fn mscalar(op: &str, o: &MOp, s: &T, f: &str, sf: &str) -> String {
                let res: Result<Matrix<T>, PanicKind> = $one_m!(f, o, x => {
                    let s = s.clone();
                    match (op, sf) {
                        ("sadd", "s") => catch(|| x + s),
                        ("sadd", _) => catch(|| x + &s),
                        ("ssub", "s") => catch(|| x - s),
                        ("ssub", _) => catch(|| x - &s),
                        ("smul", "s") => catch(|| x * s),
                        ("smul", _) => catch(|| x * &s),
                        ("sdiv", "s") => catch(|| x / s),
                        (_, _) => catch(|| x / &s),
                    }
                });
                panic_or(res, |m| show_matrix(&m))
            }

            fn mmap(o: &MOp, f: &str) -> String {
                let res: Result<Matrix<T>, PanicKind> =
                    $one_m!(f, o, x => catch(|| x.map(|e| e.clone() * e.clone() - e)));
                panic_or(res, |m| show_matrix(&m))
            }

            fn mneg(o: &MOp, f: &str) -> String {
                let res: Result<Matrix<T>, PanicKind> = $one_m!(f, o, x => catch(|| -x));
                panic_or(res, |m| show_matrix(&m))
            }

            pub enum AnyT {
                D0(TOp<0>), D1(TOp<1>), D2(TOp<2>), D3(TOp<3>),
                /// high dimensionalities: elementwise `+ -` and scalar ops with the four main flavours only
                D5(TOp<5>), D6(TOp<6>),
            }

            #[derive(Default)]
            pub struct Env {
                tens: Vec<(String, AnyT)>,
                mats: Vec<(String, MOp)>,
            }

            fn define_view<const D: usize>(src: &TOp<D>, kind: &str, arg: &str) -> Result<(TOp<D>, String), String> {
                let ad = match kind {
                    "access" => Ad::Access(parse_names(arg)),
                    "transpose" => Ad::Transpose(parse_names(arg)),
                    "reverse" => Ad::Reverse(parse_names(arg)),
                    "rename" => Ad::Rename(parse_names(arg)),
                    "range" => Ad::Range(parse_pairs(arg)),
                    "mask" => Ad::Mask(parse_pairs(arg)),
                    _ => return Err("bad-op".into()),
                };
                let mut o = src.clone();
                o.ads.push(ad);
                match catch(|| TensorView::from(o.boxed()).shape()) {
                    Ok(shape) => {
                        let s = format!("ok shape={}", show_shape(&shape));
                        Ok((o, s))
                    }
                    Err(_) => Err("none".into()),
                }
            }

            impl Env {
                pub fn tensor(&self, n: &str) -> Option<&AnyT> {
                    self.tens.iter().find(|(k, _)| k == n).map(|(_, v)| v)
                }
                pub fn matrix(&self, n: &str) -> Option<&MOp> {
                    self.mats.iter().find(|(k, _)| k == n).map(|(_, v)| v)
                }

                pub fn step(&mut self, toks: &[&str]) -> String {
                    match toks {
                        ["t", name, shape_s, vals_s] => {
                            let shape = parse_shape(shape_s);
                            let vals: Vec<T> = split_comma(vals_s).iter().map(|s| <T as Elem>::parse(s)).collect();
                            macro_rules! mk {
                                ($D:literal, $V:ident) => {{
                                    match catch(|| Tensor::<T, $D>::from(shape_array(&shape), vals)) {
                                        Ok(t) => {
                                            self.tens.insert(0, (name.to_string(), AnyT::$V(TOp { base: TBase::Tensor(t), ads: vec![] })));
                                            "ok".to_string()
                                        }
                                        Err(k) => panic_str(k),
                                    }
                                }};
                            }
                            match shape.len() {
                                0 => mk!(0, D0), 1 => mk!(1, D1), 2 => mk!(2, D2), 3 => mk!(3, D3),
                                5 => mk!(5, D5), 6 => mk!(6, D6),
                                _ => "bad-op".into(),
                            }
                        }
                        ["v", name, src, kind, arg] => {
                            let r = match self.tensor(src) {
                                None => return "no-operand".into(),
                                Some(AnyT::D0(o)) => define_view(o, kind, arg).map(|(o, s)| (AnyT::D0(o), s)),
                                Some(AnyT::D1(o)) => define_view(o, kind, arg).map(|(o, s)| (AnyT::D1(o), s)),
                                Some(AnyT::D2(o)) => define_view(o, kind, arg).map(|(o, s)| (AnyT::D2(o), s)),
                                Some(AnyT::D3(o)) => define_view(o, kind, arg).map(|(o, s)| (AnyT::D3(o), s)),
                                Some(AnyT::D5(o)) => define_view(o, kind, arg).map(|(o, s)| (AnyT::D5(o), s)),
                                Some(AnyT::D6(o)) => define_view(o, kind, arg).map(|(o, s)| (AnyT::D6(o), s)),
                            };
                            match r {
                                Ok((o, s)) => {
                                    self.tens.insert(0, (name.to_string(), o));
                                    s
                                }
                                Err(s) => s,
                            }
                        }
                        ["k", name, kind, srcs_s, along_s, rest @ ..] => {
                            let arity = opt_arg("via", rest).unwrap_or("tuple");
                            let names = split_comma(srcs_s);
                            let mut srcs: Vec<&AnyT> = vec![];
                            for n in &names {
                                match self.tensor(n) {
                                    Some(t) => srcs.push(t),
                                    None => return "no-operand".into(),
                                }
                            }
                            let along_s = along_s.to_string();
                            // stack: D -> D + 1 (D = 0, 1, 2); chain: D -> D (D = 1, 2, 3)
                            macro_rules! gather {
                                ($V:ident) => {{
                                    let mut v = vec![];
                                    for s in &srcs {
                                        match s {
                                            AnyT::$V(o) => v.push(o.clone()),
                                            _ => return "none".into(),
                                        }
                                    }
                                    v
                                }};
                            }
                            macro_rules! build {
                                ($Adaptor:ident, $d:literal, $out:ty, $srcs:expr, $along:expr) => {{
                                    let srcs = $srcs;
                                    let along = $along;
                                    let f: std::rc::Rc<dyn Fn() -> $out> = match (arity, srcs.len()) {
                                        ("tuple", 2) => std::rc::Rc::new(move || Box::new($Adaptor::<T, (Dyn<$d>, Dyn<$d>), $d>::from((srcs[0].boxed(), srcs[1].boxed()), along)) as $out),
                                        ("tuple", 3) => std::rc::Rc::new(move || Box::new($Adaptor::<T, (Dyn<$d>, Dyn<$d>, Dyn<$d>), $d>::from((srcs[0].boxed(), srcs[1].boxed(), srcs[2].boxed()), along)) as $out),
                                        ("tuple", 4) => std::rc::Rc::new(move || Box::new($Adaptor::<T, (Dyn<$d>, Dyn<$d>, Dyn<$d>, Dyn<$d>), $d>::from((srcs[0].boxed(), srcs[1].boxed(), srcs[2].boxed(), srcs[3].boxed()), along)) as $out),
                                        ("array", 1) => std::rc::Rc::new(move || Box::new($Adaptor::<T, [Dyn<$d>; 1], $d>::from([srcs[0].boxed()], along)) as $out),
                                        ("array", 2) => std::rc::Rc::new(move || Box::new($Adaptor::<T, [Dyn<$d>; 2], $d>::from([srcs[0].boxed(), srcs[1].boxed()], along)) as $out),
                                        ("array", 3) => std::rc::Rc::new(move || Box::new($Adaptor::<T, [Dyn<$d>; 3], $d>::from([srcs[0].boxed(), srcs[1].boxed(), srcs[2].boxed()], along)) as $out),
                                        ("array", 4) => std::rc::Rc::new(move || Box::new($Adaptor::<T, [Dyn<$d>; 4], $d>::from([srcs[0].boxed(), srcs[1].boxed(), srcs[2].boxed(), srcs[3].boxed()], along)) as $out),
                                        _ => return "none".into(),
                                    };
                                    f
                                }};
                            }
                            macro_rules! finish {
                                ($V:ident, $f:expr) => {{
                                    let o = TOp { base: TBase::Built($f), ads: vec![] };
                                    match catch(|| TensorView::from(o.boxed()).shape()) {
                                        Ok(shape) => {
                                            self.tens.insert(0, (name.to_string(), AnyT::$V(o)));
                                            format!("ok shape={}", show_shape(&shape))
                                        }
                                        Err(_) => "none".into(),
                                    }
                                }};
                            }
                            if srcs.is_empty() {
                                return "none".into();
                            }
                            match (*kind, srcs[0]) {
                                ("stack", first) => {
                                    let (p, n) = along_s.split_once(':').expect("pos:name");
                                    let along: (usize, &'static str) = (p.parse().unwrap(), intern(n));
                                    match first {
                                        AnyT::D0(_) => { let f = build!(TensorStack, 0, Dyn<1>, gather!(D0), along); finish!(D1, f) }
                                        AnyT::D1(_) => { let f = build!(TensorStack, 1, Dyn<2>, gather!(D1), along); finish!(D2, f) }
                                        AnyT::D2(_) => { let f = build!(TensorStack, 2, Dyn<3>, gather!(D2), along); finish!(D3, f) }
                                        _ => "none".into(),
                                    }
                                }
                                ("chain", first) => {
                                    let along: &'static str = intern(&along_s);
                                    match first {
                                        AnyT::D1(_) => { let f = build!(TensorChain, 1, Dyn<1>, gather!(D1), along); finish!(D1, f) }
                                        AnyT::D2(_) => { let f = build!(TensorChain, 2, Dyn<2>, gather!(D2), along); finish!(D2, f) }
                                        AnyT::D3(_) => { let f = build!(TensorChain, 3, Dyn<3>, gather!(D3), along); finish!(D3, f) }
                                        _ => "none".into(),
                                    }
                                }
                                _ => "bad-op".into(),
                            }
                        }
                        ["m", name, rows_s, cols_s, vals_s] => {
                            let (r, c): (usize, usize) = (rows_s.parse().unwrap(), cols_s.parse().unwrap());
                            let vals: Vec<T> = split_comma(vals_s).iter().map(|s| <T as Elem>::parse(s)).collect();
                            match catch(|| Matrix::from_flat_row_major((r, c), vals)) {
                                Ok(m) => {
                                    self.mats.insert(0, (name.to_string(), MOp { base: m, tsrc: None, ads: vec![] }));
                                    "ok".into()
                                }
                                Err(k) => panic_str(k),
                            }
                        }
                        ["w", name, src, "oftensor"] => {
                            let t = match self.tensor(src) {
                                Some(AnyT::D2(t)) => t.clone(),
                                Some(_) => return "none".into(),
                                None => return "no-operand".into(),
                            };
                            match catch(|| {
                                let v = TensorView::from(t.boxed());
                                let shape = v.shape();
                                let data: Vec<T> = v.iter().collect();
                                (shape, Matrix::from_flat_row_major((shape[0].1, shape[1].1), data))
                            }) {
                                Ok((shape, m)) => {
                                    self.mats.insert(0, (name.to_string(), MOp { base: m, tsrc: Some(t), ads: vec![] }));
                                    format!("ok size={}x{}", shape[0].1, shape[1].1)
                                }
                                Err(_) => "none".into(),
                            }
                        }
                        ["w", name, src, kind, args @ ..] => {
                            let o = match self.matrix(src) {
                                None => return "no-operand".into(),
                                Some(o) => o,
                            };
                            let ad = match (*kind, args) {
                                ("range", [rs, cs]) => {
                                    let (r, c) = (parse_pairs(rs), parse_pairs(cs));
                                    if r.len() != 1 || c.len() != 1 {
                                        return "none".into();
                                    }
                                    MAd::Range(r[0], c[0])
                                }
                                ("reverse", [flags]) => MAd::Reverse(flags.starts_with('1'), flags.ends_with('1')),
                                _ => return "none".into(),
                            };
                            let mut o = o.clone();
                            o.ads.push(ad);
                            match catch(|| MatrixView::from(o.boxed()).size()) {
                                Ok((r, c)) => {
                                    self.mats.insert(0, (name.to_string(), o));
                                    format!("ok size={}x{}", r, c)
                                }
                                Err(_) => "none".into(),
                            }
                        }
                        [op @ ("add" | "sub"), a, b, rest @ ..] => {
                            let via = opt_arg("via", rest).unwrap_or("rt-rt");
                            let (lf, rf) = via.split_once('-').expect("via=l-r");
                            if let (Some(x), Some(y)) = (self.tensor(a), self.tensor(b)) {
                                match (x, y) {
                                    (AnyT::D5(p), AnyT::D5(q)) => pm_lite(op, p, q, lf, rf),
                                    (AnyT::D6(p), AnyT::D6(q)) => pm_lite(op, p, q, lf, rf),
                                    _ => $same_d!(x, y, p, q => pm(op, p, q, lf, rf)),
                                }
                            } else if let (Some(x), Some(y)) = (self.matrix(a), self.matrix(b)) {
                                mbin(op, x, y, lf, rf)
                            } else {
                                "no-operand".into()
                            }
                        }
                        ["ewise", a, b, rest @ ..] => {
                            let via = opt_arg("via", rest).unwrap_or("rt-rt-e");
                            let parts: Vec<&str> = via.split('-').collect();
                            if let (Some(x), Some(y)) = (self.tensor(a), self.tensor(b)) {
                                $same_d!(x, y, p, q => ewise(p, q, parts[0], parts[1], parts[2]))
                            } else {
                                "no-operand".into()
                            }
                        }
                        ["mul", a, b, rest @ ..] => {
                            let via = opt_arg("via", rest).unwrap_or("rt-rt");
                            let (lf, rf) = via.split_once('-').expect("via=l-r");
                            if let (Some(x), Some(y)) = (self.tensor(a), self.tensor(b)) {
                                match (x, y) {
                                    (AnyT::D2(p), AnyT::D2(q)) => mul2(p, q, lf, rf),
                                    _ => "bad-op".into(),
                                }
                            } else if let (Some(x), Some(y)) = (self.matrix(a), self.matrix(b)) {
                                mbin("mul", x, y, lf, rf)
                            } else {
                                "no-operand".into()
                            }
                        }
                        ["dot", a, b, rest @ ..] => {
                            let via = opt_arg("via", rest).unwrap_or("rt-rt");
                            let (lf, rf) = via.split_once('-').expect("via=l-r");
                            match (self.tensor(a), self.tensor(b)) {
                                (Some(AnyT::D1(p)), Some(AnyT::D1(q))) => dot1(p, q, lf, rf),
                                (Some(_), Some(_)) => "bad-op".into(),
                                _ => "no-operand".into(),
                            }
                        }
                        [op @ ("sadd" | "ssub" | "smul" | "sdiv"), a, s, rest @ ..] => {
                            let via = opt_arg("via", rest).unwrap_or("rt-s");
                            let (f, sf) = via.split_once('-').expect("via=f-s");
                            let s = <T as Elem>::parse(s);
                            if let Some(x) = self.tensor(a) {
                                match x {
                                    AnyT::D5(p) => scalar_lite(op, p, &s, f, sf),
                                    AnyT::D6(p) => scalar_lite(op, p, &s, f, sf),
                                    _ => $any_d!(x, p => scalar(op, p, &s, f, sf)),
                                }
                            } else if let Some(x) = self.matrix(a) {
                                mscalar(op, x, &s, f, sf)
                            } else {
                                "no-operand".into()
                            }
                        }
                        ["mmap", a, rest @ ..] => {
                            let f = opt_arg("via", rest).unwrap_or("rm");
                            match self.matrix(a) {
                                Some(x) => mmap(x, f),
                                None => "no-operand".into(),
                            }
                        }
                        ["neg", a, rest @ ..] => {
                            let f = opt_arg("via", rest).unwrap_or("rm");
                            match self.matrix(a) {
                                Some(x) => mneg(x, f),
                                None => "no-operand".into(),
                            }
                        }
                        _ => "bad-op".into(),
                    }
                }
            }
        }
    };
}

runner_for!(run_fp, Fp, with_t_pair, with_t, with_t_ref, with_t_rhs, with_m_pair, with_m, same_d, any_d);
runner_for!(run_rat, Rat, with_t_pair_lite, with_t_lite, with_t_ref_lite, with_t_rhs_lite, with_m_pair_lite, with_m_lite, same_d, any_d);
runner_for!(run_f64, f64, with_t_pair_lite, with_t_lite, with_t_ref_lite, with_t_rhs_lite, with_m_pair_lite, with_m_lite, same_d_lite, any_d_lite);
runner_for!(run_trace, easy_ml::differentiation::Trace<Fp>, with_t_pair_lite, with_t_lite, with_t_ref_lite, with_t_rhs_lite, with_m_pair_lite, with_m_lite, same_d_lite, any_d_lite);
runner_for!(run_i64, i64, with_t_pair_lite, with_t_lite, with_t_ref_lite, with_t_rhs_lite, with_m_pair_lite, with_m_lite, same_d_lite, any_d_lite);

// ---------------------------------------------------------------------------------------------
// degenerate float data: implementation (tensor API, matrix API) versus a direct fold
// ---------------------------------------------------------------------------------------------

fn same_bits(a: f64, b: f64) -> bool {
    (a.is_nan() && b.is_nan()) || a.to_bits() == b.to_bits()
}
fn same_all(a: &[f64], b: &[f64]) -> bool {
    a.len() == b.len() && a.iter().zip(b.iter()).all(|(x, y)| same_bits(*x, *y))
}
fn parse_f64s(s: &str) -> Vec<f64> {
    split_comma(s).iter().map(|t| t.parse::<f64>().expect("f64")).collect()
}
/// `a0*b0 + a1*b1 + …` folded from the left starting at the first product (the documented order)
fn fold_dot(a: &[f64], b: &[f64]) -> f64 {
    let mut it = a.iter().zip(b.iter()).map(|(x, y)| x * y);
    let first = it.next().expect("non-empty");
    it.fold(first, |acc, p| acc + p)
}
fn verdict(name: &str, got: Result<Vec<f64>, PanicKind>, want: &[f64], out: &mut Vec<String>) {
    match got {
        Ok(v) if same_all(&v, want) => {}
        Ok(v) => out.push(format!("{}={:?}!={:?}", name, v, want)),
        Err(k) => out.push(format!("{}={}", name, panic_str(k))),
    }
}

fn fdeg(toks: &[&str]) -> String {
    let mut bad: Vec<String> = vec![];
    match toks {
        ["dot", l, r] => {
            let (l, r) = (parse_f64s(l), parse_f64s(r));
            let n = l.len();
            let want = vec![fold_dot(&l, &r)];
            let (tl, tr) = (Tensor::from([("s", n)], l.clone()), Tensor::from([("s", n)], r.clone()));
            verdict("tensor.scalar_product", catch(|| vec![tl.scalar_product(&tr)]), &want, &mut bad);
            verdict("view.scalar_product", catch(|| vec![TensorView::from(&tl).scalar_product(TensorView::from(&tr))]), &want, &mut bad);
            verdict("view.scalar_product(tensor)", catch(|| vec![TensorView::from(&tl).scalar_product(tr.clone())]), &want, &mut bad);
            let (ml, mr) = (Matrix::from_flat_row_major((1, n), l.clone()), Matrix::from_flat_row_major((n, 1), r.clone()));
            verdict("matrix.1xN*Nx1", catch(|| (&ml * &mr).row_major_iter().collect()), &want, &mut bad);
            let (t2l, t2r) = (Tensor::from([("r", 1), ("c", n)], l), Tensor::from([("x", n), ("y", 1)], r));
            verdict("tensor.1xN*Nx1", catch(|| (&t2l * &t2r).iter().collect()), &want, &mut bad);
        }
        ["mul", m, n, l, lv, rv] => {
            let (m, n, l): (usize, usize, usize) = (m.parse().unwrap(), n.parse().unwrap(), l.parse().unwrap());
            let (a, b) = (parse_f64s(lv), parse_f64s(rv));
            let mut want = vec![];
            for i in 0..m {
                for j in 0..l {
                    let row: Vec<f64> = (0..n).map(|k| a[i * n + k]).collect();
                    let col: Vec<f64> = (0..n).map(|k| b[k * l + j]).collect();
                    want.push(fold_dot(&row, &col));
                }
            }
            let (ta, tb) = (Tensor::from([("r", m), ("c", n)], a.clone()), Tensor::from([("x", n), ("y", l)], b.clone()));
            verdict("tensor.mul", catch(|| (&ta * &tb).iter().collect()), &want, &mut bad);
            verdict("view.mul", catch(|| (TensorView::from(&ta) * TensorView::from(&tb)).iter().collect()), &want, &mut bad);
            let (ma, mb) = (Matrix::from_flat_row_major((m, n), a), Matrix::from_flat_row_major((n, l), b));
            verdict("matrix.mul", catch(|| (&ma * &mb).row_major_iter().collect()), &want, &mut bad);
            verdict("matrixview.mul", catch(|| (MatrixView::from(&ma) * MatrixView::from(&mb)).row_major_iter().collect()), &want, &mut bad);
        }
        ["ew", op, rows, cols, lv, rv] => {
            let (rows, cols): (usize, usize) = (rows.parse().unwrap(), cols.parse().unwrap());
            let (a, b) = (parse_f64s(lv), parse_f64s(rv));
            let add = *op == "add";
            let want: Vec<f64> = a.iter().zip(b.iter()).map(|(x, y)| if add { x + y } else { x - y }).collect();
            let (ta, tb) = (Tensor::from([("r", rows), ("c", cols)], a.clone()), Tensor::from([("r", rows), ("c", cols)], b.clone()));
            verdict("tensor", catch(|| if add { &ta + &tb } else { &ta - &tb }.iter().collect()), &want, &mut bad);
            verdict("view", catch(|| if add { TensorView::from(&ta) + TensorView::from(&tb) } else { TensorView::from(&ta) - TensorView::from(&tb) }.iter().collect()), &want, &mut bad);
            let (ma, mb) = (Matrix::from_flat_row_major((rows, cols), a), Matrix::from_flat_row_major((rows, cols), b));
            verdict("matrix", catch(|| if add { &ma + &mb } else { &ma - &mb }.row_major_iter().collect()), &want, &mut bad);
            verdict("matrixview", catch(|| if add { MatrixView::from(&ma) + MatrixView::from(&mb) } else { MatrixView::from(&ma) - MatrixView::from(&mb) }.row_major_iter().collect()), &want, &mut bad);
        }
        ["scalar", op, vals, s] => {
            let a = parse_f64s(vals);
            let s: f64 = s.parse().expect("f64");
            let f = |x: f64| match *op { "sadd" => x + s, "ssub" => x - s, "smul" => x * s, _ => x / s };
            let want: Vec<f64> = a.iter().map(|x| f(*x)).collect();
            let n = a.len();
            let t = Tensor::from([("s", n)], a.clone());
            let m = Matrix::from_flat_row_major((1, n), a);
            macro_rules! apply { ($x:expr) => { match *op { "sadd" => $x + s, "ssub" => $x - s, "smul" => $x * s, _ => $x / s } }; }
            verdict("tensor", catch(|| apply!(&t).iter().collect()), &want, &mut bad);
            verdict("view", catch(|| apply!(TensorView::from(&t)).iter().collect()), &want, &mut bad);
            verdict("matrix", catch(|| apply!(&m).row_major_iter().collect()), &want, &mut bad);
            verdict("matrixview", catch(|| apply!(MatrixView::from(&m)).row_major_iter().collect()), &want, &mut bad);
        }
        ["neg", rows, cols, vals] => {
            let (rows, cols): (usize, usize) = (rows.parse().unwrap(), cols.parse().unwrap());
            let a = parse_f64s(vals);
            let want: Vec<f64> = a.iter().map(|x| -x).collect();
            let m = Matrix::from_flat_row_major((rows, cols), a);
            verdict("matrix", catch(|| (-&m).row_major_iter().collect()), &want, &mut bad);
            verdict("matrixview", catch(|| (-MatrixView::from(&m)).row_major_iter().collect()), &want, &mut bad);
        }
        _ => return "bad-op".into(),
    }
    if bad.is_empty() { "agree".into() } else { format!("DISAGREE {}", bad.join(" ; ")) }
}

// ---------------------------------------------------------------------------------------------
// integer boundary values: implementation (tensor, tensor view, matrix, matrix view) versus the
// plain operator of the element type applied cell by cell
// ---------------------------------------------------------------------------------------------

/// A small user-defined element type with saturating arithmetic over `i8`.
#[derive(Clone, Copy, Debug, PartialEq, PartialOrd)]
pub struct Sat8(pub i8);

macro_rules! sat8_forms {
    ($Trait:ident, $method:ident, $f:expr) => {
        impl std::ops::$Trait<Sat8> for Sat8 { type Output = Sat8; fn $method(self, r: Sat8) -> Sat8 { Sat8($f(self.0, r.0)) } }
        impl<'a> std::ops::$Trait<&'a Sat8> for Sat8 { type Output = Sat8; fn $method(self, r: &Sat8) -> Sat8 { Sat8($f(self.0, r.0)) } }
        impl<'a> std::ops::$Trait<Sat8> for &'a Sat8 { type Output = Sat8; fn $method(self, r: Sat8) -> Sat8 { Sat8($f(self.0, r.0)) } }
        impl<'a, 'b> std::ops::$Trait<&'b Sat8> for &'a Sat8 { type Output = Sat8; fn $method(self, r: &Sat8) -> Sat8 { Sat8($f(self.0, r.0)) } }
    };
}
sat8_forms!(Add, add, |a: i8, b: i8| a.saturating_add(b));
sat8_forms!(Sub, sub, |a: i8, b: i8| a.saturating_sub(b));
sat8_forms!(Mul, mul, |a: i8, b: i8| a.saturating_mul(b));
sat8_forms!(Div, div, |a: i8, b: i8| if b == 0 { 0 } else { a.saturating_div(b) });
impl std::ops::Neg for Sat8 { type Output = Sat8; fn neg(self) -> Sat8 { Sat8(self.0.saturating_neg()) } }
impl<'a> std::ops::Neg for &'a Sat8 { type Output = Sat8; fn neg(self) -> Sat8 { Sat8(self.0.saturating_neg()) } }
impl easy_ml::numeric::ZeroOne for Sat8 { fn zero() -> Sat8 { Sat8(0) } fn one() -> Sat8 { Sat8(1) } }
impl easy_ml::numeric::FromUsize for Sat8 { fn from_usize(n: usize) -> Option<Sat8> { i8::try_from(n).ok().map(Sat8) } }
impl std::iter::Sum for Sat8 { fn sum<I: Iterator<Item = Sat8>>(it: I) -> Sat8 { it.fold(Sat8(0), |a, b| a + b) } }
impl<'a> std::iter::Sum<&'a Sat8> for Sat8 { fn sum<I: Iterator<Item = &'a Sat8>>(it: I) -> Sat8 { it.fold(Sat8(0), |a, b| a + b) } }

pub trait IntLike: Clone + PartialEq + std::fmt::Debug + 'static {
    fn parse_int(s: &str) -> Self;
}
impl IntLike for i8 { fn parse_int(s: &str) -> i8 { s.parse().expect("i8") } }
impl IntLike for i32 { fn parse_int(s: &str) -> i32 { s.parse().expect("i32") } }
impl IntLike for i64 { fn parse_int(s: &str) -> i64 { s.parse().expect("i64") } }
impl IntLike for Sat8 { fn parse_int(s: &str) -> Sat8 { Sat8(s.parse().expect("i8")) } }

fn ibv_verdict<T: PartialEq + std::fmt::Debug>(
    name: &str,
    got: Result<Vec<T>, PanicKind>,
    want: &Result<Vec<T>, PanicKind>,
    out: &mut Vec<String>,
) {
    let same = match (&got, want) {
        (Ok(a), Ok(b)) => a == b,
        (Err(a), Err(b)) => a == b,
        _ => false,
    };
    if !same {
        let show = |r: &Result<Vec<T>, PanicKind>| match r {
            Ok(v) => format!("{:?}", v),
            Err(k) => panic_str(*k),
        };
        out.push(format!("{}={} want {}", name, show(&got), show(want)));
    }
}

macro_rules! ibv_for {
    ($fname:ident, $T:ty) => {
        fn $fname(toks: &[&str]) -> String {
            type T = $T;
            let parse = |s: &str| -> Vec<T> { split_comma(s).iter().map(|x| <T as IntLike>::parse_int(x)).collect() };
            let mut bad: Vec<String> = vec![];
            // the expected answer: the element type's own operator, cell by cell, in the order the
            // documentation gives; the first cell that panics decides
            fn cells(n: usize, f: impl Fn(usize) -> T) -> Result<Vec<T>, PanicKind> {
                let mut out = vec![];
                for i in 0..n {
                    out.push(catch(|| f(i))?);
                }
                Ok(out)
            }
            fn dot(a: &[T], b: &[T]) -> T {
                let mut acc = a[0].clone() * b[0].clone();
                for k in 1..a.len() {
                    let p = a[k].clone() * b[k].clone();
                    acc = acc + p;
                }
                acc
            }
            match toks {
                [op @ ("add" | "sub"), rows, cols, lv, rv] => {
                    let (rows, cols): (usize, usize) = (rows.parse().unwrap(), cols.parse().unwrap());
                    let (a, b) = (parse(lv), parse(rv));
                    let add = *op == "add";
                    let want = cells(a.len(), |i| if add { a[i].clone() + b[i].clone() } else { a[i].clone() - b[i].clone() });
                    let (ta, tb) = (Tensor::from([("r", rows), ("c", cols)], a.clone()), Tensor::from([("r", rows), ("c", cols)], b.clone()));
                    ibv_verdict("tensor", catch(|| if add { &ta + &tb } else { &ta - &tb }.iter().collect()), &want, &mut bad);
                    ibv_verdict("tensor.owned", catch(|| if add { ta.clone() + tb.clone() } else { ta.clone() - tb.clone() }.iter().collect()), &want, &mut bad);
                    ibv_verdict("view", catch(|| if add { TensorView::from(&ta) + TensorView::from(&tb) } else { TensorView::from(&ta) - TensorView::from(&tb) }.iter().collect()), &want, &mut bad);
                    ibv_verdict("view.tensor", catch(|| if add { &TensorView::from(&ta) + &tb } else { &TensorView::from(&ta) - &tb }.iter().collect()), &want, &mut bad);
                    let (ma, mb) = (Matrix::from_flat_row_major((rows, cols), a.clone()), Matrix::from_flat_row_major((rows, cols), b.clone()));
                    ibv_verdict("matrix", catch(|| if add { &ma + &mb } else { &ma - &mb }.row_major_iter().collect()), &want, &mut bad);
                    ibv_verdict("matrixview", catch(|| if add { MatrixView::from(&ma) + MatrixView::from(&mb) } else { MatrixView::from(&ma) - MatrixView::from(&mb) }.row_major_iter().collect()), &want, &mut bad);
                    ibv_verdict("matrix.view", catch(|| if add { &ma + MatrixView::from(&mb) } else { &ma - MatrixView::from(&mb) }.row_major_iter().collect()), &want, &mut bad);
                }
                ["neg", rows, cols, vals] => {
                    let (rows, cols): (usize, usize) = (rows.parse().unwrap(), cols.parse().unwrap());
                    let a = parse(vals);
                    let want = cells(a.len(), |i| -a[i].clone());
                    let m = Matrix::from_flat_row_major((rows, cols), a.clone());
                    ibv_verdict("matrix", catch(|| (-&m).row_major_iter().collect()), &want, &mut bad);
                    ibv_verdict("matrixview", catch(|| (-MatrixView::from(&m)).row_major_iter().collect()), &want, &mut bad);
                }
                ["scalar", op, vals, sv] => {
                    let a = parse(vals);
                    let s = <T as IntLike>::parse_int(sv);
                    let want = cells(a.len(), |i| match *op { "sadd" => a[i].clone() + s.clone(), "ssub" => a[i].clone() - s.clone(), "smul" => a[i].clone() * s.clone(), _ => a[i].clone() / s.clone() });
                    let n = a.len();
                    let t = Tensor::from([("s", n)], a.clone());
                    let m = Matrix::from_flat_row_major((1, n), a.clone());
                    macro_rules! apply { ($x:expr) => { match *op { "sadd" => $x + s.clone(), "ssub" => $x - s.clone(), "smul" => $x * s.clone(), _ => $x / s.clone() } }; }
                    ibv_verdict("tensor", catch(|| apply!(&t).iter().collect()), &want, &mut bad);
                    ibv_verdict("view", catch(|| apply!(TensorView::from(&t)).iter().collect()), &want, &mut bad);
                    ibv_verdict("matrix", catch(|| apply!(&m).row_major_iter().collect()), &want, &mut bad);
                    ibv_verdict("matrixview", catch(|| apply!(MatrixView::from(&m)).row_major_iter().collect()), &want, &mut bad);
                }
                ["dot", lv, rv] => {
                    let (a, b) = (parse(lv), parse(rv));
                    let n = a.len();
                    let want = catch(|| vec![dot(&a, &b)]);
                    let (tl, tr) = (Tensor::from([("s", n)], a.clone()), Tensor::from([("s", n)], b.clone()));
                    ibv_verdict("tensor.scalar_product", catch(|| vec![tl.scalar_product(&tr)]), &want, &mut bad);
                    ibv_verdict("view.scalar_product", catch(|| vec![TensorView::from(&tl).scalar_product(TensorView::from(&tr))]), &want, &mut bad);
                    let (ml, mr) = (Matrix::from_flat_row_major((1, n), a.clone()), Matrix::from_flat_row_major((n, 1), b.clone()));
                    ibv_verdict("matrix.1xN*Nx1", catch(|| (&ml * &mr).row_major_iter().collect()), &want, &mut bad);
                }
                ["mul", m, n, l, lv, rv] => {
                    let (m, n, l): (usize, usize, usize) = (m.parse().unwrap(), n.parse().unwrap(), l.parse().unwrap());
                    let (a, b) = (parse(lv), parse(rv));
                    let want = cells(m * l, |ij| {
                        let (i, j) = (ij / l, ij % l);
                        let row: Vec<T> = (0..n).map(|k| a[i * n + k].clone()).collect();
                        let col: Vec<T> = (0..n).map(|k| b[k * l + j].clone()).collect();
                        dot(&row, &col)
                    });
                    let (ta, tb) = (Tensor::from([("r", m), ("c", n)], a.clone()), Tensor::from([("x", n), ("y", l)], b.clone()));
                    ibv_verdict("tensor.mul", catch(|| (&ta * &tb).iter().collect()), &want, &mut bad);
                    ibv_verdict("view.mul", catch(|| (TensorView::from(&ta) * TensorView::from(&tb)).iter().collect()), &want, &mut bad);
                    let (ma, mb) = (Matrix::from_flat_row_major((m, n), a.clone()), Matrix::from_flat_row_major((n, l), b.clone()));
                    ibv_verdict("matrix.mul", catch(|| (&ma * &mb).row_major_iter().collect()), &want, &mut bad);
                    ibv_verdict("matrixview.mul", catch(|| (MatrixView::from(&ma) * MatrixView::from(&mb)).row_major_iter().collect()), &want, &mut bad);
                }
                _ => return "bad-op".into(),
            }
            if bad.is_empty() { "agree".into() } else { format!("DISAGREE {}", bad.join(" ; ")) }
        }
    };
}
ibv_for!(ibv_i8, i8);
ibv_for!(ibv_i32, i32);
ibv_for!(ibv_i64, i64);
ibv_for!(ibv_sat8, Sat8);

fn ibv(toks: &[&str]) -> String {
    match toks {
        ["i8", rest @ ..] => ibv_i8(rest),
        ["i32", rest @ ..] => ibv_i32(rest),
        ["i64", rest @ ..] => ibv_i64(rest),
        ["sat8", rest @ ..] => ibv_sat8(rest),
        _ => "bad-op".into(),
    }
}

enum Case {
    None,
    Fp(run_fp::Env),
    Rat(run_rat::Env),
    I64(run_i64::Env),
    F64(run_f64::Env),
}

pub struct Runner {
    case: Case,
}

impl Runner {
    pub fn new() -> Runner {
        Runner { case: Case::None }
    }

    pub fn step(&mut self, toks: &[&str]) -> String {
        match toks {
            ["fdeg", rest @ ..] => fdeg(rest),
            ["ibv", rest @ ..] => ibv(rest),
            ["@", "fp"] => { self.case = Case::Fp(Default::default()); "ok".into() }
            ["@", "rat"] => { self.case = Case::Rat(Default::default()); "ok".into() }
            ["@", "i64"] => { self.case = Case::I64(Default::default()); "ok".into() }
            ["@", "f64"] => { self.case = Case::F64(Default::default()); "ok".into() }
            _ => match &mut self.case {
                Case::None => "no-case".into(),
                Case::Fp(e) => match toks {
                    // euclidean_length needs `Real` (sqrt): prime-field runs only
                    ["elen", a, ..] => {
                        if let Some(t) = e.tensor(a) {
                            match t {
                                run_fp::AnyT::D1(o) => {
                                    let t = o.plain();
                                    panic_or(catch(|| t.euclidean_length()), |v| format!("value={}", v.show()))
                                }
                                _ => "bad-op".into(),
                            }
                        } else if let Some(m) = e.matrix(a) {
                            let m = m.plain();
                            panic_or(catch(|| m.euclidean_length()), |v| format!("value={}", v.show()))
                        } else {
                            "no-operand".into()
                        }
                    }
                    _ => e.step(toks),
                },
                Case::Rat(e) => e.step(toks),
                Case::I64(e) => e.step(toks),
                Case::F64(e) => e.step(toks),
            },
        }
    }
}
