//! C02 — tensor view adaptors and their compositions.  See lean/Driver/C02.lean for the protocol.
//!
//! Compositions are built at run time as `Box<dyn TensorMut<u64, D>>` (one enum arm per
//! dimensionality 0..=6); the leaves are `&'static mut Tensor<u64, D>` / `TensorRefMatrix` over
//! `&'static mut Matrix<u64>` borrowed from an arena of raw pointers, so that after a write the
//! view can be dropped and the leaves scanned directly.  The views are rebuilt from the recipe
//! (the accepted operations of the case) whenever a source was consumed by a rejected constructor
//! or dropped for a scan.  A catalogue of statically typed compositions exercises the non-boxed
//! forms (tuples, arrays, `&`, `&mut`, owned, `TensorView`/`Tensor` convenience methods).

use crate::util::*;
use easy_ml::interop::{MatrixRefTensor, TensorRefMatrix};
use easy_ml::matrices::views::{MatrixMut, MatrixRange, MatrixRef, MatrixReverse, Reverse as MReverse};
use easy_ml::matrices::Matrix;
use easy_ml::tensors::indexing::{TensorAccess, TensorTranspose};
use easy_ml::tensors::views::{
    DataLayout, IndexRange, TensorChain, TensorExpansion, TensorIndex, TensorMask, TensorMut,
    TensorRange, TensorRef, TensorRename, TensorReverse, TensorStack, TensorView,
};
use easy_ml::tensors::Tensor;

const SENTINEL: u64 = 999_999_999_999;
const LEAF_MUL: u64 = 1_000_000;

type Dyn<const D: usize> = Box<dyn TensorMut<u64, D>>;

enum DV {
    D0(Dyn<0>),
    D1(Dyn<1>),
    D2(Dyn<2>),
    D3(Dyn<3>),
    D4(Dyn<4>),
    D5(Dyn<5>),
    D6(Dyn<6>),
}

macro_rules! dv_each {
    ($dv:expr, $v:ident => $body:expr) => {
        match $dv {
            DV::D0($v) => $body,
            DV::D1($v) => $body,
            DV::D2($v) => $body,
            DV::D3($v) => $body,
            DV::D4($v) => $body,
            DV::D5($v) => $body,
            DV::D6($v) => $body,
        }
    };
}

/// `$body : Result<Dyn<D>, Rej>` for the same `D` as the matched arm.
macro_rules! dv_same {
    ($dv:expr, $v:ident => $body:expr) => {
        match $dv {
            DV::D0($v) => $body.map(DV::D0),
            DV::D1($v) => $body.map(DV::D1),
            DV::D2($v) => $body.map(DV::D2),
            DV::D3($v) => $body.map(DV::D3),
            DV::D4($v) => $body.map(DV::D4),
            DV::D5($v) => $body.map(DV::D5),
            DV::D6($v) => $body.map(DV::D6),
        }
    };
}

impl DV {
    fn d(&self) -> usize {
        match self {
            DV::D0(_) => 0,
            DV::D1(_) => 1,
            DV::D2(_) => 2,
            DV::D3(_) => 3,
            DV::D4(_) => 4,
            DV::D5(_) => 5,
            DV::D6(_) => 6,
        }
    }
    fn shape(&self) -> Vec<(&'static str, usize)> {
        dv_each!(self, v => v.view_shape().to_vec())
    }
}

#[derive(Debug)]
enum Rej {
    Reject,
    Skip,
}

fn rej_str(r: &Rej) -> String {
    match r {
        Rej::Reject => "reject".into(),
        Rej::Skip => "skip".into(),
    }
}

// ---------------------------------------------------------------------------------------------
// leaves
// ---------------------------------------------------------------------------------------------

enum LeafPtr {
    T0(*mut Tensor<u64, 0>),
    T1(*mut Tensor<u64, 1>),
    T2(*mut Tensor<u64, 2>),
    T3(*mut Tensor<u64, 3>),
    T4(*mut Tensor<u64, 4>),
    T5(*mut Tensor<u64, 5>),
    T6(*mut Tensor<u64, 6>),
    M(*mut Matrix<u64>),
}

struct Leaf {
    id: u64,
    ptr: LeafPtr,
}

impl Leaf {
    /// the flat data of the leaf; only called while no view borrowing the leaf is alive
    fn scan(&self) -> Vec<u64> {
        unsafe {
            match self.ptr {
                LeafPtr::T0(p) => (*p).iter().collect(),
                LeafPtr::T1(p) => (*p).iter().collect(),
                LeafPtr::T2(p) => (*p).iter().collect(),
                LeafPtr::T3(p) => (*p).iter().collect(),
                LeafPtr::T4(p) => (*p).iter().collect(),
                LeafPtr::T5(p) => (*p).iter().collect(),
                LeafPtr::T6(p) => (*p).iter().collect(),
                LeafPtr::M(p) => (*p).row_major_iter().collect(),
            }
        }
    }
    fn restore(&self) {
        let id = self.id;
        unsafe {
            match self.ptr {
                LeafPtr::T0(p) => fill(&mut *p, id),
                LeafPtr::T1(p) => fill(&mut *p, id),
                LeafPtr::T2(p) => fill(&mut *p, id),
                LeafPtr::T3(p) => fill(&mut *p, id),
                LeafPtr::T4(p) => fill(&mut *p, id),
                LeafPtr::T5(p) => fill(&mut *p, id),
                LeafPtr::T6(p) => fill(&mut *p, id),
                LeafPtr::M(p) => {
                    let (rows, columns) = (*p).size();
                    let mut k = 0;
                    for r in 0..rows {
                        for c in 0..columns {
                            (*p).set(r, c, expected_value(id, k));
                            k += 1;
                        }
                    }
                }
            }
        }
    }
    fn free(self) {
        unsafe {
            match self.ptr {
                LeafPtr::T0(p) => drop(Box::from_raw(p)),
                LeafPtr::T1(p) => drop(Box::from_raw(p)),
                LeafPtr::T2(p) => drop(Box::from_raw(p)),
                LeafPtr::T3(p) => drop(Box::from_raw(p)),
                LeafPtr::T4(p) => drop(Box::from_raw(p)),
                LeafPtr::T5(p) => drop(Box::from_raw(p)),
                LeafPtr::T6(p) => drop(Box::from_raw(p)),
                LeafPtr::M(p) => drop(Box::from_raw(p)),
            }
        }
    }
}

fn fill<const D: usize>(t: &mut Tensor<u64, D>, id: u64) {
    let mut k = 0;
    for x in t.iter_reference_mut() {
        *x = expected_value(id, k);
        k += 1;
    }
}

fn leaf_values(id: u64, n: usize) -> Vec<u64> {
    (0..n as u64).map(|k| expected_value(id, k)).collect()
}

thread_local! {
    /// what the leaves of the current case hold: 0 the cell ids `leaf * 10^6 + offset` (distinct
    /// everywhere), 1 zeros, 2 one value everywhere, 3 small values equal in neighbouring pairs
    /// (zeros among them).  With degenerate data a cell is recognised by the ADDRESS of the
    /// reference the library hands out (`locate`), not by the value behind it.
    static DATA_MODE: std::cell::Cell<u8> = const { std::cell::Cell::new(0) };
    /// first address, number of elements and id of every leaf of the case
    static LEAF_RANGES: std::cell::RefCell<Vec<(usize, usize, u64)>> = const { std::cell::RefCell::new(Vec::new()) };
}

fn data_mode() -> u8 {
    DATA_MODE.with(|c| c.get())
}

fn expected_value(id: u64, k: u64) -> u64 {
    match data_mode() {
        0 => id * LEAF_MUL + k,
        1 => 0,
        2 => 7,
        _ => (k / 2) % 3,
    }
}

/// a value no leaf holds: the reference handed out does not point at what the leaf holds there
const MISPLACED: u64 = 777_000_000_777;
/// (degenerate data only) the reference points outside every leaf of the case
const UNLOCATED: u64 = 776_000_000_776;

fn register_leaf(first: &u64, n: usize, id: u64) {
    LEAF_RANGES.with(|r| r.borrow_mut().push((first as *const u64 as usize, n, id)));
}

fn locate_address(r: &u64) -> Option<(u64, u64)> {
    let addr = r as *const u64 as usize;
    LEAF_RANGES.with(|ranges| {
        ranges.borrow().iter().find_map(|&(base, n, id)| {
            if addr >= base && addr < base + 8 * n && (addr - base) % 8 == 0 { Some((id, ((addr - base) / 8) as u64)) } else { None }
        })
    })
}

/// The cell (as its id `leaf * 10^6 + offset`) a reference handed out by the library points at:
/// by address when it lies inside a leaf of the case (the value there must be the leaf's own),
/// else (a copy of a leaf owned by a view) by the value.
fn locate(r: &u64) -> u64 {
    let v = *r;
    if v == SENTINEL {
        return v;
    }
    let addr = r as *const u64 as usize;
    let found = LEAF_RANGES.with(|ranges| {
        ranges.borrow().iter().find_map(|&(base, n, id)| {
            if addr >= base && addr < base + 8 * n && (addr - base) % 8 == 0 { Some((id, ((addr - base) / 8) as u64)) } else { None }
        })
    });
    match found {
        Some((id, k)) => if v == expected_value(id, k) { id * LEAF_MUL + k } else { MISPLACED },
        None => if data_mode() == 0 { v } else { UNLOCATED },
    }
}

/// a value obtained by value (no reference): with degenerate data the cell is the one the plain
/// checked getter designates, provided it holds that value
fn locate_value(val: u64, r: Option<&u64>) -> u64 {
    if data_mode() == 0 {
        return val;
    }
    match r {
        Some(r) if *r == val => locate(r),
        _ => MISPLACED,
    }
}

// ---------------------------------------------------------------------------------------------
// operations
// ---------------------------------------------------------------------------------------------

/// A mutation of an adaptor after its construction (replayed right after the constructor).
#[derive(Clone, Debug)]
enum Post {
    /// `TensorRename::set_names`
    SetNames(Vec<&'static str>),
    /// `std::mem::swap(adaptor.source_ref_mut(), &mut <the view below on the stack>)`
    Swap,
}

/// a matrix-side adaptor between `MatrixRefTensor` (or a `Matrix`) and `TensorRefMatrix`
#[derive(Clone, Copy, Debug)]
enum MOp {
    /// `MatrixRange::from(source, rows, columns)`: row start, row length, column start, column length
    Range(usize, usize, usize, usize),
    /// `MatrixReverse::from(source, Reverse { rows, columns })`
    Reverse(bool, bool),
}

/// `range:rs:rl:cs:cl;reverse:1:0;…`
fn parse_mops(s: &str) -> Option<Vec<MOp>> {
    if s.is_empty() {
        return Some(vec![]);
    }
    s.split(';')
        .map(|part| {
            let f: Vec<&str> = part.split(':').collect();
            match f.as_slice() {
                ["range", a, b, c, d] => Some(MOp::Range(a.parse().ok()?, b.parse().ok()?, c.parse().ok()?, d.parse().ok()?)),
                ["reverse", r, c] if (*r == "0" || *r == "1") && (*c == "0" || *c == "1") => Some(MOp::Reverse(*r == "1", *c == "1")),
                _ => None,
            }
        })
        .collect()
}

#[derive(Clone, Debug)]
enum Op {
    Leaf { id: u64, shape: Vec<(&'static str, usize)>, slot: Option<usize> },
    Matrix { id: u64, rows: usize, cols: usize, names: [&'static str; 2], slot: Option<usize> },
    MatrixOf { names: [&'static str; 2], ops: Vec<MOp> },
    Range { named: Vec<(&'static str, usize, usize)>, strict: bool, mask: bool },
    Index { provided: Vec<(&'static str, usize)> },
    Expand { extra: Vec<(usize, &'static str)> },
    Rename { names: Vec<&'static str>, posts: Vec<Post> },
    Reverse { names: Vec<&'static str>, posts: Vec<Post> },
    Access { names: Vec<&'static str> },
    Transpose { names: Vec<&'static str> },
    Stack { n: usize, along: (usize, &'static str) },
    Chain { n: usize, along: &'static str },
}

fn parse_triples(s: &str) -> Vec<(&'static str, usize, usize)> {
    split_comma(s)
        .iter()
        .map(|part| {
            let mut it = part.split(':');
            let n = intern(it.next().expect("name"));
            let a = it.next().expect("start").parse::<usize>().expect("usize");
            let b = it.next().expect("length").parse::<usize>().expect("usize");
            (n, a, b)
        })
        .collect()
}

fn parse_pos_names(s: &str) -> Vec<(usize, &'static str)> {
    split_comma(s)
        .iter()
        .map(|part| {
            let (p, n) = part.split_once(':').expect("pos:name");
            (p.parse::<usize>().expect("usize"), intern(n))
        })
        .collect()
}

fn parse_op(toks: &[&str]) -> Option<Op> {
    Some(match toks {
        ["leaf", id, shape, ..] => Op::Leaf { id: id.parse().ok()?, shape: parse_shape(shape), slot: None },
        ["matrix", id, rows, cols, names, ..] => {
            let n = parse_names(names);
            if n.len() != 2 {
                return None;
            }
            Op::Matrix { id: id.parse().ok()?, rows: rows.parse().ok()?, cols: cols.parse().ok()?, names: [n[0], n[1]], slot: None }
        }
        ["matrixof", names, rest @ ..] => {
            let n = parse_names(names);
            if n.len() != 2 {
                return None;
            }
            Op::MatrixOf { names: [n[0], n[1]], ops: parse_mops(opt_arg("ops", rest).unwrap_or(""))? }
        }
        ["range", spec, rest @ ..] => Op::Range { named: parse_triples(spec), strict: opt_arg("kind", rest) == Some("strict"), mask: false },
        ["mask", spec, rest @ ..] => Op::Range { named: parse_triples(spec), strict: opt_arg("kind", rest) == Some("strict"), mask: true },
        ["index", spec, ..] => Op::Index { provided: parse_shape(spec) },
        ["expand", spec, ..] => Op::Expand { extra: parse_pos_names(spec) },
        ["rename", names, ..] => Op::Rename { names: parse_names(names), posts: vec![] },
        ["reverse", names, ..] => Op::Reverse { names: parse_names(names), posts: vec![] },
        ["access", names, ..] => Op::Access { names: parse_names(names) },
        ["transpose", names, ..] => Op::Transpose { names: parse_names(names) },
        ["stack", n, along, ..] => {
            let a = parse_pos_names(along);
            if a.len() != 1 {
                return None;
            }
            Op::Stack { n: n.parse().ok()?, along: a[0] }
        }
        ["chain", n, along, ..] => Op::Chain { n: n.parse().ok()?, along: intern(along) },
        _ => return None,
    })
}

/// Boxes a freshly built adaptor.  With `+box` behind a second, *sized* box (`Box<S>` impl of
/// views/traits.rs, next to the `Box<dyn TensorMut>` one); with `+mutview` behind
/// `TensorView::<_, &mut S, D>::from(&mut TensorView)` (the `&mut S` forwarding impls).
fn wrap<V: TensorMut<u64, D> + 'static, const D: usize>(v: V, via: &str) -> Dyn<D> {
    if via.contains("+box") {
        let inner: Box<V> = Box::new(v);
        let outer: Box<Box<V>> = Box::new(inner);
        outer
    } else if via.contains("+mutview") {
        let view: &'static mut TensorView<u64, V, D> = leak(TensorView::from(v));
        let borrowed: TensorView<u64, &'static mut V, D> = <TensorView<u64, &'static mut V, D> as From<&'static mut TensorView<u64, V, D>>>::from(view);
        Box::new(borrowed.source())
    } else {
        Box::new(v)
    }
}

thread_local! {
    /// values leaked to obtain `&'static mut` receivers; dropped (latest first) when the case ends
    static LEAKS: std::cell::RefCell<Vec<Box<dyn FnOnce()>>> = const { std::cell::RefCell::new(Vec::new()) };
    /// 0: nothing, 1: look at `source_ref()` / `sources_ref()`, 2: take `source()` / `sources()`
    /// out and rebuild, of the next adaptor built
    static INSPECT: std::cell::Cell<u8> = const { std::cell::Cell::new(0) };
    static INSPECTED: std::cell::RefCell<Vec<String>> = const { std::cell::RefCell::new(Vec::new()) };
}

fn leak<X: 'static>(x: X) -> &'static mut X {
    let p: *mut X = Box::into_raw(Box::new(x));
    LEAKS.with(|l| l.borrow_mut().push(Box::new(move || unsafe { drop(Box::from_raw(p)) })));
    unsafe { &mut *p }
}

fn drop_leaks() {
    loop {
        let next = LEAKS.with(|l| l.borrow_mut().pop());
        match next {
            Some(f) => f(),
            None => break,
        }
    }
}

/// shape and the first 16 elements (row-major) of an inner view
fn describe<S: TensorRef<u64, D>, const D: usize>(v: &S, limit: usize) -> String {
    let shape = v.view_shape();
    let lens: Vec<usize> = shape.iter().map(|d| d.1).collect();
    let cells: Vec<String> = all_indexes(&lens)
        .into_iter()
        .take(limit)
        .map(|idx| {
            let idx: [usize; D] = crate::util::to_array(&idx);
            show_cell_opt(v.get_reference(idx).map(locate))
        })
        .collect();
    format!("shape={} cells={}", show_shape(&shape), cells.join(" "))
}

fn inspect<S: TensorRef<u64, D>, const D: usize>(v: &S) {
    let d = describe(v, 16);
    INSPECTED.with(|c| c.borrow_mut().push(d));
}

/// the accessors every single-source adaptor (except ranges / masks) offers
trait HasSource {
    type Src;
    fn src_ref(&self) -> &Self::Src;
    fn into_src(self) -> Self::Src;
}
impl<S: TensorRef<u64, D>, const D: usize, const I: usize> HasSource for TensorIndex<u64, S, D, I> {
    type Src = S;
    fn src_ref(&self) -> &S { self.source_ref() }
    fn into_src(self) -> S { self.source() }
}
impl<S: TensorRef<u64, D>, const D: usize, const I: usize> HasSource for TensorExpansion<u64, S, D, I> {
    type Src = S;
    fn src_ref(&self) -> &S { self.source_ref() }
    fn into_src(self) -> S { self.source() }
}
impl<S: TensorRef<u64, D>, const D: usize> HasSource for TensorRename<u64, S, D> {
    type Src = S;
    fn src_ref(&self) -> &S { self.source_ref() }
    fn into_src(self) -> S { self.source() }
}
impl<S: TensorRef<u64, D>, const D: usize> HasSource for TensorReverse<u64, S, D> {
    type Src = S;
    fn src_ref(&self) -> &S { self.source_ref() }
    fn into_src(self) -> S { self.source() }
}
impl<S: TensorRef<u64, D>, const D: usize> HasSource for TensorAccess<u64, S, D> {
    type Src = S;
    fn src_ref(&self) -> &S { self.source_ref() }
    fn into_src(self) -> S { self.source() }
}
impl<S: TensorRef<u64, D>, const D: usize> HasSource for TensorTranspose<u64, S, D> {
    type Src = S;
    fn src_ref(&self) -> &S { self.source_ref() }
    fn into_src(self) -> S { self.source() }
}

/// Runs the pending inspection (if any) on a freshly built adaptor and boxes it.
fn done<A, S, const DA: usize, const DS: usize>(a: A, rebuild: impl FnOnce(S) -> A, via: &str) -> Dyn<DA>
where
    A: HasSource<Src = S> + TensorMut<u64, DA> + 'static,
    S: TensorRef<u64, DS>,
{
    let a = match INSPECT.with(|c| c.get()) {
        1 => {
            inspect(a.src_ref());
            a
        }
        2 => {
            let s = a.into_src();
            inspect(&s);
            rebuild(s)
        }
        _ => a,
    };
    wrap(a, via)
}

/// the bare tensor leaf of dimensionality `D` in an arena slot
fn leaf_ptr<const D: usize>(arena: &[Leaf], slot: Option<usize>) -> Option<*mut Tensor<u64, D>> {
    let leaf = &arena[slot?];
    match (&leaf.ptr, D) {
        (LeafPtr::T0(p), 0) => Some(p.cast()),
        (LeafPtr::T1(p), 1) => Some(p.cast()),
        (LeafPtr::T2(p), 2) => Some(p.cast()),
        (LeafPtr::T3(p), 3) => Some(p.cast()),
        (LeafPtr::T4(p), 4) => Some(p.cast()),
        (LeafPtr::T5(p), 5) => Some(p.cast()),
        (LeafPtr::T6(p), 6) => Some(p.cast()),
        _ => None,
    }
}

/// Who the adaptor is asked from: the constructor itself, or one of the convenience methods of
/// `TensorView` (owned / `&mut` receiver) or of `Tensor` (owned / `&mut` receiver; only when the
/// top of the stack is a bare tensor leaf).
#[derive(Clone, Copy, PartialEq)]
enum Recv {
    Ctor,
    ViewOwned,
    ViewMut,
    TensorMutRef,
    TensorOwned,
}

fn receiver(via: &str) -> Recv {
    let form = via.split('+').next().unwrap_or("");
    match form {
        "tv_owned" => Recv::ViewOwned,
        "tv_mut" => Recv::ViewMut,
        "t_mut" => Recv::TensorMutRef,
        "t_owned" => Recv::TensorOwned,
        _ => Recv::Ctor,
    }
}

macro_rules! with_p {
    ($p:expr, $P:ident => $body:expr) => {
        match $p {
            0 => { const $P: usize = 0; $body }
            1 => { const $P: usize = 1; $body }
            2 => { const $P: usize = 2; $body }
            3 => { const $P: usize = 3; $body }
            4 => { const $P: usize = 4; $body }
            5 => { const $P: usize = 5; $body }
            6 => { const $P: usize = 6; $body }
            7 => { const $P: usize = 7; $body }
            _ => return Err(Rej::Skip),
        }
    };
}

fn range_op<const D: usize>(
    src: Dyn<D>,
    named: &[(&'static str, usize, usize)],
    strict: bool,
    mask: bool,
    leaf: Option<*mut Tensor<u64, D>>,
    via: &str,
) -> Result<Dyn<D>, Rej> {
    let form = via.split('+').next().unwrap_or("from");
    macro_rules! finish {
        ($e:expr) => {
            match $e {
                Ok(v) => Ok(wrap(v, via)),
                Err(_) => Err(Rej::Reject),
            }
        };
    }
    // the convenience methods of TensorView / Tensor (lenient, named)
    macro_rules! finish_view {
        ($e:expr) => {
            match $e {
                Ok(view) => Ok(wrap(view.source(), via)),
                Err(_) => Err(Rej::Reject),
            }
        };
    }
    let recv = receiver(via);
    if recv != Recv::Ctor && !strict {
        return with_p!(named.len(), P => {
            let r: [(&'static str, IndexRange); P] =
                std::array::from_fn(|i| (named[i].0, IndexRange::new(named[i].1, named[i].2)));
            match (recv, leaf) {
                (Recv::TensorMutRef, Some(p)) => {
                    drop(src);
                    let t: &'static mut Tensor<u64, D> = unsafe { &mut *p };
                    if mask { finish_view!(t.mask_mut(r)) } else { finish_view!(t.range_mut(r)) }
                }
                (Recv::TensorOwned, Some(p)) => {
                    drop(src);
                    let t: Tensor<u64, D> = unsafe { (*p).clone() };
                    if mask { finish_view!(t.mask_owned(r)) } else { finish_view!(t.range_owned(r)) }
                }
                (Recv::ViewMut, _) => {
                    let view: &'static mut TensorView<u64, Dyn<D>, D> = leak(TensorView::from(src));
                    if mask { finish_view!(view.mask_mut(r)) } else { finish_view!(view.range_mut(r)) }
                }
                _ => {
                    let view = TensorView::from(src);
                    if mask { finish_view!(view.mask_owned(r)) } else { finish_view!(view.range_owned(r)) }
                }
            }
        });
    }
    if form == "from_all" {
        // positional form: only when the names are unique and all present (else the named form)
        let shape = src.view_shape();
        let mut all: [Option<IndexRange>; D] = std::array::from_fn(|_| None);
        let mut ok = true;
        for (i, (n, a, b)) in named.iter().enumerate() {
            if named[..i].iter().any(|x| x.0 == *n) {
                ok = false;
            }
            match shape.iter().position(|d| d.0 == *n) {
                Some(d) => all[d] = Some(IndexRange::new(*a, *b)),
                None => ok = false,
            }
        }
        if ok {
            return match (mask, strict) {
                (false, false) => finish!(TensorRange::from_all(src, all)),
                (false, true) => finish!(TensorRange::from_all_strict(src, all)),
                (true, false) => finish!(TensorMask::from_all(src, all)),
                (true, true) => finish!(TensorMask::from_all_strict(src, all)),
            };
        }
    }
    with_p!(named.len(), P => {
        macro_rules! build {
            ($ranges:expr) => {
                match (mask, strict) {
                    (false, false) => finish!(TensorRange::from(src, $ranges)),
                    (false, true) => finish!(TensorRange::from_strict(src, $ranges)),
                    (true, false) => finish!(TensorMask::from(src, $ranges)),
                    (true, true) => finish!(TensorMask::from_strict(src, $ranges)),
                }
            };
        }
        let no_overflow = named.iter().all(|x| x.1.checked_add(x.2).is_some());
        match form {
            "tuple" => {
                let r: [(&'static str, (usize, usize)); P] = std::array::from_fn(|i| (named[i].0, (named[i].1, named[i].2)));
                build!(r)
            }
            "array" => {
                let r: [(&'static str, [usize; 2]); P] = std::array::from_fn(|i| (named[i].0, [named[i].1, named[i].2]));
                build!(r)
            }
            "stdrange" if no_overflow => {
                let r: [(&'static str, std::ops::Range<usize>); P] =
                    std::array::from_fn(|i| (named[i].0, named[i].1..(named[i].1 + named[i].2)));
                build!(r)
            }
            _ => {
                let r: [(&'static str, IndexRange); P] =
                    std::array::from_fn(|i| (named[i].0, IndexRange::new(named[i].1, named[i].2)));
                build!(r)
            }
        }
    })
}

fn index_op(src: DV, provided: &[(&'static str, usize)], arena: &[Leaf], prev_leaf: Option<usize>, via: &str) -> Result<DV, Rej> {
    let recv = receiver(via);
    macro_rules! go {
        ($D:literal, $I:literal, $R:ident, $s:expr) => {{
            let arr: [(&'static str, usize); $I] = std::array::from_fn(|k| provided[k]);
            let v = TensorIndex::<u64, _, $D, $I>::from($s, arr);
            Ok(DV::$R(done(v, |s| TensorIndex::<u64, _, $D, $I>::from(s, arr), via)))
        }};
    }
    // `select_owned` / `select_mut` of TensorView and of Tensor (one index at a time)
    macro_rules! go1 {
        ($D:literal, $R:ident, $s:expr) => {{
            let arr: [(&'static str, usize); 1] = [provided[0]];
            match (recv, leaf_ptr::<$D>(arena, prev_leaf)) {
                (Recv::TensorMutRef, Some(p)) => {
                    drop($s);
                    let t: &'static mut Tensor<u64, $D> = unsafe { &mut *p };
                    Ok(DV::$R(done(t.select_mut(arr).source(), |s| TensorIndex::<u64, _, $D, 1>::from(s, arr), via)))
                }
                (Recv::TensorOwned, Some(p)) => {
                    drop($s);
                    let t: Tensor<u64, $D> = unsafe { (*p).clone() };
                    Ok(DV::$R(done(t.select_owned(arr).source(), |s| TensorIndex::<u64, _, $D, 1>::from(s, arr), via)))
                }
                (Recv::ViewMut, _) => {
                    let view: &'static mut TensorView<u64, Dyn<$D>, $D> = leak(TensorView::from($s));
                    Ok(DV::$R(done(view.select_mut(arr).source(), |s| TensorIndex::<u64, _, $D, 1>::from(s, arr), via)))
                }
                (Recv::Ctor, _) => go!($D, 1, $R, $s),
                _ => Ok(DV::$R(done(TensorView::from($s).select_owned(arr).source(), |s| TensorIndex::<u64, _, $D, 1>::from(s, arr), via))),
            }
        }};
    }
    match (src, provided.len()) {
        (DV::D1(s), 1) => go1!(1, D0, s),
        (DV::D2(s), 1) => go1!(2, D1, s),
        (DV::D2(s), 2) => go!(2, 2, D0, s),
        (DV::D3(s), 1) => go1!(3, D2, s),
        (DV::D3(s), 2) => go!(3, 2, D1, s),
        (DV::D3(s), 3) => go!(3, 3, D0, s),
        (DV::D4(s), 1) => go1!(4, D3, s),
        (DV::D4(s), 2) => go!(4, 2, D2, s),
        (DV::D4(s), 3) => go!(4, 3, D1, s),
        (DV::D4(s), 4) => go!(4, 4, D0, s),
        (DV::D5(s), 1) => go1!(5, D4, s),
        (DV::D5(s), 2) => go!(5, 2, D3, s),
        (DV::D5(s), 3) => go!(5, 3, D2, s),
        (DV::D5(s), 4) => go!(5, 4, D1, s),
        (DV::D5(s), 5) => go!(5, 5, D0, s),
        (DV::D6(s), 1) => go1!(6, D5, s),
        (DV::D6(s), 2) => go!(6, 2, D4, s),
        (DV::D6(s), 3) => go!(6, 3, D3, s),
        (DV::D6(s), 4) => go!(6, 4, D2, s),
        (DV::D6(s), 5) => go!(6, 5, D1, s),
        (DV::D6(s), 6) => go!(6, 6, D0, s),
        _ => Err(Rej::Skip),
    }
}

fn expand_op(src: DV, extra: &[(usize, &'static str)], arena: &[Leaf], prev_leaf: Option<usize>, via: &str) -> Result<DV, Rej> {
    let recv = receiver(via);
    macro_rules! go {
        ($D:literal, $I:literal, $R:ident, $s:expr) => {{
            let arr: [(usize, &'static str); $I] = std::array::from_fn(|k| extra[k]);
            let v = TensorExpansion::<u64, _, $D, $I>::from($s, arr);
            Ok(DV::$R(done(v, |s| TensorExpansion::<u64, _, $D, $I>::from(s, arr), via)))
        }};
    }
    macro_rules! go1 {
        ($D:literal, $R:ident, $s:expr) => {{
            let arr: [(usize, &'static str); 1] = [extra[0]];
            match (recv, leaf_ptr::<$D>(arena, prev_leaf)) {
                (Recv::TensorMutRef, Some(p)) => {
                    drop($s);
                    let t: &'static mut Tensor<u64, $D> = unsafe { &mut *p };
                    Ok(DV::$R(done(t.expand_mut(arr).source(), |s| TensorExpansion::<u64, _, $D, 1>::from(s, arr), via)))
                }
                (Recv::TensorOwned, Some(p)) => {
                    drop($s);
                    let t: Tensor<u64, $D> = unsafe { (*p).clone() };
                    Ok(DV::$R(done(t.expand_owned(arr).source(), |s| TensorExpansion::<u64, _, $D, 1>::from(s, arr), via)))
                }
                (Recv::ViewMut, _) => {
                    let view: &'static mut TensorView<u64, Dyn<$D>, $D> = leak(TensorView::from($s));
                    Ok(DV::$R(done(view.expand_mut(arr).source(), |s| TensorExpansion::<u64, _, $D, 1>::from(s, arr), via)))
                }
                (Recv::Ctor, _) => go!($D, 1, $R, $s),
                _ => Ok(DV::$R(done(TensorView::from($s).expand_owned(arr).source(), |s| TensorExpansion::<u64, _, $D, 1>::from(s, arr), via))),
            }
        }};
    }
    match (src, extra.len()) {
        (DV::D0(s), 1) => go1!(0, D1, s),
        (DV::D0(s), 2) => go!(0, 2, D2, s),
        (DV::D0(s), 3) => go!(0, 3, D3, s),
        (DV::D0(s), 4) => go!(0, 4, D4, s),
        (DV::D0(s), 5) => go!(0, 5, D5, s),
        (DV::D0(s), 6) => go!(0, 6, D6, s),
        (DV::D1(s), 1) => go1!(1, D2, s),
        (DV::D1(s), 2) => go!(1, 2, D3, s),
        (DV::D1(s), 3) => go!(1, 3, D4, s),
        (DV::D1(s), 4) => go!(1, 4, D5, s),
        (DV::D1(s), 5) => go!(1, 5, D6, s),
        (DV::D2(s), 1) => go1!(2, D3, s),
        (DV::D2(s), 2) => go!(2, 2, D4, s),
        (DV::D2(s), 3) => go!(2, 3, D5, s),
        (DV::D2(s), 4) => go!(2, 4, D6, s),
        (DV::D3(s), 1) => go1!(3, D4, s),
        (DV::D3(s), 2) => go!(3, 2, D5, s),
        (DV::D3(s), 3) => go!(3, 3, D6, s),
        (DV::D4(s), 1) => go1!(4, D5, s),
        (DV::D4(s), 2) => go!(4, 2, D6, s),
        (DV::D5(s), 1) => go1!(5, D6, s),
        _ => Err(Rej::Skip),
    }
}

fn to_array<T, const N: usize>(v: Vec<T>) -> [T; N] {
    match v.try_into() {
        Ok(a) => a,
        Err(_) => panic!("arity"),
    }
}

fn same_d<const D: usize>(sources: Vec<DV>, pick: impl Fn(DV) -> Option<Dyn<D>>) -> Result<Vec<Dyn<D>>, Rej> {
    let mut out = vec![];
    for s in sources {
        match pick(s) {
            Some(x) => out.push(x),
            None => return Err(Rej::Skip),
        }
    }
    Ok(out)
}

/// `sources_ref()` / `sources()` of a stack or chain, for every arity: `$ctor` rebuilds the adaptor
/// from the sources taken out.
macro_rules! zip_inspect {
    (array $a:ident, $ctor:expr) => {
        match INSPECT.with(|c| c.get()) {
            1 => {
                for s in $a.sources_ref().iter() {
                    inspect(s);
                }
                $a
            }
            2 => {
                let sources = $a.sources();
                for s in sources.iter() {
                    inspect(s);
                }
                $ctor(sources)
            }
            _ => $a,
        }
    };
    (tuple $a:ident, $ctor:expr, $($i:tt),+) => {
        match INSPECT.with(|c| c.get()) {
            1 => {
                {
                    let sources = $a.sources_ref();
                    $( inspect(&sources.$i); )+
                }
                $a
            }
            2 => {
                let sources = $a.sources();
                $( inspect(&sources.$i); )+
                $ctor(sources)
            }
            _ => $a,
        }
    };
}

fn stack_op(sources: Vec<DV>, along: (usize, &'static str), via: &str) -> Result<DV, Rej> {
    let n = sources.len();
    let tuple = via.starts_with("tuple") && n >= 2;
    macro_rules! arm {
        ($D:literal, $In:ident, $Out:ident) => {{
            let v: Vec<Dyn<$D>> = same_d::<$D>(sources, |s| match s { DV::$In(x) => Some(x), _ => None })?;
            let out: Dyn<{ $D + 1 }> = if tuple {
                let mut it = v.into_iter();
                match n {
                    2 => {
                        let s = (it.next().unwrap(), it.next().unwrap());
                        let a = TensorStack::<u64, (_, _), $D>::from(s, along);
                        Box::new(zip_inspect!(tuple a, |s| TensorStack::<u64, (_, _), $D>::from(s, along), 0, 1))
                    }
                    3 => {
                        let s = (it.next().unwrap(), it.next().unwrap(), it.next().unwrap());
                        let a = TensorStack::<u64, (_, _, _), $D>::from(s, along);
                        Box::new(zip_inspect!(tuple a, |s| TensorStack::<u64, (_, _, _), $D>::from(s, along), 0, 1, 2))
                    }
                    4 => {
                        let s = (it.next().unwrap(), it.next().unwrap(), it.next().unwrap(), it.next().unwrap());
                        let a = TensorStack::<u64, (_, _, _, _), $D>::from(s, along);
                        Box::new(zip_inspect!(tuple a, |s| TensorStack::<u64, (_, _, _, _), $D>::from(s, along), 0, 1, 2, 3))
                    }
                    _ => return Err(Rej::Skip),
                }
            } else {
                match n {
                    1 => {
                        let a = TensorStack::<u64, [_; 1], $D>::from(to_array::<_, 1>(v), along);
                        Box::new(zip_inspect!(array a, |s| TensorStack::<u64, [_; 1], $D>::from(s, along)))
                    }
                    2 => {
                        let a = TensorStack::<u64, [_; 2], $D>::from(to_array::<_, 2>(v), along);
                        Box::new(zip_inspect!(array a, |s| TensorStack::<u64, [_; 2], $D>::from(s, along)))
                    }
                    3 => {
                        let a = TensorStack::<u64, [_; 3], $D>::from(to_array::<_, 3>(v), along);
                        Box::new(zip_inspect!(array a, |s| TensorStack::<u64, [_; 3], $D>::from(s, along)))
                    }
                    4 => {
                        let a = TensorStack::<u64, [_; 4], $D>::from(to_array::<_, 4>(v), along);
                        Box::new(zip_inspect!(array a, |s| TensorStack::<u64, [_; 4], $D>::from(s, along)))
                    }
                    _ => return Err(Rej::Skip),
                }
            };
            Ok(DV::$Out(wrap(out, via)))
        }};
    }
    match sources[0].d() {
        0 => arm!(0, D0, D1),
        1 => arm!(1, D1, D2),
        2 => arm!(2, D2, D3),
        3 => arm!(3, D3, D4),
        4 => arm!(4, D4, D5),
        5 => arm!(5, D5, D6),
        _ => Err(Rej::Skip),
    }
}

fn chain_n<const D: usize>(v: Vec<Dyn<D>>, along: &'static str, via: &str) -> Result<Dyn<D>, Rej> {
    let n = v.len();
    let tuple = via.starts_with("tuple") && n >= 2;
    let out: Dyn<D> = if tuple {
        let mut it = v.into_iter();
        match n {
            2 => {
                let s = (it.next().unwrap(), it.next().unwrap());
                let a = TensorChain::<u64, (_, _), D>::from(s, along);
                Box::new(zip_inspect!(tuple a, |s| TensorChain::<u64, (_, _), D>::from(s, along), 0, 1))
            }
            3 => {
                let s = (it.next().unwrap(), it.next().unwrap(), it.next().unwrap());
                let a = TensorChain::<u64, (_, _, _), D>::from(s, along);
                Box::new(zip_inspect!(tuple a, |s| TensorChain::<u64, (_, _, _), D>::from(s, along), 0, 1, 2))
            }
            4 => {
                let s = (it.next().unwrap(), it.next().unwrap(), it.next().unwrap(), it.next().unwrap());
                let a = TensorChain::<u64, (_, _, _, _), D>::from(s, along);
                Box::new(zip_inspect!(tuple a, |s| TensorChain::<u64, (_, _, _, _), D>::from(s, along), 0, 1, 2, 3))
            }
            _ => return Err(Rej::Skip),
        }
    } else {
        match n {
            1 => {
                let a = TensorChain::<u64, [_; 1], D>::from(to_array::<_, 1>(v), along);
                Box::new(zip_inspect!(array a, |s| TensorChain::<u64, [_; 1], D>::from(s, along)))
            }
            2 => {
                let a = TensorChain::<u64, [_; 2], D>::from(to_array::<_, 2>(v), along);
                Box::new(zip_inspect!(array a, |s| TensorChain::<u64, [_; 2], D>::from(s, along)))
            }
            3 => {
                let a = TensorChain::<u64, [_; 3], D>::from(to_array::<_, 3>(v), along);
                Box::new(zip_inspect!(array a, |s| TensorChain::<u64, [_; 3], D>::from(s, along)))
            }
            4 => {
                let a = TensorChain::<u64, [_; 4], D>::from(to_array::<_, 4>(v), along);
                Box::new(zip_inspect!(array a, |s| TensorChain::<u64, [_; 4], D>::from(s, along)))
            }
            _ => return Err(Rej::Skip),
        }
    };
    Ok(wrap(out, via))
}

fn chain_op(sources: Vec<DV>, along: &'static str, via: &str) -> Result<DV, Rej> {
    macro_rules! arm {
        ($D:literal, $In:ident) => {{
            let v: Vec<Dyn<$D>> = same_d::<$D>(sources, |s| match s { DV::$In(x) => Some(x), _ => None })?;
            chain_n::<$D>(v, along, via).map(DV::$In)
        }};
    }
    match sources[0].d() {
        0 => arm!(0, D0),
        1 => arm!(1, D1),
        2 => arm!(2, D2),
        3 => arm!(3, D3),
        4 => arm!(4, D4),
        5 => arm!(5, D5),
        6 => arm!(6, D6),
        _ => Err(Rej::Skip),
    }
}

/// a `Box<dyn TensorMut<u64, D>>` as an element of the stack
trait Slot: Sized {
    fn from_dv(dv: DV) -> Result<Self, DV>;
    fn into_dv(self) -> DV;
}
macro_rules! slot_impl {
    ($D:literal, $V:ident) => {
        impl Slot for Dyn<$D> {
            fn from_dv(dv: DV) -> Result<Self, DV> {
                match dv {
                    DV::$V(x) => Ok(x),
                    other => Err(other),
                }
            }
            fn into_dv(self) -> DV {
                DV::$V(self)
            }
        }
    };
}
slot_impl!(0, D0);
slot_impl!(1, D1);
slot_impl!(2, D2);
slot_impl!(3, D3);
slot_impl!(4, D4);
slot_impl!(5, D5);
slot_impl!(6, D6);

thread_local! {
    /// outcome of the last `set_names` executed, and the names of the last TensorRename built
    static LAST_SET_NAMES: std::cell::Cell<Option<Result<(), PanicKind>>> = const { std::cell::Cell::new(None) };
    static LAST_NAMES: std::cell::RefCell<String> = const { std::cell::RefCell::new(String::new()) };
}

/// swaps the source behind `source_ref_mut` with the view on top of the stack
fn swap_source<const D: usize>(source: &mut Dyn<D>, stack: &mut Vec<DV>) -> Result<(), Rej>
where
    Dyn<D>: Slot,
{
    let other = stack.pop().ok_or(Rej::Skip)?;
    match <Dyn<D> as Slot>::from_dv(other) {
        Ok(mut other) => {
            std::mem::swap(source, &mut other);
            stack.push(other.into_dv());
            Ok(())
        }
        Err(other) => {
            stack.push(other);
            Err(Rej::Skip)
        }
    }
}

fn names_op<const D: usize>(
    src: Dyn<D>,
    kind: &str,
    names: &[&'static str],
    posts: &[Post],
    stack: &mut Vec<DV>,
    leaf: Option<*mut Tensor<u64, D>>,
    via: &str,
) -> Result<Dyn<D>, Rej>
where
    Dyn<D>: Slot,
{
    let recv = receiver(via);
    if kind == "reverse" {
        // the convenience methods of TensorView / Tensor
        if posts.is_empty() && recv != Recv::Ctor {
            return Ok(match (recv, leaf) {
                (Recv::TensorMutRef, Some(p)) => {
                    drop(src);
                    let t: &'static mut Tensor<u64, D> = unsafe { &mut *p };
                    let a = t.reverse_mut(names).source();
                    done(a, |s| TensorReverse::from(s, names), via)
                }
                (Recv::TensorOwned, Some(p)) => {
                    drop(src);
                    let t: Tensor<u64, D> = unsafe { (*p).clone() };
                    let a = t.reverse_owned(names).source();
                    done(a, |s| TensorReverse::from(s, names), via)
                }
                (Recv::ViewMut, _) => {
                    let view: &'static mut TensorView<u64, Dyn<D>, D> = leak(TensorView::from(src));
                    let a = view.reverse_mut(names).source();
                    done(a, |s| TensorReverse::from(s, names), via)
                }
                _ => {
                    let a = TensorView::from(src).reverse_owned(names).source();
                    done(a, |s| TensorReverse::from(s, names), via)
                }
            });
        }
        let mut v = TensorReverse::from(src, names);
        for post in posts {
            match post {
                Post::Swap => swap_source(v.source_ref_mut(), stack)?,
                Post::SetNames(_) => return Err(Rej::Skip),
            }
        }
        if !posts.is_empty() {
            // the flags cannot be rebuilt from names once the source was swapped: only look
            if INSPECT.with(|c| c.get()) != 0 {
                inspect(v.source_ref());
            }
            return Ok(wrap(v, via));
        }
        return Ok(done(v, |s| TensorReverse::from(s, names), via));
    }
    if names.len() != D {
        return Err(Rej::Skip);
    }
    let arr: [&'static str; D] = names_array(names);
    let fallible = via.starts_with("try_from");
    Ok(match kind {
        "rename" => {
            let mut v = TensorRename::from(src, arr);
            for post in posts {
                match post {
                    Post::Swap => swap_source(v.source_ref_mut(), stack)?,
                    Post::SetNames(n) => {
                        if n.len() != D {
                            return Err(Rej::Skip);
                        }
                        let new_names: [&'static str; D] = names_array(n);
                        // a refused call must leave the very same adaptor usable and unchanged
                        let r = catch(|| v.set_names(new_names));
                        LAST_SET_NAMES.with(|c| c.set(Some(r)));
                    }
                }
            }
            LAST_NAMES.with(|c| *c.borrow_mut() = show_names(v.get_names()));
            let current: [&'static str; D] = *v.get_names();
            done(v, |s| TensorRename::from(s, current), via)
        }
        "access" => {
            // `index_by_owned` / `index_by_mut` (and `index_owned` / `index_mut` when the order
            // asked for is the view's own) of TensorView and Tensor
            let own = {
                let shape = src.view_shape();
                (0..D).all(|i| shape[i].0 == arr[i])
            };
            match (recv, leaf) {
                (Recv::TensorOwned, Some(p)) => {
                    drop(src);
                    let t: Tensor<u64, D> = unsafe { (*p).clone() };
                    let a = if own { t.index_owned() } else { t.index_by_owned(arr) };
                    done(a, |s| TensorAccess::from(s, arr), via)
                }
                (Recv::TensorMutRef, Some(p)) => {
                    drop(src);
                    let t: &'static mut Tensor<u64, D> = unsafe { &mut *p };
                    let a = if own { t.index_mut() } else { t.index_by_mut(arr) };
                    done(a, |s| TensorAccess::from(s, arr), via)
                }
                (Recv::ViewMut, _) => {
                    let view: &'static mut TensorView<u64, Dyn<D>, D> = leak(TensorView::from(src));
                    let a = if own { view.index_mut() } else { view.index_by_mut(arr) };
                    done(a, |s| TensorAccess::from(s, arr), via)
                }
                (Recv::ViewOwned, _) | (Recv::TensorOwned, None) | (Recv::TensorMutRef, None) => {
                    let view = TensorView::from(src);
                    let a = if own { view.index_owned() } else { view.index_by_owned(arr) };
                    done(a, |s| TensorAccess::from(s, arr), via)
                }
                (Recv::Ctor, _) => {
                    if fallible {
                        match TensorAccess::try_from(src, arr) {
                            Ok(v) => done(v, |s| TensorAccess::from(s, arr), via),
                            Err(_) => return Err(Rej::Reject),
                        }
                    } else {
                        done(TensorAccess::from(src, arr), |s| TensorAccess::from(s, arr), via)
                    }
                }
            }
        }
        "transpose" => {
            if fallible {
                match TensorTranspose::try_from(src, arr) {
                    Ok(v) => done(v, |s| TensorTranspose::from(s, arr), via),
                    Err(_) => return Err(Rej::Reject),
                }
            } else {
                done(TensorTranspose::from(src, arr), |s| TensorTranspose::from(s, arr), via)
            }
        }
        _ => unreachable!(),
    })
}

/// Applies `op` to the stack.  On `Err` the stack may have lost the consumed sources (the caller
/// rebuilds it from the recipe).
fn apply_op(stack: &mut Vec<DV>, op: &mut Op, arena: &mut Vec<Leaf>, prev_leaf: Option<usize>, via: &str) -> Result<(), Rej> {
    match op {
        Op::Leaf { id, shape, slot } => {
            let d = shape.len();
            if d > 6 {
                return Err(Rej::Skip);
            }
            macro_rules! mk {
                ($D:literal, $V:ident, $P:ident) => {{
                    let s = match *slot {
                        Some(s) => s,
                        None => {
                            let sh: [(&'static str, usize); $D] = shape_array(shape);
                            let n: usize = shape.iter().map(|x| x.1).product();
                            let t = Box::new(Tensor::from(sh, leaf_values(*id, n)));
                            register_leaf(t.get_reference([0; $D]).expect("first element"), n, *id);
                            arena.push(Leaf { id: *id, ptr: LeafPtr::$P(Box::into_raw(t)) });
                            *slot = Some(arena.len() - 1);
                            arena.len() - 1
                        }
                    };
                    let r: &'static mut Tensor<u64, $D> = match arena[s].ptr {
                        LeafPtr::$P(p) => unsafe { &mut *p },
                        _ => unreachable!(),
                    };
                    if via.starts_with("t_view_owned") {
                        // `Tensor::view_owned` of a copy of the leaf
                        let copy: Tensor<u64, $D> = (*r).clone();
                        stack.push(DV::$V(wrap(copy.view_owned().source(), via)));
                    } else {
                        stack.push(DV::$V(wrap(r, via)));
                    }
                }};
            }
            match d {
                0 => mk!(0, D0, T0),
                1 => mk!(1, D1, T1),
                2 => mk!(2, D2, T2),
                3 => mk!(3, D3, T3),
                4 => mk!(4, D4, T4),
                5 => mk!(5, D5, T5),
                _ => mk!(6, D6, T6),
            }
            Ok(())
        }
        Op::Matrix { id, rows, cols, names, slot } => {
            let s = match *slot {
                Some(s) => s,
                None => {
                    let m = Box::new(Matrix::from_flat_row_major((*rows, *cols), leaf_values(*id, *rows * *cols)));
                    register_leaf(m.get_reference(0, 0), *rows * *cols, *id);
                    arena.push(Leaf { id: *id, ptr: LeafPtr::M(Box::into_raw(m)) });
                    *slot = Some(arena.len() - 1);
                    arena.len() - 1
                }
            };
            let r: &'static mut Matrix<u64> = match arena[s].ptr {
                LeafPtr::M(p) => unsafe { &mut *p },
                _ => unreachable!(),
            };
            let v: Dyn<2> = if *names == ["row", "column"] && !via.starts_with("with_names") {
                match TensorRefMatrix::from(r) {
                    Ok(v) => Box::new(v),
                    Err(_) => return Err(Rej::Reject),
                }
            } else {
                match TensorRefMatrix::with_names(r, *names) {
                    Ok(v) => Box::new(v),
                    Err(_) => return Err(Rej::Reject),
                }
            };
            stack.push(DV::D2(wrap(v, via)));
            Ok(())
        }
        Op::MatrixOf { names, ops } => {
            let top = stack.pop().ok_or(Rej::Skip)?;
            let src = match top {
                DV::D2(src) => src,
                other => {
                    stack.push(other);
                    return Err(Rej::Skip);
                }
            };
            // the tensor view as a matrix (row or column major, or neither), possibly behind
            // matrix wrappers that pass the layout on, as a tensor again
            // `+direct` (the top is a bare matrix leaf): the adaptors sit on the `Matrix` itself
            let direct: Option<&'static mut Matrix<u64>> = match (via.contains("+direct"), prev_leaf.map(|s| &arena[s].ptr)) {
                (true, Some(LeafPtr::M(p))) => Some(unsafe { &mut **p }),
                _ => None,
            };
            fn finish<M: MatrixMut<u64> + easy_ml::matrices::views::NoInteriorMutability + 'static>(
                m: M,
                names: [&'static str; 2],
                via: &str,
            ) -> Result<Dyn<2>, Rej> {
                if names == ["row", "column"] && via.starts_with("from") {
                    match TensorRefMatrix::from(m) {
                        Ok(v) => Ok(Box::new(v)),
                        Err(_) => Err(Rej::Reject),
                    }
                } else {
                    match TensorRefMatrix::with_names(m, names) {
                        Ok(v) => Ok(Box::new(v)),
                        Err(_) => Err(Rej::Reject),
                    }
                }
            }
            type DM = Box<dyn MatrixMut<u64>>;
            fn adapt(mut m: DM, ops: &[MOp]) -> DM {
                for op in ops {
                    m = match *op {
                        MOp::Range(rs, rl, cs, cl) => Box::new(MatrixRange::from(m, IndexRange::new(rs, rl), IndexRange::new(cs, cl))),
                        MOp::Reverse(rows, columns) => Box::new(MatrixReverse::from(m, MReverse { rows, columns })),
                    };
                }
                m
            }
            if let Some(m) = direct {
                drop(src);
                let v = finish(adapt(Box::new(m), ops), *names, via)?;
                stack.push(DV::D2(wrap(v, via)));
                return Ok(());
            }
            let matrix = MatrixRefTensor::from(src);
            let v: Dyn<2> = if !ops.is_empty() || via.contains("+dyn") {
                finish(adapt(Box::new(matrix), ops), *names, via)?
            } else if via.contains("+mbox") {
                finish(Box::new(matrix), *names, via)?
            } else if via.contains("+mrange") {
                let (rows, columns) = (matrix.view_rows(), matrix.view_columns());
                finish(MatrixRange::from(matrix, 0..rows, 0..columns), *names, via)?
            } else {
                finish(matrix, *names, via)?
            };
            stack.push(DV::D2(wrap(v, via)));
            Ok(())
        }
        Op::Range { named, strict, mask } => {
            let top = stack.pop().ok_or(Rej::Skip)?;
            let v = dv_same!(top, s => range_op(s, named, *strict, *mask, leaf_ptr(arena, prev_leaf), via))?;
            stack.push(v);
            Ok(())
        }
        Op::Index { provided } => {
            let top = stack.pop().ok_or(Rej::Skip)?;
            if provided.is_empty() || provided.len() > top.d() {
                stack.push(top);
                return Err(Rej::Skip);
            }
            let v = index_op(top, provided, arena, prev_leaf, via)?;
            stack.push(v);
            Ok(())
        }
        Op::Expand { extra } => {
            let top = stack.pop().ok_or(Rej::Skip)?;
            if extra.is_empty() || top.d() + extra.len() > 6 {
                stack.push(top);
                return Err(Rej::Skip);
            }
            let v = expand_op(top, extra, arena, prev_leaf, via)?;
            stack.push(v);
            Ok(())
        }
        Op::Rename { .. } | Op::Reverse { .. } | Op::Access { .. } | Op::Transpose { .. } => {
            let no_posts: Vec<Post> = vec![];
            let (kind, names, posts) = match op {
                Op::Rename { names, posts } => ("rename", names, &*posts),
                Op::Reverse { names, posts } => ("reverse", names, &*posts),
                Op::Access { names } => ("access", names, &no_posts),
                Op::Transpose { names } => ("transpose", names, &no_posts),
                _ => unreachable!(),
            };
            let top = stack.pop().ok_or(Rej::Skip)?;
            if kind != "reverse" && names.len() != top.d() {
                stack.push(top);
                return Err(Rej::Skip);
            }
            let v = dv_same!(top, s => names_op(s, kind, names, posts, stack, leaf_ptr(arena, prev_leaf), via))?;
            stack.push(v);
            Ok(())
        }
        Op::Stack { n, along } => {
            let n = *n;
            if n == 0 || n > 4 || n > stack.len() {
                return Err(Rej::Skip);
            }
            let d = stack[stack.len() - n].d();
            if stack[stack.len() - n..].iter().any(|s| s.d() != d) || d + 1 > 6 {
                return Err(Rej::Skip);
            }
            let sources: Vec<DV> = stack.drain(stack.len() - n..).collect();
            let v = stack_op(sources, *along, via)?;
            stack.push(v);
            Ok(())
        }
        Op::Chain { n, along } => {
            let n = *n;
            if n == 0 || n > 4 || n > stack.len() {
                return Err(Rej::Skip);
            }
            let d = stack[stack.len() - n].d();
            if stack[stack.len() - n..].iter().any(|s| s.d() != d) {
                return Err(Rej::Skip);
            }
            let sources: Vec<DV> = stack.drain(stack.len() - n..).collect();
            let v = chain_op(sources, along, via)?;
            stack.push(v);
            Ok(())
        }
    }
}

// ---------------------------------------------------------------------------------------------
// questions
// ---------------------------------------------------------------------------------------------

fn show_cell(v: u64) -> String {
    format!("{}:{}", v / LEAF_MUL, v % LEAF_MUL)
}

fn show_cell_opt(o: Option<u64>) -> String {
    match o {
        Some(v) => format!("some({})", show_cell(v)),
        None => "none".into(),
    }
}

fn none_or(k: PanicKind) -> String {
    if k == PanicKind::Explicit { "none".into() } else { panic_str(k) }
}

fn get<const D: usize>(v: &mut Dyn<D>, idx: &[usize], via: &str) -> String {
    if idx.len() != D {
        return "skip".into();
    }
    let idx: [usize; D] = crate::util::to_array(idx);
    if via.starts_with("unchecked") {
        // the unchecked getters are only defined for valid indexes: never call them with an index
        // the checked getter rejects (a case being shrunk may ask for one)
        match catch(|| v.get_reference(idx).is_some()) {
            Ok(true) => {}
            Ok(false) => return "none".into(),
            Err(k) => return panic_str(k),
        }
    }
    let r: Result<Option<u64>, PanicKind> = match via {
        "mut" => catch(|| v.get_reference_mut(idx).map(|r| locate(r))),
        "unchecked" => catch(|| Some(locate(unsafe { v.get_reference_unchecked(idx) }))),
        "unchecked_mut" => catch(|| Some(locate(unsafe { v.get_reference_unchecked_mut(idx) }))),
        "access" => catch(|| TensorAccess::from_source_order(&*v).try_get_reference(idx).map(locate)),
        "access_mut" => catch(|| TensorAccess::from_source_order(&mut *v).try_get_reference_mut(idx).map(|r| locate(r))),
        "view_get_ref" => {
            return match catch(|| locate(TensorView::from(&*v).index().get_ref(idx))) {
                Ok(x) => show_cell_opt(Some(x)),
                Err(k) => none_or(k),
            }
        }
        "view_get" => {
            return match catch(|| {
                let val = TensorView::from(&*v).index().get(idx);
                locate_value(val, v.get_reference(idx))
            }) {
                Ok(x) => show_cell_opt(Some(x)),
                Err(k) => none_or(k),
            }
        }
        "boxed_ref" => catch(|| {
            // a shared borrow of the boxed view, boxed again as a sized `S`
            let b: Box<&Dyn<D>> = Box::new(&*v);
            b.get_reference(idx).map(locate)
        }),
        _ => catch(|| v.get_reference(idx).map(locate)),
    };
    match r {
        Ok(o) => show_cell_opt(o),
        Err(k) => panic_str(k),
    }
}

/// The write itself: returns the value found behind the mutable reference before the sentinel
/// was stored (it identifies the cell), or `None`.
fn set_write<const D: usize>(v: &mut Dyn<D>, idx: &[usize], via: &str) -> Result<Option<u64>, PanicKind> {
    let idx: [usize; D] = crate::util::to_array(idx);
    if via == "unchecked_mut" {
        match catch(|| v.get_reference(idx).is_some()) {
            Ok(true) => {}
            Ok(false) => return Ok(None),
            Err(k) => return Err(k),
        }
    }
    match via {
        "unchecked_mut" => catch(|| {
            let r = unsafe { v.get_reference_unchecked_mut(idx) };
            let old = locate(r);
            *r = SENTINEL;
            Some(old)
        }),
        "access_mut" => catch(|| {
            TensorAccess::from_source_order(&mut *v).try_get_reference_mut(idx).map(|r| {
                let old = locate(r);
                *r = SENTINEL;
                old
            })
        }),
        "view_get_ref_mut" => match catch(|| {
            let mut view = TensorView::from(&mut *v);
            let mut access = view.index_mut();
            let r = access.get_ref_mut(idx);
            let old = locate(r);
            *r = SENTINEL;
            Some(old)
        }) {
            Err(PanicKind::Explicit) => Ok(None),
            other => other,
        },
        _ => catch(|| {
            v.get_reference_mut(idx).map(|r| {
                let old = locate(r);
                *r = SENTINEL;
                old
            })
        }),
    }
}

/// every element in row-major order, read off the `Display` of a TensorView over the view
fn display<const D: usize>(v: &Dyn<D>, via: &str) -> String {
    let shape = v.view_shape();
    let n: usize = shape.iter().map(|d| d.1).product();
    if n > 64 {
        return "skip".into();
    }
    match catch(|| {
        if via == "access" {
            // `Display for TensorAccess` prints the same table followed by a line about the layout
            let text = format!("{}", TensorAccess::from_source_order(v));
            text.lines().filter(|l| !l.starts_with("Data Layout")).collect::<Vec<_>>().join("\n")
        } else {
            format!("{}", TensorView::from(v))
        }
    }) {
        Ok(text) => {
            // the numbers printed are the values the plain getter reads, in row-major order; the
            // cells are where those references point
            let printed = values_of_display(&text, D);
            let lens: Vec<usize> = shape.iter().map(|d| d.1).collect();
            let refs: Vec<Option<&u64>> = all_indexes(&lens).into_iter().map(|i| v.get_reference(crate::util::to_array(&i))).collect();
            let read: Vec<u64> = refs.iter().map(|r| r.map_or(MISPLACED, |x| *x)).collect();
            if printed != read {
                return format!("shape={} display-values-differ printed={:?} read={:?}", show_shape(&shape), printed, read);
            }
            let cells: Vec<String> = refs.iter().map(|r| show_cell_opt(r.map(locate))).collect();
            format!("shape={} cells={}", show_shape(&shape), cells.join(" "))
        }
        Err(k) => panic_str(k),
    }
}

/// A closure handed to `TensorView::map / map_mut / map_with_index / map_mut_with_index` (or the
/// body of a loop over `iter`) that returns its argument for `k` calls and panics on the next:
/// the cells it was shown, in order.  The view and its leaves survive unchanged.
fn first_cells<const D: usize>(v: &mut Dyn<D>, k: usize, via: &str, write: bool) -> String {
    use std::cell::RefCell;
    let shape = v.view_shape();
    let lens: Vec<usize> = shape.iter().map(|d| d.1).collect();
    let n: usize = lens.iter().product();
    if n > 4096 {
        return "skip".into();
    }
    let seen: RefCell<Vec<(Option<[usize; D]>, u64)>> = RefCell::new(vec![]);
    let tick = |i: Option<[usize; D]>, x: u64| -> u64 {
        if seen.borrow().len() == k {
            panic!("the mapping function gives up at call {}", k);
        }
        seen.borrow_mut().push((i, x));
        // (the mutating forms store what the closure returns: the sentinel marks the cells the
        // library wrote before the closure gave up)
        if write { SENTINEL } else { x }
    };
    let r = catch(|| match via {
        "map" => drop(TensorView::from(&*v).map(|x| tick(None, x))),
        "map_with_index" => drop(TensorView::from(&*v).map_with_index(|i, x| tick(Some(i), x))),
        "map_mut_with_index" => TensorView::from(&mut *v).map_mut_with_index(|i, x| tick(Some(i), x)),
        "iter" => {
            for x in TensorView::from(&*v).iter() {
                tick(None, x);
            }
        }
        "iter_reference_mut" => {
            for x in TensorView::from(&mut *v).iter_reference_mut() {
                let y = tick(None, *x);
                *x = y;
            }
        }
        _ => TensorView::from(&mut *v).map_mut(|x| tick(None, x)),
    });
    match r {
        Ok(()) | Err(PanicKind::Explicit) => {}
        Err(kind) => return panic_str(kind),
    }
    let seen = seen.into_inner();
    if seen.len() != k.min(n) || (r.is_ok() != (k >= n)) {
        return format!("calls={} panicked={}", seen.len(), r.is_err());
    }
    let order = all_indexes(&lens);
    let cells: Vec<String> = seen
        .iter()
        .enumerate()
        .map(|(pos, (i, x))| {
            let idx: [usize; D] = match i {
                Some(i) => *i,
                None => crate::util::to_array(&order[pos]),
            };
            match v.get_reference(idx) {
                Some(r) if !write && *r == *x => show_cell_opt(Some(locate(r))),
                Some(r) if write && *r == SENTINEL => match locate_address(r) {
                    Some((id, k)) if expected_value(id, k) == *x => show_cell_opt(Some(id * LEAF_MUL + k)),
                    _ => show_cell_opt(Some(MISPLACED)),
                },
                _ => show_cell_opt(Some(MISPLACED)),
            }
        })
        .collect();
    format!("cells={}", cells.join(" "))
}

/// Whole-view consumers without a closure that could give up (every flavour of iterator of
/// `TensorView` and `TensorAccess`, `first`, `elementwise*` with a plain tensor on either side,
/// `==` in every direction, the results of `map` / `map_with_index`): what they see / produce, in
/// their own order, against the logical content (the plain getter at the row-major indexes).
/// The answer lists the first `k` cells.
fn whole_cells<const D: usize>(v: &mut Dyn<D>, k: usize, via: &str) -> String {
    use std::cell::RefCell;
    let shape = v.view_shape();
    let lens: Vec<usize> = shape.iter().map(|d| d.1).collect();
    let n: usize = lens.iter().product();
    if n > 4096 {
        return "skip".into();
    }
    let order = all_indexes(&lens);
    // (index given by the consumer, value, cell located from a reference)
    type Seen<const D: usize> = Vec<(Option<[usize; D]>, u64, Option<u64>)>;
    let r: Result<Result<Seen<D>, String>, PanicKind> = catch(|| {
        let mut seen: Seen<D> = vec![];
        // a plain tensor of the same shape holding the row-major positions
        let positions = || Tensor::from(shape, (0..n as u64).collect::<Vec<u64>>());
        let content = |v: &Dyn<D>| -> Vec<u64> { order.iter().map(|i| v.get_reference(crate::util::to_array(i)).map_or(MISPLACED, |x| *x)).collect() };
        match via {
            "iter_reference" => {
                for x in TensorView::from(&*v).iter_reference() {
                    seen.push((None, *x, Some(locate(x))));
                }
            }
            "iter_with_index" => {
                for (i, x) in TensorView::from(&*v).iter().with_index() {
                    seen.push((Some(i), x, None));
                }
            }
            "iter_reference_with_index" => {
                for (i, x) in TensorView::from(&*v).iter_reference().with_index() {
                    seen.push((Some(i), *x, Some(locate(x))));
                }
            }
            "iter_reference_mut_with_index" => {
                for (i, x) in TensorView::from(&mut *v).iter_reference_mut().with_index() {
                    seen.push((Some(i), *x, Some(locate(x))));
                }
            }
            "access_iter" => {
                for x in TensorAccess::from_source_order(&*v).iter() {
                    seen.push((None, x, None));
                }
            }
            "access_iter_reference" => {
                for (i, x) in TensorAccess::from_source_order(&*v).iter_reference().with_index() {
                    seen.push((Some(i), *x, Some(locate(x))));
                }
            }
            "access_iter_reference_mut" => {
                for x in TensorAccess::from_source_order(&mut *v).iter_reference_mut() {
                    seen.push((None, *x, Some(locate(x))));
                }
            }
            "first_value" => {
                seen.push((None, TensorView::from(&*v).first(), None));
            }
            "map_result" | "map_with_index_result" => {
                let t = if via == "map_result" { TensorView::from(&*v).map(|x| x) } else { TensorView::from(&*v).map_with_index(|_, x| x) };
                if t.shape() != shape {
                    return Err("result-shape-differs".to_string());
                }
                for x in t.iter() {
                    seen.push((None, x, None));
                }
            }
            "elementwise_left" | "elementwise_right" | "elementwise_reference_left" | "elementwise_reference_right" | "elementwise_with_index_left" | "elementwise_reference_with_index_right" => {
                let plain = positions();
                let calls: RefCell<Seen<D>> = RefCell::new(vec![]);
                // the plain side must arrive in step: position p at call p
                let note = |i: Option<[usize; D]>, x: u64, p: u64, cell: Option<u64>| -> u64 {
                    let at = calls.borrow().len() as u64;
                    calls.borrow_mut().push((i, if p == at { x } else { MISPLACED }, cell));
                    x
                };
                let view = TensorView::from(&*v);
                let t = match via {
                    "elementwise_left" => view.elementwise(&plain, |x, p| note(None, x, p, None)),
                    "elementwise_right" => plain.elementwise(&view, |p, x| note(None, x, p, None)),
                    "elementwise_reference_left" => view.elementwise_reference(&plain, |x, p| note(None, *x, *p, Some(locate(x)))),
                    "elementwise_reference_right" => plain.elementwise_reference(&view, |p, x| note(None, *x, *p, Some(locate(x)))),
                    "elementwise_with_index_left" => view.elementwise_with_index(&plain, |i, x, p| note(Some(i), x, p, None)),
                    _ => plain.elementwise_reference_with_index(&view, |i, p, x| note(Some(i), *x, *p, Some(locate(x)))),
                };
                // the result holds what the closure returned, in the same order
                let calls = calls.into_inner();
                let result: Vec<u64> = t.iter().collect();
                if t.shape() != shape || result.len() != calls.len() || result.iter().zip(calls.iter()).any(|(r, c)| *r != c.1 && c.1 != MISPLACED) {
                    return Err("result-differs".to_string());
                }
                seen = calls;
            }
            "eq_left" | "eq_right" | "eq_view" => {
                let data = content(&*v);
                let same = Tensor::from(shape, data.clone());
                let holds = |t: &Tensor<u64, D>| -> bool {
                    match via {
                        "eq_left" => TensorView::from(&*v) == *t,
                        "eq_right" => *t == TensorView::from(&*v),
                        _ => TensorView::from(&*v) == TensorView::from(t),
                    }
                };
                if !holds(&same) {
                    return Err("eq-refuses-equal-content".to_string());
                }
                let step = (n / 24).max(1);
                for p in (0..n).step_by(step).chain(std::iter::once(n - 1)) {
                    let mut other = data.clone();
                    other[p] = other[p].wrapping_add(1);
                    if holds(&Tensor::from(shape, other)) {
                        return Err(format!("eq-misses-difference-at-{}", p));
                    }
                }
                if D >= 1 {
                    let mut renamed = shape;
                    renamed[D - 1].0 = intern("not-a-name-of-the-view");
                    if holds(&Tensor::from(renamed, data.clone())) {
                        return Err("eq-ignores-names".to_string());
                    }
                }
                seen = data.iter().map(|x| (None, *x, None)).collect();
            }
            _ => return Err("bad-op".to_string()),
        }
        Ok(seen)
    });
    let seen = match r {
        Ok(Ok(seen)) => seen,
        Ok(Err(msg)) => return msg,
        Err(kind) => return panic_str(kind),
    };
    let expected = if via == "first_value" { 1.min(n) } else { n };
    if seen.len() != expected {
        return format!("elements={}", seen.len());
    }
    let cells: Vec<String> = seen
        .iter()
        .enumerate()
        .take(k)
        .map(|(pos, (i, x, cell))| {
            let idx: [usize; D] = match i {
                Some(i) => *i,
                None => crate::util::to_array(&order[pos]),
            };
            match v.get_reference(idx) {
                Some(r) if *r == *x && cell.map_or(true, |c| c == locate(r)) => show_cell_opt(Some(locate(r))),
                _ => show_cell_opt(Some(MISPLACED)),
            }
        })
        .collect();
    format!("cells={}", cells.join(" "))
}

const WHOLE_VIAS: [&str; 19] = [
    "iter_reference", "iter_with_index", "iter_reference_with_index", "iter_reference_mut_with_index", "access_iter",
    "access_iter_reference", "access_iter_reference_mut", "first_value", "map_result", "map_with_index_result",
    "elementwise_left", "elementwise_right", "elementwise_reference_left", "elementwise_reference_right",
    "elementwise_with_index_left", "elementwise_reference_with_index_right", "eq_left", "eq_right", "eq_view",
];

/// `TensorView::reorder` / `transpose` (copies into a new tensor) against the adaptor they
/// materialise (`TensorAccess` / `TensorTranspose` over the view)
fn copy_op<const D: usize>(v: &Dyn<D>, kind: &str, names: &[&'static str], via: &str) -> String {
    if names.len() != D {
        return "skip".into();
    }
    let n: usize = v.view_shape().iter().map(|d| d.1).product();
    if n > 4096 {
        return "skip".into();
    }
    let arr: [&'static str; D] = names_array(names);
    let r = catch(|| {
        let view = TensorView::from(v);
        let copy: Tensor<u64, D> = match (kind, via) {
            // the same copy by way of the maps of `TensorAccess`
            ("reorder", "access_map") => TensorAccess::from(v, arr).map(|x| x),
            ("reorder", "access_map_with_index") => TensorAccess::from(v, arr).map_with_index(|_, x| x),
            ("reorder", "index_by_map") => view.index_by(arr).map(|x| x),
            ("reorder", _) => view.reorder(arr),
            _ => view.transpose(arr),
        };
        let describe_against = |adaptor: &dyn TensorRef<u64, D>| -> String {
            let shape = adaptor.view_shape();
            if copy.shape() != shape {
                return format!("shape-differs copy={} adaptor={}", show_shape(&copy.shape()), show_shape(&shape));
            }
            let lens: Vec<usize> = shape.iter().map(|d| d.1).collect();
            let cells: Vec<String> = all_indexes(&lens)
                .into_iter()
                .map(|i| {
                    let idx: [usize; D] = crate::util::to_array(&i);
                    match (adaptor.get_reference(idx), copy.get_reference(idx)) {
                        (Some(r), Some(c)) if *r == *c => show_cell_opt(Some(locate(r))),
                        _ => show_cell_opt(Some(MISPLACED)),
                    }
                })
                .collect();
            format!("ok shape={} cells={}", show_shape(&shape), cells.join(" "))
        };
        if kind == "reorder" {
            describe_against(&TensorAccess::from(v, arr))
        } else {
            describe_against(&TensorTranspose::from(v, arr))
        }
    });
    match r {
        Ok(s) => s,
        Err(PanicKind::Explicit) => "reject".into(),
        Err(k) => panic_str(k),
    }
}

fn values_of_display(text: &str, d: usize) -> Vec<u64> {
    let body: String = text.lines().skip(if d == 0 { 1 } else { 2 }).collect::<Vec<_>>().join(" ");
    body.split(|c: char| !c.is_ascii_digit()).filter(|t| !t.is_empty()).map(|t| t.parse::<u64>().unwrap()).collect()
}

/// the numbers a `Display` of a tensor prints, after its header lines
fn cells_of_display(text: &str, d: usize) -> String {
    let body: String = text.lines().skip(if d == 0 { 1 } else { 2 }).collect::<Vec<_>>().join(" ");
    body.split(|c: char| !c.is_ascii_digit())
        .filter(|t| !t.is_empty())
        .map(|t| format!("some({})", show_cell(t.parse::<u64>().unwrap())))
        .collect::<Vec<_>>()
        .join(" ")
}

/// `TensorView::length_of` / `last_index_of` (and `Tensor::length_of` / `last_index_of` when the
/// view is a bare tensor leaf)
fn length_of<const D: usize>(v: &Dyn<D>, name: &'static str, leaf: Option<*mut Tensor<u64, D>>) -> String {
    let show = |o: Option<usize>| match o {
        Some(n) => n.to_string(),
        None => "none".to_string(),
    };
    let view = TensorView::from(v);
    let (length, last) = (view.length_of(name), view.last_index_of(name));
    if let Some(p) = leaf {
        // the leaf is only borrowed (mutably) by the view: read its shape through the view's data
        let t: &Tensor<u64, D> = unsafe { &*p };
        if t.length_of(name) != length || t.last_index_of(name) != last {
            return "tensor-and-view-disagree".into();
        }
    }
    format!("length={} last={}", show(length), show(last))
}

fn show_layout<const D: usize>(l: &DataLayout<D>) -> String {
    match l {
        DataLayout::Linear(order) => format!("linear={}", show_names(order)),
        DataLayout::NonLinear => "nonlinear".into(),
        DataLayout::Other => "other".into(),
    }
}

fn all_indexes(lens: &[usize]) -> Vec<Vec<usize>> {
    let mut out: Vec<Vec<usize>> = vec![vec![]];
    for &l in lens {
        let mut next = vec![];
        for p in &out {
            for c in 0..l {
                let mut q = p.clone();
                q.push(c);
                next.push(q);
            }
        }
        out = next;
    }
    out
}

fn memorder<const D: usize>(v: &Dyn<D>) -> String {
    let r = catch(|| {
        let layout = v.data_layout();
        match TensorAccess::from_memory_order(v) {
            None => "none".to_string(),
            Some(access) => {
                let order = match &layout {
                    DataLayout::Linear(o) => show_names(o),
                    _ => "?".into(),
                };
                let lens: Vec<usize> = access.shape().iter().map(|d| d.1).collect();
                let mut cells: Vec<u64> = vec![];
                let mut values: Vec<u64> = vec![];
                for idx in all_indexes(&lens) {
                    let idx: [usize; D] = crate::util::to_array(&idx);
                    match access.try_get_reference(idx) {
                        Some(x) => {
                            cells.push(locate(x));
                            values.push(*x);
                        }
                        None => return "walk-failed".to_string(),
                    }
                }
                // the library's own iteration order over the access must be the same walk
                let iterated: Vec<u64> = access.iter().collect();
                if iterated != values {
                    return "walk-differs-from-iter".to_string();
                }
                let first = cells[0];
                if cells.iter().enumerate().all(|(k, c)| *c == first + k as u64) {
                    format!("linear={} cells={}+{}", order, show_cell(first), cells.len())
                } else {
                    format!("linear={} cells={}", order, cells.iter().map(|c| show_cell(*c)).collect::<Vec<_>>().join(" "))
                }
            }
        }
    });
    match r {
        Ok(s) => s,
        Err(k) => panic_str(k),
    }
}

// ---------------------------------------------------------------------------------------------
// the runner
// ---------------------------------------------------------------------------------------------

pub struct Runner {
    arena: Vec<Leaf>,
    recipe: Vec<(Op, String)>,
    stack: Option<Vec<DV>>,
    /// scripted answers of a statically typed case (until the case deviates from the script)
    script: Option<(Vec<(String, String)>, usize, Vec<String>)>,
}

fn strip_via(line: &str) -> String {
    line.split(' ').filter(|t| !t.starts_with("via=")).collect::<Vec<_>>().join(" ")
}

impl Runner {
    pub fn new() -> Runner {
        Runner { arena: vec![], recipe: vec![], stack: Some(vec![]), script: None }
    }

    /// the arena slot of the leaf the last accepted operation pushed (the top is then a bare leaf)
    fn prev_leaf_of(recipe: &[(Op, String)]) -> Option<usize> {
        match recipe.last() {
            Some((Op::Leaf { slot, .. }, _)) => *slot,
            // (a matrix leaf: no `Tensor` methods apply, `leaf_ptr` finds nothing; `matrixof` can
            // put its adaptors on the `Matrix` itself)
            Some((Op::Matrix { slot, .. }, _)) => *slot,
            _ => None,
        }
    }

    /// does some view of the case own a copy of a leaf (so that writes do not reach the arena)?
    fn has_owned_copies(&self) -> bool {
        self.recipe.iter().any(|(_, via)| via.starts_with("t_owned") || via.starts_with("t_view_owned"))
    }

    fn reset(&mut self) {
        self.stack = None;
        drop_leaks();
        self.recipe.clear();
        for l in self.arena.drain(..) {
            l.free();
        }
        LEAF_RANGES.with(|r| r.borrow_mut().clear());
        DATA_MODE.with(|c| c.set(0));
        self.stack = Some(vec![]);
        self.script = None;
    }

    fn rebuild(&mut self) {
        self.stack = None; // drop every borrow of the leaves first
        drop_leaks();
        let mut stack = vec![];
        let mut recipe = std::mem::take(&mut self.recipe);
        for i in 0..recipe.len() {
            let prev = Runner::prev_leaf_of(&recipe[..i]);
            let (op, via) = &mut recipe[i];
            let r = catch(|| apply_op(&mut stack, op, &mut self.arena, prev, via));
            if !matches!(r, Ok(Ok(()))) {
                panic!("recipe replay failed: {:?}", op);
            }
        }
        self.recipe = recipe;
        self.stack = Some(stack);
    }

    fn stack_mut(&mut self) -> &mut Vec<DV> {
        if self.stack.is_none() {
            self.rebuild();
        }
        self.stack.as_mut().unwrap()
    }

    fn construct(&mut self, mut op: Op, via: &str) -> String {
        let mut stack = std::mem::take(self.stack_mut());
        let prev = Runner::prev_leaf_of(&self.recipe);
        let r = catch(|| apply_op(&mut stack, &mut op, &mut self.arena, prev, via));
        match r {
            Ok(Ok(())) => {
                let ans = format!("ok shape={}", show_shape(&stack.last().unwrap().shape()));
                self.recipe.push((op, via.to_string()));
                self.stack = Some(stack);
                ans
            }
            Ok(Err(rej)) => {
                drop(stack);
                self.stack = None;
                rej_str(&rej)
            }
            Err(kind) => {
                drop(stack);
                self.stack = None;
                if kind == PanicKind::Explicit { "reject".into() } else { panic_str(kind) }
            }
        }
    }

    /// A mutation of the adaptor on top of the stack (it must be the TensorRename / TensorReverse
    /// the last accepted constructor built): the adaptor is built again, concretely typed, from
    /// the recipe, all its earlier mutations are repeated and the new one is executed on it.
    fn mutate(&mut self, post: Post) -> String {
        let d = match self.stack_mut().last() {
            Some(top) => top.d(),
            None => return "skip".into(),
        };
        let second_d = {
            let st = self.stack_mut();
            if st.len() >= 2 { Some(st[st.len() - 2].d()) } else { None }
        };
        let applicable = match (self.recipe.last(), &post) {
            (Some((Op::Rename { .. }, _)), Post::SetNames(n)) => n.len() == d,
            (Some((Op::Rename { .. }, _)), Post::Swap) | (Some((Op::Reverse { .. }, _)), Post::Swap) => second_d == Some(d),
            _ => false,
        };
        if !applicable {
            return "skip".into();
        }
        let (old_op, via) = self.recipe.pop().unwrap();
        let mut op = old_op.clone();
        match &mut op {
            Op::Rename { posts, .. } | Op::Reverse { posts, .. } => posts.push(post.clone()),
            _ => unreachable!(),
        }
        self.rebuild();
        let mut stack = std::mem::take(self.stack_mut());
        LAST_SET_NAMES.with(|c| c.set(None));
        let prev = Runner::prev_leaf_of(&self.recipe);
        let r = catch(|| apply_op(&mut stack, &mut op, &mut self.arena, prev, &via));
        match r {
            Ok(Ok(())) => {
                let shape = show_shape(&stack.last().unwrap().shape());
                self.recipe.push((op, via));
                self.stack = Some(stack);
                match post {
                    Post::Swap => format!("ok shape={}", shape),
                    Post::SetNames(_) => match LAST_SET_NAMES.with(|c| c.get()) {
                        Some(Ok(())) => format!("ok shape={}", shape),
                        Some(Err(PanicKind::Explicit)) => "reject".into(),
                        Some(Err(k)) => panic_str(k),
                        None => "set-names-not-executed".into(),
                    },
                }
            }
            other => {
                drop(stack);
                self.recipe.push((old_op, via));
                self.stack = None;
                match other {
                    Ok(Err(rej)) => rej_str(&rej),
                    Err(k) => panic_str(k),
                    _ => unreachable!(),
                }
            }
        }
    }

    /// `source_ref()` / `sources_ref()` (mode 1) or `source()` / `sources()` followed by building
    /// the adaptor again (mode 2) of the adaptor the last accepted constructor built.
    fn sources(&mut self, mode: u8) -> String {
        let has_accessor = matches!(
            self.recipe.last(),
            Some((Op::Index { .. }, _)) | Some((Op::Expand { .. }, _)) | Some((Op::Rename { .. }, _))
                | Some((Op::Reverse { .. }, _)) | Some((Op::Access { .. }, _)) | Some((Op::Transpose { .. }, _))
                | Some((Op::Stack { .. }, _)) | Some((Op::Chain { .. }, _))
        );
        if !has_accessor {
            return "skip".into();
        }
        let (mut op, via) = self.recipe.pop().unwrap();
        self.rebuild();
        let mut stack = std::mem::take(self.stack_mut());
        let prev = Runner::prev_leaf_of(&self.recipe);
        INSPECTED.with(|c| c.borrow_mut().clear());
        INSPECT.with(|c| c.set(mode));
        let r = catch(|| apply_op(&mut stack, &mut op, &mut self.arena, prev, &via));
        INSPECT.with(|c| c.set(0));
        let seen: Vec<String> = INSPECTED.with(|c| c.borrow().clone());
        self.recipe.push((op, via));
        match r {
            Ok(Ok(())) => {
                self.stack = Some(stack);
                if seen.is_empty() { "skip".into() } else { seen.join(" | ") }
            }
            Ok(Err(rej)) => {
                drop(stack);
                self.stack = None;
                rej_str(&rej)
            }
            Err(k) => {
                drop(stack);
                self.stack = None;
                panic_str(k)
            }
        }
    }

    fn get_names(&mut self) -> String {
        match self.recipe.last() {
            Some((Op::Rename { .. }, _)) => {
                // (re)build so that the names recorded are those of the adaptor now on top
                self.rebuild();
                format!("names={}", LAST_NAMES.with(|c| c.borrow().clone()))
            }
            _ => {
                if self.stack_mut().is_empty() { "skip".into() } else { "skip".into() }
            }
        }
    }

    fn set(&mut self, idx: &[usize], via: &str) -> String {
        {
            let stack = self.stack_mut();
            match stack.last() {
                None => return "skip".into(),
                Some(top) => {
                    if top.d() != idx.len() {
                        return "skip".into();
                    }
                }
            }
        }
        let written = {
            let stack = self.stack_mut();
            let top = stack.last_mut().unwrap();
            dv_each!(top, v => set_write(v, idx, via))
        };
        // a second look through the view: the addressed index now reads the sentinel
        let reread = {
            let stack = self.stack_mut();
            let top = stack.last_mut().unwrap();
            match written {
                Ok(Some(_)) => dv_each!(top, v => get(v, idx, "ref")),
                _ => String::new(),
            }
        };
        // drop the views, scan the leaves, restore
        let owned_copies = self.has_owned_copies();
        self.stack = None;
        let mut changed: Vec<(u64, usize, u64)> = vec![];
        for leaf in &self.arena {
            let data = leaf.scan();
            for (k, x) in data.iter().enumerate() {
                if *x != expected_value(leaf.id, k as u64) {
                    changed.push((leaf.id, k, *x));
                }
            }
            leaf.restore();
        }
        match written {
            Err(k) => panic_str(k),
            Ok(None) => {
                if changed.is_empty() { "none".into() } else { "changed-without-reference".into() }
            }
            Ok(Some(old)) => {
                let expected = format!("some({})", show_cell(SENTINEL));
                if owned_copies && changed.is_empty() && reread == expected {
                    // the write went to a copy of a leaf owned by the view (dropped with it): the
                    // value found behind the reference identifies the cell
                    return format!("changed={}", show_cell(old));
                }
                if changed.len() == 1
                    && changed[0].2 == SENTINEL
                    && changed[0].0 * LEAF_MUL + changed[0].1 as u64 == old
                    && reread == expected
                {
                    format!("changed={}:{}", changed[0].0, changed[0].1)
                } else {
                    format!(
                        "changed-unexpected={} old={} reread={}",
                        changed.iter().map(|c| format!("{}:{}", c.0, c.1)).collect::<Vec<_>>().join(" "),
                        show_cell(old),
                        reread
                    )
                }
            }
        }
    }

    /// `first k`: with the mutating forms the closure returns the sentinel, and afterwards the
    /// leaves must show it at exactly the cells the closure was shown before it gave up
    fn first(&mut self, k: usize, via: &str) -> String {
        if WHOLE_VIAS.contains(&via) {
            return match self.stack_mut().last_mut() {
                Some(top) => dv_each!(top, v => whole_cells(v, k, via)),
                None => "skip".into(),
            };
        }
        let write = matches!(via, "" | "map_mut" | "map_mut_with_index" | "iter_reference_mut") && !self.has_owned_copies();
        let ans = match self.stack_mut().last_mut() {
            Some(top) => dv_each!(top, v => first_cells(v, k, via, write)),
            None => return "skip".into(),
        };
        if !write {
            return ans;
        }
        self.stack = None;
        let mut written: std::collections::BTreeSet<String> = Default::default();
        for leaf in &self.arena {
            for (pos, x) in leaf.scan().iter().enumerate() {
                if *x != expected_value(leaf.id, pos as u64) {
                    written.insert(format!("some({}:{}){}", leaf.id, pos, if *x == SENTINEL { "" } else { "?" }));
                }
            }
            leaf.restore();
        }
        match ans.strip_prefix("cells=") {
            Some(cells) => {
                let shown: std::collections::BTreeSet<String> = cells.split(' ').filter(|c| !c.is_empty()).map(|c| c.to_string()).collect();
                if shown == written {
                    ans
                } else {
                    format!("{} written={}", ans, written.into_iter().collect::<Vec<_>>().join(" "))
                }
            }
            None => ans,
        }
    }

    fn dynamic_step(&mut self, toks: &[&str]) -> String {
        let via = opt_arg("via", toks).unwrap_or("");
        match toks {
            ["@", rest @ ..] => {
                self.reset();
                let mode = match opt_arg("data", rest) {
                    Some("zeros") => 1,
                    Some("equal") => 2,
                    Some("pairs") => 3,
                    _ => 0,
                };
                DATA_MODE.with(|c| c.set(mode));
                "ok".into()
            }
            ["shape", ..] => match self.stack_mut().last() {
                Some(top) => format!("shape={}", show_shape(&top.shape())),
                None => "skip".into(),
            },
            ["get", idx_s, ..] => {
                let idx = parse_usizes(idx_s);
                match self.stack_mut().last_mut() {
                    Some(top) => dv_each!(top, v => get(v, &idx, via)),
                    None => "skip".into(),
                }
            }
            ["set", idx_s, ..] => {
                let idx = parse_usizes(idx_s);
                self.set(&idx, via)
            }
            ["tmap", ..] => match self.stack_mut().last() {
                // TensorMap is private to the library: exposing f(source[idx]) it is the identity
                // on cells, which is what the dynamic engine can show of it
                Some(top) => format!("ok shape={}", show_shape(&top.shape())),
                None => "skip".into(),
            },
            ["display", ..] => match self.stack_mut().last() {
                Some(top) => dv_each!(top, v => display(v, via)),
                None => "skip".into(),
            },
            ["first", k, ..] => {
                let k: usize = match k.parse() {
                    Ok(k) => k,
                    Err(_) => return "bad-op".into(),
                };
                self.first(k, via)
            }
            [op @ ("copy_reorder" | "copy_transpose"), names, ..] => {
                let kind = &op[5..];
                let names = parse_names(names);
                match self.stack_mut().last() {
                    Some(top) => dv_each!(top, v => copy_op(v, kind, &names, via)),
                    None => "skip".into(),
                }
            }
            ["api_surface", ..] => api_surface_answer(),
            ["sources", ..] => self.sources(if via.starts_with("owned") { 2 } else { 1 }),
            ["length_of", name, ..] => {
                let name = intern(name);
                let prev = Runner::prev_leaf_of(&self.recipe);
                let _ = self.stack_mut();
                let arena = &self.arena;
                match self.stack.as_ref().unwrap().last() {
                    Some(top) => dv_each!(top, v => length_of(v, name, leaf_ptr(arena, prev))),
                    None => "skip".into(),
                }
            }
            ["set_names", names, ..] => self.mutate(Post::SetNames(parse_names(names))),
            ["swap_source", ..] => self.mutate(Post::Swap),
            ["get_names", ..] => self.get_names(),
            ["layout", ..] => match self.stack_mut().last() {
                Some(top) => match catch(|| dv_each!(top, v => show_layout(&v.data_layout()))) {
                    Ok(s) => s,
                    Err(k) => panic_str(k),
                },
                None => "skip".into(),
            },
            ["memorder", ..] => match self.stack_mut().last() {
                Some(top) => dv_each!(top, v => memorder(v)),
                None => "skip".into(),
            },
            _ => match parse_op(toks) {
                Some(op) => self.construct(op, via),
                None => "bad-op".into(),
            },
        }
    }

    pub fn step(&mut self, toks: &[&str]) -> String {
        let line = toks.join(" ");
        // (asked by the generator of a child process: see `child_answers`)
        if let ["static_ops", key] = toks {
            return static_case(key).into_iter().map(|x| x.0).collect::<Vec<_>>().join("\t");
        }
        if let ["api_stats"] = toks {
            return api_stats_line();
        }
        if let ["@", "static", key, ..] = toks {
            self.reset();
            let script = static_case(key);
            self.script = Some((script, 0, vec![line]));
            return "ok".into();
        }
        if toks.first() == Some(&"@") {
            return self.dynamic_step(toks);
        }
        if let Some((script, pos, seen)) = self.script.as_mut() {
            if *pos < script.len() && strip_via(&script[*pos].0) == strip_via(&line) {
                let ans = script[*pos].1.clone();
                *pos += 1;
                seen.push(line);
                return ans;
            }
            // the case deviates from the catalogue entry (it is being shrunk): replay what was
            // received so far through the dynamic engine and continue there
            let seen = std::mem::take(seen);
            self.script = None;
            self.reset();
            for l in seen.iter().skip(1) {
                let t: Vec<&str> = l.split_whitespace().collect();
                self.dynamic_step(&t);
            }
        }
        self.dynamic_step(toks)
    }
}

// ---------------------------------------------------------------------------------------------
// statically typed compositions
// ---------------------------------------------------------------------------------------------

struct Script(Vec<(String, String)>);

impl Script {
    fn rec(&mut self, op: String, ans: String) {
        self.0.push((op, ans));
    }
    fn leaf<const D: usize>(&mut self, id: u64, shape: [(&'static str, usize); D]) -> Tensor<u64, D> {
        let n: usize = shape.iter().map(|d| d.1).product();
        let t = Tensor::from(shape, leaf_values(id, n));
        self.rec(format!("leaf {} {} via=static", id, show_shape(&shape)), format!("ok shape={}", show_shape(&shape)));
        t
    }
    fn built<S: TensorRef<u64, D>, const D: usize>(&mut self, op: &str, v: &S) {
        self.rec(format!("{} via=static", op), format!("ok shape={}", show_shape(&v.view_shape())));
    }
    /// shape, layout and reads over every coordinate in `0..=len` plus `usize::MAX`
    fn probe<S: TensorRef<u64, D>, const D: usize>(&mut self, v: &S) {
        let shape = v.view_shape();
        self.rec("shape via=static".into(), format!("shape={}", show_shape(&shape)));
        self.rec("layout via=static".into(), show_layout(&v.data_layout()));
        let lens: Vec<usize> = shape.iter().map(|d| d.1).collect();
        let mut tuples: Vec<Vec<usize>> = vec![vec![]];
        for &l in &lens {
            let mut next = vec![];
            for p in &tuples {
                let mut choices: Vec<usize> = (0..=l).collect();
                choices.push(usize::MAX);
                for c in choices {
                    let mut q = p.clone();
                    q.push(c);
                    next.push(q);
                }
            }
            tuples = next;
        }
        for t in tuples {
            let idx: [usize; D] = crate::util::to_array(&t);
            let inside = t.iter().zip(lens.iter()).all(|(i, l)| i < l);
            let ans = match catch(|| v.get_reference(idx).copied()) {
                Ok(o) => show_cell_opt(o),
                Err(k) => panic_str(k),
            };
            self.rec(format!("get {} via=static", show_usizes(&t)), ans);
            if inside {
                let ans = match catch(|| unsafe { *v.get_reference_unchecked(idx) }) {
                    Ok(x) => show_cell_opt(Some(x)),
                    Err(k) => panic_str(k),
                };
                self.rec(format!("get {} via=unchecked_static", show_usizes(&t)), ans);
            }
        }
    }
    /// `TensorAccess::from_memory_order` walked in its own order
    fn memorder<S: TensorRef<u64, D>, const D: usize>(&mut self, v: &S) {
        let ans = match catch(|| {
            let layout = v.data_layout();
            match TensorAccess::from_memory_order(v) {
                None => "none".to_string(),
                Some(access) => {
                    let order = match &layout {
                        DataLayout::Linear(o) => show_names(o),
                        _ => "?".into(),
                    };
                    let cells: Vec<u64> = access.iter().collect();
                    let first = cells[0];
                    if cells.iter().enumerate().all(|(k, c)| *c == first + k as u64) {
                        format!("linear={} cells={}+{}", order, show_cell(first), cells.len())
                    } else {
                        format!("linear={} cells={}", order, cells.iter().map(|c| show_cell(*c)).collect::<Vec<_>>().join(" "))
                    }
                }
            }
        }) {
            Ok(a) => a,
            Err(k) => panic_str(k),
        };
        self.rec("memorder via=static".into(), ans);
    }
    /// writes through every in-range coordinate (and a few out of range): the value found behind
    /// the reference identifies the cell, the re-read must show the sentinel, every other
    /// coordinate of the view must be unchanged
    fn probe_mut<S: TensorMut<u64, D>, const D: usize>(&mut self, v: &mut S) {
        let shape = v.view_shape();
        let lens: Vec<usize> = shape.iter().map(|d| d.1).collect();
        let inside = all_indexes(&lens);
        let mut targets = inside.clone();
        for d in 0..D {
            let mut t: Vec<usize> = vec![0; D];
            t[d] = lens[d];
            targets.push(t.clone());
            t[d] = usize::MAX;
            targets.push(t);
        }
        for t in targets {
            let idx: [usize; D] = crate::util::to_array(&t);
            let before: Vec<Option<u64>> = inside.iter().map(|i| v.get_reference(crate::util::to_array(i)).copied()).collect();
            let r = catch(|| {
                v.get_reference_mut(idx).map(|r| {
                    let old = *r;
                    *r = SENTINEL;
                    old
                })
            });
            let ans = match r {
                Err(k) => panic_str(k),
                Ok(None) => "none".to_string(),
                Ok(Some(old)) => {
                    let after: Vec<Option<u64>> = inside.iter().map(|i| v.get_reference(crate::util::to_array(i)).copied()).collect();
                    let diff: Vec<usize> = (0..inside.len()).filter(|&k| before[k] != after[k]).collect();
                    let ok = diff.len() == 1 && inside[diff[0]] == t && after[diff[0]] == Some(SENTINEL) && before[diff[0]] == Some(old);
                    // restore
                    if let Some(r) = v.get_reference_mut(idx) {
                        *r = old;
                    }
                    if ok { format!("changed={}", show_cell(old)) } else { format!("changed-unexpected old={}", show_cell(old)) }
                }
            };
            self.rec(format!("set {} via=static", show_usizes(&t)), ans);
        }
    }
}

const STATIC_KEYS: [&str; 28] = [
    "stack_tuple2_refs", "stack_tuple3_mixed", "stack_tuple4_owned", "stack_array_boxed_ref",
    "chain_tuple2_mut", "chain_tuple3_refs", "chain_tuple4_owned", "chain_array3_refs",
    "matrix_backed", "tensor_methods", "matrix_of_tensor_view", "rename_setters",
    "reverse_swap_source", "record_display_map", "boxed_dyn_ref", "shared_receivers",
    "matrix_stacks_typed", "same_source_twice", "adversarial_names_shared",
    "api_access", "api_transpose", "api_view_shared", "api_view_mut", "api_adaptors", "api_zip", "api_iterators",
    "api_wrappers", "api_interop",
];

include!("c02_api.rs");

fn static_case(key: &str) -> Vec<(String, String)> {
    let mut s = Script(vec![]);
    match key {
        "stack_tuple2_refs" => {
            let t1 = s.leaf(1, [("a", 2), ("b", 3)]);
            let t2 = s.leaf(2, [("a", 2), ("b", 3)]);
            let v = TensorStack::<u64, (_, _), 2>::from((&t1, &t2), (1, "s"));
            s.built("stack 2 1:s", &v);
            s.probe(&v);
            let r = TensorReverse::from(&v, &["s", "b"]);
            s.built("reverse s,b", &r);
            s.probe(&r);
        }
        "stack_tuple3_mixed" => {
            let t1 = s.leaf(1, [("x", 2)]);
            let mut t2 = s.leaf(2, [("x", 2)]);
            let t3 = s.leaf(3, [("x", 2)]);
            let mut v = TensorStack::<u64, (_, _, _), 1>::from((t1, &mut t2, Box::new(t3)), (0, "s"));
            s.built("stack 3 0:s", &v);
            s.probe(&v);
            s.probe_mut(&mut v);
        }
        "stack_tuple4_owned" => {
            let t1 = s.leaf(1, []);
            let t2 = s.leaf(2, []);
            let t3 = s.leaf(3, []);
            let t4 = s.leaf(4, []);
            let mut v = TensorStack::<u64, (_, _, _, _), 0>::from((t1, t2, t3, t4), (0, "s"));
            s.built("stack 4 0:s", &v);
            s.probe(&v);
            s.probe_mut(&mut v);
        }
        "stack_array_boxed_ref" => {
            let t1 = s.leaf(1, [("a", 2), ("b", 2)]);
            let t2 = s.leaf(2, [("a", 2), ("b", 2)]);
            let t3 = s.leaf(3, [("a", 2), ("b", 2)]);
            let sources: [Box<dyn TensorRef<u64, 2>>; 3] = [Box::new(t1), Box::new(t2), Box::new(t3)];
            let v = TensorStack::<u64, [_; 3], 2>::from(sources, (2, "s"));
            s.built("stack 3 2:s", &v);
            s.probe(&v);
            let i = TensorIndex::<u64, _, 3, 1>::from(&v, [("s", 2)]);
            s.built("index s:2", &i);
            s.probe(&i);
        }
        "chain_tuple2_mut" => {
            let mut t1 = s.leaf(1, [("a", 2), ("b", 3)]);
            let mut t2 = s.leaf(2, [("a", 2), ("b", 1)]);
            let mut v = TensorChain::<u64, (_, _), 2>::from((&mut t1, &mut t2), "b");
            s.built("chain 2 b", &v);
            s.probe(&v);
            s.probe_mut(&mut v);
        }
        "chain_tuple3_refs" => {
            let t1 = s.leaf(1, [("a", 1), ("b", 2)]);
            let t2 = s.leaf(2, [("a", 3), ("b", 2)]);
            let t3 = s.leaf(3, [("a", 2), ("b", 2)]);
            let v = TensorChain::<u64, (_, _, _), 2>::from((&t1, &t2, &t3), "a");
            s.built("chain 3 a", &v);
            s.probe(&v);
            let m = TensorMask::from(&v, [("a", IndexRange::new(1, 3))]).unwrap();
            s.built("mask a:1:3", &m);
            s.probe(&m);
        }
        "chain_tuple4_owned" => {
            let t1 = s.leaf(1, [("a", 1)]);
            let t2 = s.leaf(2, [("a", 2)]);
            let t3 = s.leaf(3, [("a", 1)]);
            let t4 = s.leaf(4, [("a", 3)]);
            let mut v = TensorChain::<u64, (_, _, _, _), 1>::from((t1, t2, t3, t4), "a");
            s.built("chain 4 a", &v);
            s.probe(&v);
            s.probe_mut(&mut v);
        }
        "chain_array3_refs" => {
            let t1 = s.leaf(1, [("a", 2), ("b", 2)]);
            let t2 = s.leaf(2, [("a", 2), ("b", 1)]);
            let t3 = s.leaf(3, [("a", 2), ("b", 3)]);
            let v = TensorChain::<u64, [_; 3], 2>::from([&t1, &t2, &t3], "b");
            s.built("chain 3 b", &v);
            s.probe(&v);
            let e = TensorExpansion::<u64, _, 2, 2>::from(&v, [(1, "y"), (1, "x")]);
            s.built("expand 1:y,1:x", &e);
            s.probe(&e);
        }
        "matrix_backed" => {
            let mut m = Matrix::from_flat_row_major((2, 3), leaf_values(1, 6));
            s.rec("matrix 1 2 3 row,column via=static".into(), "ok shape=row:2,column:3".into());
            {
                let v = TensorRefMatrix::from(&m).unwrap();
                s.probe(&v);
                let memory = TensorAccess::from_memory_order(&v).unwrap();
                let walked: Vec<u64> = memory.iter().collect();
                let first = walked[0];
                let ans = if walked.iter().enumerate().all(|(k, c)| *c == first + k as u64) {
                    format!("linear=row,column cells={}+{}", show_cell(first), walked.len())
                } else {
                    "walk-not-contiguous".into()
                };
                s.rec("memorder via=static".into(), ans);
            }
            let mut v = TensorRefMatrix::with_names(&mut m, ["row", "column"]).unwrap();
            s.probe_mut(&mut v);
            let mut t = TensorTranspose::from(v, ["column", "row"]);
            s.built("transpose column,row", &t);
            s.probe(&t);
            s.probe_mut(&mut t);
        }
        "tensor_methods" => {
            let mut t = s.leaf(1, [("a", 2), ("b", 3), ("c", 2)]);
            {
                let r = t.range([("b", 1..3)]).unwrap();
                s.built("range b:1:2", r.source_ref());
                s.probe(r.source_ref());
                let m = r.mask([("c", 0..1)]).unwrap();
                s.built("mask c:0:1", m.source_ref());
                s.probe(m.source_ref());
                let rev = m.reverse(&["a", "b"]);
                s.built("reverse a,b", rev.source_ref());
                s.probe(rev.source_ref());
                let sel = rev.select([("a", 1)]);
                s.built("index a:1", sel.source_ref());
                s.probe(sel.source_ref());
                let ex = sel.expand([(0, "x")]);
                s.built("expand 0:x", ex.source_ref());
                s.probe(ex.source_ref());
                let tr = ex.transpose_view(["c", "x", "b"]);
                s.built("transpose c,x,b", tr.source_ref());
                s.probe(tr.source_ref());
                let rn = tr.rename_view(["p", "q", "r"]);
                s.built("rename p,q,r", rn.source_ref());
                s.probe(rn.source_ref());
            }
            let _ = &mut t;
        }
        "matrix_of_tensor_view" => {
            let t = s.leaf(1, [("a", 2), ("b", 3)]);
            // row major: the tensor itself as a matrix as a tensor
            {
                let v = TensorRefMatrix::with_names(MatrixRefTensor::from(&t), ["x", "y"]).unwrap();
                s.built("matrixof x,y", &v);
                s.probe(&v);
                s.memorder(&v);
            }
            // column major: the reordered tensor as a matrix as a tensor
            let t2 = s.leaf(2, [("a", 2), ("b", 3)]);
            let reordered = t2.index_by(["b", "a"]);
            s.built("access b,a", &reordered);
            let v = TensorRefMatrix::with_names(MatrixRefTensor::from(reordered), ["x", "y"]).unwrap();
            s.built("matrixof x,y", &v);
            s.probe(&v);
            s.memorder(&v);
            // and transposed once more: the layout has to follow
            let tr = TensorTranspose::from(&v, ["y", "x"]);
            s.built("transpose y,x", &tr);
            s.probe(&tr);
            s.memorder(&tr);
        }
        "matrix_stacks_typed" => {
            // matrix-side adaptors with their concrete types (nothing erased) between a Matrix /
            // a MatrixRefTensor and TensorRefMatrix
            let m = Matrix::from_flat_row_major((4, 5), leaf_values(1, 20));
            s.rec("matrix 1 4 5 row,column via=static".into(), "ok shape=row:4,column:5".into());
            {
                let stack = MatrixReverse::from(MatrixRange::from(&m, 1..3, 1..4), MReverse { rows: true, columns: true });
                let v = TensorRefMatrix::with_names(stack, ["x", "y"]).unwrap();
                s.built("matrixof x,y ops=range:1:2:1:3;reverse:1:1", &v);
                s.probe(&v);
                s.memorder(&v);
            }
            let t2 = s.leaf(2, [("r", 4), ("c", 5)]);
            {
                let stack = MatrixReverse::from(MatrixRefTensor::from(&t2), MReverse { rows: false, columns: false });
                let v = TensorRefMatrix::with_names(stack, ["x", "y"]).unwrap();
                s.built("matrixof x,y ops=reverse:0:0", &v);
                s.probe(&v);
                s.memorder(&v);
                let rn = TensorRename::from(&v, ["p", "q"]);
                s.built("rename p,q", &rn);
                s.probe(&rn);
                s.memorder(&rn);
            }
            let t3 = s.leaf(3, [("r", 4), ("c", 5)]);
            {
                let reordered = t3.index_by(["c", "r"]);
                s.built("access c,r", &reordered);
                let stack = MatrixRange::from(MatrixRefTensor::from(reordered), 1..3, 0..4);
                let v = TensorRefMatrix::with_names(stack, ["x", "y"]).unwrap();
                s.built("matrixof x,y ops=range:1:2:0:4", &v);
                s.probe(&v);
                s.memorder(&v);
                let tr = TensorTranspose::from(&v, ["y", "x"]);
                s.built("transpose y,x", &tr);
                s.probe(&tr);
                s.memorder(&tr);
            }
            let mut m4 = Matrix::from_flat_row_major((3, 4), leaf_values(4, 12));
            s.rec("matrix 4 3 4 row,column via=static".into(), "ok shape=row:3,column:4".into());
            {
                let stack = MatrixRange::from(MatrixReverse::from(&mut m4, MReverse { rows: true, columns: false }), 0..2, 1..3);
                let mut v = TensorRefMatrix::from(stack).unwrap();
                s.built("matrixof row,column ops=reverse:1:0;range:0:2:1:2", &v);
                s.probe(&v);
                s.memorder(&v);
                s.probe_mut(&mut v);
            }
        }
        "same_source_twice" => {
            // one tensor — the same object — as every source of a stack / chain (the model sees
            // as many leaves with the same id and the same data)
            let t = s.leaf(1, [("a", 2), ("b", 3)]);
            let again = |s: &mut Script| s.rec("leaf 1 a:2,b:3 via=static".into(), "ok shape=a:2,b:3".into());
            again(&mut s);
            let st = TensorStack::<u64, (_, _), 2>::from((&t, &t), (0, "s"));
            s.built("stack 2 0:s", &st);
            s.probe(&st);
            again(&mut s);
            again(&mut s);
            again(&mut s);
            let ch = TensorChain::<u64, [_; 3], 2>::from([&t, &t, &t], "b");
            s.built("chain 3 b", &ch);
            s.probe(&ch);
            let rv = TensorReverse::from(&ch, &["b"]);
            s.built("reverse b", &rv);
            s.probe(&rv);
            // a stack of the same object beside itself, chained with itself
            again(&mut s);
            again(&mut s);
            let s1 = TensorStack::<u64, [_; 2], 2>::from([&t, &t], (2, "s"));
            s.built("stack 2 2:s", &s1);
            again(&mut s);
            again(&mut s);
            let s2 = TensorStack::<u64, [_; 2], 2>::from([&t, &t], (2, "s"));
            s.built("stack 2 2:s", &s2);
            let both = TensorChain::<u64, (_, _), 3>::from((&s1, &s1), "s");
            let _ = &s2;
            s.built("chain 2 s", &both);
            s.probe(&both);
            // one view twice
            let view = TensorView::from(&t);
            again(&mut s);
            again(&mut s);
            let vv = TensorStack::<u64, (_, _), 2>::from((view.source_ref(), view.source_ref()), (1, "row"));
            s.built("stack 2 1:row", &vv);
            s.probe(&vv);
        }
        "adversarial_names_shared" => {
            // the shared-receiver helpers with names that contain one another, the names the
            // interop wrappers use, and the empty name
            // (every helper starts again from the tensor: the model gets the leaf once more)
            let t = s.leaf(1, [("row", 2), ("", 3), ("rows", 2)]);
            let again = |s: &mut Script| s.rec("leaf 1 row:2,_empty_:3,rows:2 via=static".into(), "ok shape=row:2,_empty_:3,rows:2".into());
            let rn = t.rename_view(["r", "row", "ro"]);
            s.built("rename r,row,ro", rn.source_ref());
            s.probe(rn.source_ref());
            again(&mut s);
            let tr = t.transpose_view(["rows", "row", ""]);
            s.built("transpose rows,row,_empty_", tr.source_ref());
            s.probe(tr.source_ref());
            again(&mut s);
            let ix = t.index_by(["", "rows", "row"]);
            s.built("access _empty_,rows,row", &ix);
            s.probe(&ix);
            again(&mut s);
            let sel = t.select([("", 2)]);
            s.built("index _empty_:2", sel.source_ref());
            s.probe(sel.source_ref());
            let m = TensorRefMatrix::with_names(MatrixRefTensor::from(sel.source_ref()), ["column", "row"]).unwrap();
            s.built("matrixof column,row", &m);
            s.probe(&m);
            s.memorder(&m);
            let ex: TensorExpansion<u64, _, 2, 2> = TensorExpansion::from(&m, [(1, "col"), (2, "")]);
            s.built("expand 1:col,2:_empty_", &ex);
            s.probe(&ex);
            again(&mut s);
            let rg = t.range([("rows", 1..2), ("", 1..3)]).unwrap();
            s.built("range rows:1:1,_empty_:1:2", rg.source_ref());
            s.probe(rg.source_ref());
            again(&mut s);
            let mk = t.mask([("", 0..1)]).unwrap();
            s.built("mask _empty_:0:1", mk.source_ref());
            s.probe(mk.source_ref());
            again(&mut s);
            let rv = t.reverse(&["", "row"]);
            s.built("reverse _empty_,row", rv.source_ref());
            s.probe(rv.source_ref());
        }
        "rename_setters" => {
            // the mutators of an existing adaptor: TensorRename::set_names (directly and through
            // TensorView::source_ref_mut), source_ref_mut of TensorRename / TensorReverse
            let other = s.leaf(2, [("c", 3), ("d", 1)]);
            let t = s.leaf(1, [("a", 2), ("b", 3)]);
            let mut r = TensorRename::from(t, ["x", "y"]);
            s.built("rename x,y", &r);
            s.rec("get_names via=static".into(), format!("names={}", show_names(r.get_names())));
            let refused = catch(|| r.set_names(["p", "p"]));
            s.rec("set_names p,p via=static".into(), match refused {
                Ok(()) => format!("ok shape={}", show_shape(&r.view_shape())),
                Err(PanicKind::Explicit) => "reject".into(),
                Err(k) => panic_str(k),
            });
            s.rec("get_names via=static".into(), format!("names={}", show_names(r.get_names())));
            s.probe(&r);
            let accepted = catch(|| r.set_names(["y", "x"]));
            s.rec("set_names y,x via=static".into(), match accepted {
                Ok(()) => format!("ok shape={}", show_shape(&r.view_shape())),
                Err(PanicKind::Explicit) => "reject".into(),
                Err(k) => panic_str(k),
            });
            s.probe(&r);
            s.probe_mut(&mut r);
            // through a TensorView
            let mut view = TensorView::from(r);
            let refused = catch(|| view.source_ref_mut().set_names(["y", "y"]));
            s.rec("set_names y,y via=static_view".into(), match refused {
                Ok(()) => format!("ok shape={}", show_shape(&view.shape())),
                Err(PanicKind::Explicit) => "reject".into(),
                Err(k) => panic_str(k),
            });
            s.rec("shape via=static".into(), format!("shape={}", show_shape(&view.shape())));
            let accepted = catch(|| view.source_ref_mut().set_names(["u", "v"]));
            s.rec("set_names u,v via=static_view".into(), match accepted {
                Ok(()) => format!("ok shape={}", show_shape(&view.shape())),
                Err(PanicKind::Explicit) => "reject".into(),
                Err(k) => panic_str(k),
            });
            let mut r = view.source();
            // the source replaced by a tensor of another shape
            let mut other = other;
            std::mem::swap(r.source_ref_mut(), &mut other);
            s.rec("swap_source via=static".into(), format!("ok shape={}", show_shape(&r.view_shape())));
            s.probe(&r);
            s.probe_mut(&mut r);
        }
        "reverse_swap_source" => {
            let mut other = s.leaf(2, [("c", 3), ("d", 2)]);
            let t = s.leaf(1, [("a", 2), ("b", 3)]);
            let mut rev = TensorReverse::from(t, &["b"]);
            s.built("reverse b", &rev);
            s.probe(&rev);
            // the flags are kept by position: the second dimension of the new source is reversed
            std::mem::swap(rev.source_ref_mut(), &mut other);
            s.rec("swap_source via=static".into(), format!("ok shape={}", show_shape(&rev.view_shape())));
            s.probe(&rev);
            s.probe_mut(&mut rev);
        }
        "record_display_map" => {
            // `TensorMap` is private to the library; its one use is `Display for RecordTensor`, which
            // prints f(source[idx]) with f = |(x, _)| x over whatever view the record tensor is over
            use easy_ml::differentiation::RecordTensor;
            fn pairs<const D: usize>(id: u64, shape: [(&'static str, usize); D]) -> Tensor<(i64, usize), D> {
                let n: usize = shape.iter().map(|d| d.1).product();
                Tensor::from(shape, (0..n).map(|k| ((id * LEAF_MUL + k as u64) as i64, 7 * k + 3)).collect())
            }
            fn shown<S: TensorRef<(i64, usize), D>, const D: usize>(s: &mut Script, view: S) {
                let shape = view.view_shape();
                let record: RecordTensor<i64, S, D> = RecordTensor::from_existing(None, TensorView::from(view));
                s.rec("tmap via=static".into(), format!("ok shape={}", show_shape(&record.shape())));
                let ans = match catch(|| format!("{}", record)) {
                    Ok(text) => format!("shape={} cells={}", show_shape(&shape), cells_of_display(&text, D)),
                    Err(k) => panic_str(k),
                };
                s.rec("display via=static".into(), ans);
            }
            // 2 dimensions: reversal of a range
            let t = pairs(1, [("a", 3), ("b", 3)]);
            s.rec("leaf 1 a:3,b:3 via=static".into(), "ok shape=a:3,b:3".into());
            let r = TensorRange::from(&t, [("b", IndexRange::new(1, 2))]).unwrap();
            s.rec("range b:1:2 via=static".into(), "ok shape=a:3,b:2".into());
            let v = TensorReverse::from(r, &["a"]);
            s.rec("reverse a via=static".into(), "ok shape=a:3,b:2".into());
            shown(&mut s, v);
            // 3 dimensions: a transposition of a mask
            let t = pairs(2, [("a", 2), ("b", 3), ("c", 2)]);
            s.rec("leaf 2 a:2,b:3,c:2 via=static".into(), "ok shape=a:2,b:3,c:2".into());
            let m = TensorMask::from(&t, [("b", IndexRange::new(0, 1))]).unwrap();
            s.rec("mask b:0:1 via=static".into(), "ok shape=a:2,b:2,c:2".into());
            let v = TensorTranspose::from(m, ["c", "a", "b"]);
            s.rec("transpose c,a,b via=static".into(), format!("ok shape={}", show_shape(&v.view_shape())));
            shown(&mut s, v);
            // 4 dimensions (the iterator / unchecked path of the formatter): a reordering
            let t = pairs(3, [("a", 2), ("b", 1), ("c", 2), ("d", 2)]);
            s.rec("leaf 3 a:2,b:1,c:2,d:2 via=static".into(), "ok shape=a:2,b:1,c:2,d:2".into());
            let v = TensorAccess::from(&t, ["d", "a", "c", "b"]);
            s.rec("access d,a,c,b via=static".into(), format!("ok shape={}", show_shape(&v.view_shape())));
            shown(&mut s, v);
            // 1 and 0 dimensions: a chain, a selection
            let t1 = pairs(4, [("a", 2)]);
            let t2 = pairs(5, [("a", 3)]);
            s.rec("leaf 4 a:2 via=static".into(), "ok shape=a:2".into());
            s.rec("leaf 5 a:3 via=static".into(), "ok shape=a:3".into());
            let v = TensorChain::<(i64, usize), (_, _), 1>::from((&t1, &t2), "a");
            s.rec("chain 2 a via=static".into(), "ok shape=a:5".into());
            shown(&mut s, v);
            let t6 = pairs(6, [("a", 3)]);
            s.rec("leaf 6 a:3 via=static".into(), "ok shape=a:3".into());
            let v = TensorIndex::<(i64, usize), _, 1, 1>::from(&t6, [("a", 1)]);
            s.rec("index a:1 via=static".into(), "ok shape=-".into());
            shown(&mut s, v);
        }
        "boxed_dyn_ref" => {
            // `Box<dyn TensorRef>` (shared, type erased) and a sized `Box<S>` as views of their own
            let t = s.leaf(1, [("a", 2), ("b", 3)]);
            let b: Box<dyn TensorRef<u64, 2>> = Box::new(t);
            s.probe(&b);
            s.memorder(&b);
            let tr = TensorTranspose::from(b, ["b", "a"]);
            s.built("transpose b,a", &tr);
            let bb: Box<TensorTranspose<u64, Box<dyn TensorRef<u64, 2>>, 2>> = Box::new(tr);
            s.probe(&bb);
            s.memorder(&bb);
        }
        "shared_receivers" => {
            // the `&self` convenience methods of Tensor and TensorView not used elsewhere
            let t = s.leaf(1, [("a", 2), ("b", 3)]);
            let e = t.expand([(1, "x")]);
            s.built("expand 1:x", e.source_ref());
            s.probe(e.source_ref());
            let r = e.range([("b", 1..3)]).unwrap();
            s.built("range b:1:2", r.source_ref());
            s.probe(r.source_ref());
            s.rec("length_of b via=static".into(), format!("length={} last={}",
                r.length_of("b").map_or("none".to_string(), |n| n.to_string()),
                r.last_index_of("b").map_or("none".to_string(), |n| n.to_string())));
            s.rec("length_of q via=static".into(), format!("length={} last={}",
                r.length_of("q").map_or("none".to_string(), |n| n.to_string()),
                r.last_index_of("q").map_or("none".to_string(), |n| n.to_string())));
            let rv = r.reverse(&["x", "a"]);
            s.built("reverse x,a", rv.source_ref());
            s.probe(rv.source_ref());
            let a = rv.index_by(["b", "a", "x"]);
            s.built("access b,a,x", &a);
            s.probe(&a);
            // `&Tensor` receivers and the `From` conversions into a TensorView
            let t2 = s.leaf(2, [("a", 2), ("b", 3), ("c", 2)]);
            let m = t2.mask([("c", 1..2)]).unwrap();
            s.built("mask c:1:1", m.source_ref());
            s.probe(m.source_ref());
            let again = <TensorView<u64, &TensorMask<u64, &Tensor<u64, 3>, 3>, 3> as From<&TensorView<u64, TensorMask<u64, &Tensor<u64, 3>, 3>, 3>>>::from(&m);
            s.probe(again.source_ref());
            let mut t3 = s.leaf(3, [("a", 2), ("b", 3)]);
            {
                let rv = t3.reverse(&["b"]);
                s.built("reverse b", rv.source_ref());
                s.probe(rv.source_ref());
            }
            let t4 = s.leaf(4, [("a", 2), ("b", 3)]);
            let sel = t4.select([("b", 2)]);
            s.built("index b:2", sel.source_ref());
            s.probe(sel.source_ref());
            let t5 = s.leaf(5, [("a", 2), ("b", 3)]);
            let tr = t5.transpose_view(["b", "a"]);
            s.built("transpose b,a", tr.source_ref());
            s.probe(tr.source_ref());
            s.memorder(tr.source_ref());
            let rn = tr.rename_view(["p", "q"]);
            s.built("rename p,q", rn.source_ref());
            s.probe(rn.source_ref());
            s.memorder(rn.source_ref());
            // a tensor as a view of itself: `view`, `view_mut`, `From<&Tensor>`, `From<&mut Tensor>`
            let t6 = s.leaf(6, [("a", 2)]);
            s.probe(t6.view().source_ref());
            let v6: TensorView<u64, &Tensor<u64, 1>, 1> = TensorView::from(&t6);
            s.probe(v6.source_ref());
            {
                let mut vm = t3.view_mut();
                let _ = vm.source_ref_mut();
            }
            let vm: TensorView<u64, &mut Tensor<u64, 2>, 2> = TensorView::from(&mut t3);
            let _ = vm;
        }
        other if other.starts_with("api_") => api_case(other, &mut s),
        other => panic!("unknown static case {}", other),
    }
    s.0
}

// ---------------------------------------------------------------------------------------------
// generation
// ---------------------------------------------------------------------------------------------

#[path = "c02_gen.rs"]
mod generator;

/// The answers of this binary in `run` mode, in a child process: the statically typed cases
/// execute library code, and a change of the library that makes one of them abort (undefined
/// behaviour caught by a debug assertion) must not take the generator down with it — the run
/// phase then reports the abort as the failing input it is.
fn child_answers(lines: &[String]) -> Option<Vec<String>> {
    use std::io::Write;
    use std::process::{Command, Stdio};
    let exe = std::env::current_exe().ok()?;
    let mut child = Command::new(exe)
        .args(["run", "C02"])
        .env_remove("EMLV_REVERSE")
        .env_remove("EMLV_THREAD")
        .env_remove("EMLV_PERTURB")
        .stdin(Stdio::piped())
        .stdout(Stdio::piped())
        .stderr(Stdio::null())
        .spawn()
        .ok()?;
    {
        let mut stdin = child.stdin.take()?;
        for l in lines {
            writeln!(stdin, "{}", l).ok()?;
        }
    }
    let out = child.wait_with_output().ok()?;
    if !out.status.success() {
        return None;
    }
    Some(String::from_utf8_lossy(&out.stdout).lines().map(|l| l.to_string()).collect())
}

pub fn gen(g: &mut Gen) {
    silence_panics();
    generator::gen(g, &STATIC_KEYS, &|key| match child_answers(&[format!("static_ops {}", key)]) {
        Some(a) if a.len() == 1 && !a[0].is_empty() => a[0].split('\t').map(|x| x.to_string()).collect(),
        // the case kills the process: the run phase will show it at the `@ static` line
        _ => vec!["shape".to_string()],
    });
    // the API surface: one line whose auxiliary part lists public items neither driven nor listed
    g.op("@ case".into());
    g.op("api_surface".into());
    match child_answers(&["api_stats".to_string()]) {
        Some(a) if a.len() == 1 => {
            for entry in a[0].split('\t') {
                if let Some((k, n)) = entry.rsplit_once(' ') {
                    g.count_n(k, n.parse().unwrap_or(0));
                }
            }
        }
        _ => g.count("api.scan_failed"),
    }
}
