//! C07 — determinant and inverse.  See lean/Driver/C07.lean for the protocol.
//!
//! A case (`@ <fp|rat> a:R,b:C <entries>`) fixes the *logical* matrix; `via=<source>/<call>`
//! chooses how that matrix is presented to easy-ml (owned / borrowed / transposed / masked /
//! ranged / reversed / renamed / selected / matrix-backed …) and which entry point is called
//! (free function by value, by reference, method).  Every variant must give the one answer of
//! the model.

use crate::exact::{Fp, Rat, P};
use crate::util::*;
use easy_ml::interop::{MatrixRefTensor, TensorRefMatrix};
use easy_ml::matrices::views::{MatrixMut, MatrixRange, MatrixRef, MatrixReverse, MatrixView, Reverse};
use easy_ml::tensors::views::TensorMut;
use easy_ml::linear_algebra;
use easy_ml::matrices::Matrix;
use easy_ml::numeric::{Numeric, NumericRef};
use easy_ml::tensors::views::{IndexRange, TensorRef, TensorView};
use easy_ml::tensors::Tensor;
use std::fmt::Display;

// ---------------------------------------------------------------------------------------------
// element types
// ---------------------------------------------------------------------------------------------

pub trait Elem: Numeric + Display + PartialEq + 'static
where
    for<'a> &'a Self: NumericRef<Self>,
{
    fn parse(s: &str) -> Self;
    fn small(i: i64) -> Self;
    /// `Tensor::iter_owned` needs `T: Default`, which the exact types of `exact.rs` do not have
    fn owned_iter(_t: Tensor<Self, 2>) -> Option<Vec<Self>> {
        None
    }
    /// values hidden behind masks/ranges: large, distinct, non-zero
    fn junk(k: usize) -> Self {
        Self::small(1_000_003 + 7919 * k as i64)
    }
}

impl Elem for Fp {
    fn parse(s: &str) -> Fp {
        let v: i128 = s.parse().expect("fp literal");
        if v >= 0 { Fp::new(v as u64) } else { Fp::from_i64(v as i64) }
    }
    fn small(i: i64) -> Fp {
        Fp::from_i64(i)
    }
}

impl Elem for Rat {
    fn parse(s: &str) -> Rat {
        match s.split_once('/') {
            Some((n, d)) => Rat::new(n.parse().expect("num"), d.parse().expect("den")),
            None => Rat::new(s.parse().expect("int"), 1),
        }
    }
    fn small(i: i64) -> Rat {
        Rat::int(i)
    }
}

/// Integer element type: everything is exact (only unimodular matrices are asked for their
/// inverse, because `T::one() / det` is an integer division).
impl Elem for i64 {
    fn owned_iter(t: Tensor<i64, 2>) -> Option<Vec<i64>> {
        Some(t.iter_owned().collect())
    }
    fn parse(s: &str) -> i64 {
        s.parse().expect("i64 literal")
    }
    fn small(i: i64) -> i64 {
        i
    }
}

impl Elem for f64 {
    fn parse(s: &str) -> f64 {
        s.parse().expect("f64 literal")
    }
    fn small(i: i64) -> f64 {
        i as f64
    }
}

impl Elem for f32 {
    fn parse(s: &str) -> f32 {
        s.parse().expect("f32 literal")
    }
    fn small(i: i64) -> f32 {
        i as f32
    }
}

/// Float element types: never compared with the model value by value; the oracle is the
/// specification itself (present, and both products with the input within `TOL` of the identity).
pub trait Approx: Elem
where
    for<'a> &'a Self: NumericRef<Self>,
{
    const TOL: f64;
    fn as_f64(&self) -> f64;
    /// `base · 10^k10 · 2^k2`
    fn scaled(base: i64, k10: i32, k2: i32) -> Self;
}

impl Approx for f64 {
    const TOL: f64 = 1e-9;
    fn as_f64(&self) -> f64 {
        *self
    }
    fn scaled(base: i64, k10: i32, k2: i32) -> f64 {
        base as f64 * 10f64.powi(k10) * 2f64.powi(k2)
    }
}

impl Approx for f32 {
    const TOL: f64 = 2e-3;
    fn as_f64(&self) -> f64 {
        *self as f64
    }
    fn scaled(base: i64, k10: i32, k2: i32) -> f32 {
        base as f32 * 10f32.powi(k10) * 2f32.powi(k2)
    }
}

fn show_vals<T: Display>(v: &[T]) -> String {
    v.iter().map(|x| x.to_string()).collect::<Vec<_>>().join(",")
}

// ---------------------------------------------------------------------------------------------
// presenting the logical matrix through the different sources
// ---------------------------------------------------------------------------------------------

#[derive(Clone)]
struct Logical<T> {
    names: [&'static str; 2],
    rows: usize,
    cols: usize,
    data: Vec<T>, // row-major
}

impl<T: Clone> Logical<T> {
    fn at(&self, r: usize, c: usize) -> T {
        self.data[r * self.cols + c].clone()
    }
    fn tensor(&self) -> Tensor<T, 2> {
        Tensor::from([(self.names[0], self.rows), (self.names[1], self.cols)], self.data.clone())
    }
    fn matrix(&self) -> Matrix<T> {
        Matrix::from_flat_row_major((self.rows, self.cols), self.data.clone())
    }
}

/// An operation on a 2-D view, generic in the view's source type.
trait ViewOp<T> {
    type Out;
    fn call<S: TensorRef<T, 2>>(self, view: TensorView<T, S, 2>) -> Self::Out;
}

/// Builds the view named by `src` that shows exactly `l` and applies `op` to it.
fn with_source<T: Elem, O: ViewOp<T>>(src: &str, l: &Logical<T>, op: O) -> O::Out
where
    for<'a> &'a T: NumericRef<T>,
{
    let [a, b] = l.names;
    let (r, c) = (l.rows, l.cols);
    match src {
        "tensor" => op.call(TensorView::from(l.tensor())),
        "tensor_ref" => {
            let t = l.tensor();
            op.call(TensorView::from(&t))
        }
        "tensor_mut" => {
            let mut t = l.tensor();
            op.call(TensorView::from(&mut t))
        }
        "view_ref" => {
            let v = TensorView::from(l.tensor());
            let v2: TensorView<T, &Tensor<T, 2>, 2> = From::from(&v);
            op.call(v2)
        }
        "transposed" => {
            // base holds the transpose under the same name order
            let mut data = Vec::with_capacity(r * c);
            for j in 0..c {
                for i in 0..r {
                    data.push(l.at(i, j));
                }
            }
            let base = Tensor::from([(a, c), (b, r)], data);
            op.call(base.transpose_view([b, a]))
        }
        "reordered" => {
            let mut data = Vec::with_capacity(r * c);
            for j in 0..c {
                for i in 0..r {
                    data.push(l.at(i, j));
                }
            }
            let base = Tensor::from([(b, c), (a, r)], data);
            op.call(TensorView::from(base.index_by([a, b])))
        }
        "masked" | "masked_owned" => {
            // one junk row and one junk column, hidden by a mask
            let (kr, kc) = (r / 2, (c + 1) / 2);
            let mut data = Vec::with_capacity((r + 1) * (c + 1));
            let mut junk = 0;
            for i in 0..=r {
                for j in 0..=c {
                    if i == kr || j == kc {
                        data.push(T::junk(junk));
                        junk += 1;
                    } else {
                        let si = if i < kr { i } else { i - 1 };
                        let sj = if j < kc { j } else { j - 1 };
                        data.push(l.at(si, sj));
                    }
                }
            }
            let base = Tensor::from([(a, r + 1), (b, c + 1)], data);
            if src == "masked" {
                op.call(base.mask([(a, kr..kr + 1), (b, kc..kc + 1)]).expect("mask"))
            } else {
                op.call(base.mask_owned([(a, kr..kr + 1), (b, kc..kc + 1)]).expect("mask"))
            }
        }
        "ranged" => {
            // embedded in a larger tensor with offsets (1, 2)
            let (or, oc) = (1, 2);
            let (br, bc) = (r + 2, c + 3);
            let mut data = Vec::with_capacity(br * bc);
            let mut junk = 0;
            for i in 0..br {
                for j in 0..bc {
                    if i >= or && i < or + r && j >= oc && j < oc + c {
                        data.push(l.at(i - or, j - oc));
                    } else {
                        data.push(T::junk(junk));
                        junk += 1;
                    }
                }
            }
            let base = Tensor::from([(a, br), (b, bc)], data);
            op.call(base.range([(a, IndexRange::new(or, r)), (b, IndexRange::new(oc, c))]).expect("range"))
        }
        "reversed" => {
            let mut data = Vec::with_capacity(r * c);
            for i in (0..r).rev() {
                for j in (0..c).rev() {
                    data.push(l.at(i, j));
                }
            }
            let base = Tensor::from([(a, r), (b, c)], data);
            op.call(base.reverse(&[a, b]))
        }
        "renamed" => {
            let base = Tensor::from([("qq", r), ("zz", c)], l.data.clone());
            op.call(base.rename_view([a, b]))
        }
        "selected" => {
            // the second slice of a 3-D tensor
            let mut data: Vec<T> = (0..r * c).map(T::junk).collect();
            data.extend(l.data.iter().cloned());
            let base = Tensor::from([("zz", 2), (a, r), (b, c)], data);
            op.call(base.select([("zz", 1)]))
        }
        "matrix_wrapped" => {
            let m = l.matrix();
            op.call(TensorView::from(TensorRefMatrix::with_names(&m, [a, b]).expect("names")))
        }
        "masked_transposed" => {
            // transpose of a tensor with one hidden row: mask ∘ transpose
            let kr = r / 2;
            let mut data = Vec::with_capacity((r + 1) * c);
            let mut junk = 0;
            for j in 0..c {
                for i in 0..=r {
                    if i == kr {
                        data.push(T::junk(junk));
                        junk += 1;
                    } else {
                        data.push(l.at(if i < kr { i } else { i - 1 }, j));
                    }
                }
            }
            let base = Tensor::from([(a, c), (b, r + 1)], data);
            let transposed = base.transpose_view([b, a]); // shape [(a, r+1), (b, c)]
            op.call(transposed.mask([(a, kr..kr + 1)]).expect("mask"))
        }
        // ---- entry-point surface: every wrapper / forwarder through which an input can reach
        //      determinant / inverse (sources prefixed `m_` are matrix backed and go through
        //      `TensorRefMatrix`, `t_` are tensor backed) ----
        "m_owned" => op.call(TensorView::from(TensorRefMatrix::with_names(l.matrix(), [a, b]).expect("names"))),
        "m_mut" => {
            let mut m = l.matrix();
            op.call(TensorView::from(TensorRefMatrix::with_names(&mut m, [a, b]).expect("names")))
        }
        "m_box" => op.call(TensorView::from(TensorRefMatrix::with_names(Box::new(l.matrix()), [a, b]).expect("names"))),
        "m_box_ref" => {
            let m = l.matrix();
            op.call(TensorView::from(TensorRefMatrix::with_names(Box::new(&m), [a, b]).expect("names")))
        }
        "m_ref_ref" => {
            let m = l.matrix();
            let r1 = &m;
            op.call(TensorView::from(TensorRefMatrix::with_names(&r1, [a, b]).expect("names")))
        }
        "m_dyn_ref" => {
            let boxed: Box<dyn MatrixRef<T>> = Box::new(l.matrix());
            op.call(TensorView::from(TensorRefMatrix::with_names(boxed, [a, b]).expect("names")))
        }
        "m_dyn_mut" => {
            let boxed: Box<dyn MatrixMut<T>> = Box::new(l.matrix());
            op.call(TensorView::from(TensorRefMatrix::with_names(boxed, [a, b]).expect("names")))
        }
        "m_ref_dyn_ref" => {
            let boxed: Box<dyn MatrixRef<T>> = Box::new(l.matrix());
            op.call(TensorView::from(TensorRefMatrix::with_names(&boxed, [a, b]).expect("names")))
        }
        "m_box_dyn_ref" => {
            let boxed: Box<dyn MatrixRef<T>> = Box::new(l.matrix());
            op.call(TensorView::from(TensorRefMatrix::with_names(Box::new(boxed), [a, b]).expect("names")))
        }
        "m_mut_dyn_mut" => {
            let mut boxed: Box<dyn MatrixMut<T>> = Box::new(l.matrix());
            op.call(TensorView::from(TensorRefMatrix::with_names(&mut boxed, [a, b]).expect("names")))
        }
        "m_dyn_ref_range" | "m_range" => {
            // the logical matrix embedded at offset (1, 2) in a larger one, shown by a MatrixRange
            let (or, oc) = (1, 2);
            let mut junk = 0;
            let big = Matrix::from_fn((r + 2, c + 3), |(i, j)| {
                if i >= or && i < or + r && j >= oc && j < oc + c {
                    l.at(i - or, j - oc)
                } else {
                    junk += 1;
                    T::junk(junk)
                }
            });
            let range = MatrixRange::from(big, or..or + r, oc..oc + c);
            if src == "m_range" {
                op.call(TensorView::from(TensorRefMatrix::with_names(range, [a, b]).expect("names")))
            } else {
                let boxed: Box<dyn MatrixRef<T>> = Box::new(range);
                op.call(TensorView::from(TensorRefMatrix::with_names(boxed, [a, b]).expect("names")))
            }
        }
        "m_reverse" => {
            let mut data = Vec::with_capacity(r * c);
            for i in (0..r).rev() {
                for j in (0..c).rev() {
                    data.push(l.at(i, j));
                }
            }
            let base = Matrix::from_flat_row_major((r, c), data);
            let rev = MatrixReverse::from(base, Reverse { rows: true, columns: true });
            op.call(TensorView::from(TensorRefMatrix::with_names(rev, [a, b]).expect("names")))
        }
        "m_view_source" => {
            let view = MatrixView::from(l.matrix());
            op.call(TensorView::from(TensorRefMatrix::with_names(view.source_ref(), [a, b]).expect("names")))
        }
        "m_rowcol" => {
            // `TensorRefMatrix::from`: the fixed names "row" / "column" (only generated with them)
            let m = l.matrix();
            op.call(TensorView::from(TensorRefMatrix::from(&m).expect("at least 1x1")))
        }
        "m_tensor_round_trip" => {
            // Tensor → MatrixRefTensor → TensorRefMatrix → TensorView
            let t = l.tensor();
            let as_matrix = MatrixRefTensor::from(&t);
            op.call(TensorView::from(TensorRefMatrix::with_names(as_matrix, [a, b]).expect("names")))
        }
        "m_dyn_ref_tensor" => {
            let as_matrix: Box<dyn MatrixRef<T>> = Box::new(MatrixRefTensor::from(l.tensor()));
            op.call(TensorView::from(TensorRefMatrix::with_names(as_matrix, [a, b]).expect("names")))
        }
        "t_box" => op.call(TensorView::from(Box::new(l.tensor()))),
        "t_box_ref" => {
            let t = l.tensor();
            op.call(TensorView::from(Box::new(&t)))
        }
        "t_ref_ref" => {
            let t = l.tensor();
            let r1 = &t;
            op.call(TensorView::from(&r1))
        }
        "t_dyn_ref" => {
            let boxed: Box<dyn TensorRef<T, 2>> = Box::new(l.tensor());
            op.call(TensorView::from(boxed))
        }
        "t_dyn_mut" => {
            let boxed: Box<dyn TensorMut<T, 2>> = Box::new(l.tensor());
            op.call(TensorView::from(boxed))
        }
        "t_ref_dyn_ref" => {
            let boxed: Box<dyn TensorRef<T, 2>> = Box::new(l.tensor());
            op.call(TensorView::from(&boxed))
        }
        "t_mut_dyn_mut" => {
            let mut boxed: Box<dyn TensorMut<T, 2>> = Box::new(l.tensor());
            op.call(TensorView::from(&mut boxed))
        }
        "t_dyn_ref_matrix" => {
            // a matrix behind TensorRefMatrix, erased to Box<dyn TensorRef>
            let boxed: Box<dyn TensorRef<T, 2>> =
                Box::new(TensorRefMatrix::with_names(l.matrix(), [a, b]).expect("names"));
            op.call(TensorView::from(boxed))
        }
        "t_dyn_ref_matrix_dyn" => {
            let inner: Box<dyn MatrixRef<T>> = Box::new(l.matrix());
            let boxed: Box<dyn TensorRef<T, 2>> =
                Box::new(TensorRefMatrix::with_names(inner, [a, b]).expect("names"));
            op.call(TensorView::from(boxed))
        }
        other => panic!("unknown source {}", other),
    }
}

/// the wrapper forms of the entry-point surface section
const SURFACE_SOURCES: [&str; 27] = [
    "m_owned", "matrix_wrapped", "m_mut", "m_box", "m_box_ref", "m_ref_ref", "m_dyn_ref", "m_dyn_mut",
    "m_ref_dyn_ref", "m_box_dyn_ref", "m_mut_dyn_mut", "m_dyn_ref_range", "m_range", "m_reverse",
    "m_view_source", "m_tensor_round_trip", "m_dyn_ref_tensor", "t_box", "t_box_ref", "t_ref_ref", "t_dyn_ref",
    "t_dyn_mut", "t_ref_dyn_ref", "t_mut_dyn_mut", "t_dyn_ref_matrix", "t_dyn_ref_matrix_dyn", "tensor",
];
/// public routes to determinant / inverse that this workload does not drive (reported as #stat)
const SURFACE_NOT_DRIVEN: [&str; 6] = [
    "source.MatrixPart_and_MatrixQuadrants(C12)", "source.TensorStack_TensorChain_TensorExpansion_TensorIndex_higher_D(C02)",
    "source.user_trait_object_Box_dyn_MatrixMutNoInteriorMutability(doc_example_only)",
    "element_type.Record_and_Trace(C04_C05)", "element_type.unsigned_wrapping", "source.crate_private_MatrixMap",
];

const VIEW_SOURCES: [&str; 13] = [
    "tensor", "tensor_ref", "tensor_mut", "view_ref", "transposed", "reordered", "masked", "masked_owned",
    "ranged", "reversed", "renamed", "selected", "matrix_wrapped",
];
const VIEW_SOURCES_EXTRA: [&str; 1] = ["masked_transposed"];
const VIEW_CALLS: [&str; 3] = ["fn", "fn_ref", "method"];
/// calls that take a `Tensor` directly (no `TensorView` in between)
const TENSOR_DIRECT: [&str; 4] = ["direct/fn_owned", "direct/fn_ref", "direct/fn_mut", "direct/method"];

struct DetOp<'a>(&'a str);
impl<'a, T: Elem> ViewOp<T> for DetOp<'a>
where
    for<'b> &'b T: NumericRef<T>,
{
    type Out = Option<T>;
    fn call<S: TensorRef<T, 2>>(self, view: TensorView<T, S, 2>) -> Option<T> {
        match self.0 {
            "fn" => linear_algebra::determinant_tensor::<T, _, _>(view),
            "fn_ref" => linear_algebra::determinant_tensor::<T, _, _>(&view),
            "method" => view.determinant(),
            other => panic!("unknown call {}", other),
        }
    }
}

struct InvOp<'a>(&'a str);
impl<'a, T: Elem> ViewOp<T> for InvOp<'a>
where
    for<'b> &'b T: NumericRef<T>,
{
    type Out = Option<Tensor<T, 2>>;
    fn call<S: TensorRef<T, 2>>(self, view: TensorView<T, S, 2>) -> Option<Tensor<T, 2>> {
        match self.0 {
            "fn" => linear_algebra::inverse_tensor::<T, _, _>(view),
            "fn_ref" => linear_algebra::inverse_tensor::<T, _, _>(&view),
            "method" => view.inverse(),
            other => panic!("unknown call {}", other),
        }
    }
}

fn tensor_det<T: Elem>(via: &str, l: &Logical<T>) -> Option<T>
where
    for<'a> &'a T: NumericRef<T>,
{
    let (src, call) = via.split_once('/').expect("via=src/call");
    if src == "direct" {
        let mut t = l.tensor();
        return match call {
            "fn_owned" => linear_algebra::determinant_tensor::<T, _, _>(t),
            "fn_ref" => linear_algebra::determinant_tensor::<T, _, _>(&t),
            "fn_mut" => linear_algebra::determinant_tensor::<T, _, _>(&mut t),
            "method" => t.determinant(),
            other => panic!("unknown call {}", other),
        };
    }
    with_source::<T, _>(src, l, DetOp(call))
}

fn tensor_inv<T: Elem>(via: &str, l: &Logical<T>) -> Option<Tensor<T, 2>>
where
    for<'a> &'a T: NumericRef<T>,
{
    let (src, call) = via.split_once('/').expect("via=src/call");
    if src == "direct" {
        let mut t = l.tensor();
        return match call {
            "fn_owned" => linear_algebra::inverse_tensor::<T, _, _>(t),
            "fn_ref" => linear_algebra::inverse_tensor::<T, _, _>(&t),
            "fn_mut" => linear_algebra::inverse_tensor::<T, _, _>(&mut t),
            "method" => t.inverse(),
            other => panic!("unknown call {}", other),
        };
    }
    with_source::<T, _>(src, l, InvOp(call))
}

const MATRIX_SOURCES: [&str; 5] = ["flat", "rows", "transposed", "removed", "from_fn"];
const MATRIX_CALLS: [&str; 2] = ["fn", "method"];

fn build_matrix<T: Elem>(src: &str, l: &Logical<T>) -> Matrix<T>
where
    for<'a> &'a T: NumericRef<T>,
{
    let (r, c) = (l.rows, l.cols);
    match src {
        "flat" => l.matrix(),
        "rows" => Matrix::from((0..r).map(|i| (0..c).map(|j| l.at(i, j)).collect()).collect()),
        "transposed" => {
            let mut data = Vec::with_capacity(r * c);
            for j in 0..c {
                for i in 0..r {
                    data.push(l.at(i, j));
                }
            }
            Matrix::from_flat_row_major((c, r), data).transpose()
        }
        "removed" => {
            // a larger matrix from which one junk row and one junk column are removed
            let (kr, kc) = ((r + 1) / 2, c / 2);
            let mut junk = 0;
            let mut m = Matrix::from_fn((r + 1, c + 1), |(i, j)| {
                if i == kr || j == kc {
                    junk += 1;
                    T::junk(junk)
                } else {
                    l.at(if i < kr { i } else { i - 1 }, if j < kc { j } else { j - 1 })
                }
            });
            m.remove_row(kr);
            m.remove_column(kc);
            m
        }
        "from_fn" => Matrix::from_fn((r, c), |(i, j)| l.at(i, j)),
        other => panic!("unknown matrix source {}", other),
    }
}

fn matrix_det<T: Elem>(via: &str, l: &Logical<T>) -> Option<T>
where
    for<'a> &'a T: NumericRef<T>,
{
    let (src, call) = via.split_once('/').expect("via=src/call");
    let m = build_matrix::<T>(src, l);
    match call {
        "fn" => linear_algebra::determinant::<T>(&m),
        "method" => m.determinant(),
        other => panic!("unknown call {}", other),
    }
}

fn matrix_inv<T: Elem>(via: &str, l: &Logical<T>) -> Option<Matrix<T>>
where
    for<'a> &'a T: NumericRef<T>,
{
    let (src, call) = via.split_once('/').expect("via=src/call");
    let m = build_matrix::<T>(src, l);
    match call {
        "fn" => linear_algebra::inverse::<T>(&m),
        "method" => m.inverse(),
        other => panic!("unknown call {}", other),
    }
}

fn is_identity<T: Elem>(n: usize, data: &[T]) -> bool
where
    for<'a> &'a T: NumericRef<T>,
{
    data.len() == n * n
        && (0..n).all(|i| (0..n).all(|j| data[i * n + j] == if i == j { T::one() } else { T::zero() }))
}

fn check_str<T: Elem>(n: usize, p: &[T], q: &[T]) -> String
where
    for<'a> &'a T: NumericRef<T>,
{
    if is_identity::<T>(n, p) && is_identity::<T>(n, q) {
        "some(id,id)".to_string()
    } else {
        format!("some({}|{})", show_vals(p), show_vals(q))
    }
}

/// Consumers of a tensor inverse other than reading it by index: each sees the result through a
/// different part of the library (raw buffer order, strides, iterators, operators).
const CONSUMERS: [&str; 11] = [
    "into_matrix", "matrix_from", "elementwise", "map_with_index", "add_plain", "sub_plain",
    "reshape_owned", "display", "iter_owned", "iter_ref", "eq_rebuilt",
];

/// `tcons use=<consumer>`: the tensor inverse obtained through `via`, passed through a consumer
fn tensor_consumer<T: Elem>(l: &Logical<T>, via: &str, consumer: &str) -> String
where
    for<'a> &'a T: NumericRef<T>,
{
    let Some(inv) = tensor_inv::<T>(via, l) else { return "none".to_string() };
    let n = l.rows;
    let shape = [(l.names[0], n), (l.names[1], n)];
    let vals = |v: Vec<T>| format!("some({})", show_vals(&v));
    match consumer {
        "into_matrix" => {
            let m = inv.into_matrix();
            let data: Vec<T> = m.row_major_iter().collect();
            format!("some({}x{};{})", m.rows(), m.columns(), show_vals(&data))
        }
        "matrix_from" => {
            let m: Matrix<T> = <Matrix<T> as From<Tensor<T, 2>>>::from(inv);
            let data: Vec<T> = m.row_major_iter().collect();
            format!("some({}x{};{})", m.rows(), m.columns(), show_vals(&data))
        }
        "elementwise" => vals(inv.elementwise(&l.tensor(), |x, y| x * y).iter().collect()),
        "map_with_index" => vals(
            inv.map_with_index(|[i, j], x| x * T::from_usize(i * n + j + 1).expect("from_usize")).iter().collect(),
        ),
        "add_plain" => vals((&inv + &l.tensor()).iter().collect()),
        "sub_plain" => vals((&inv - &l.tensor()).iter().collect()),
        "reshape_owned" => vals(inv.reshape_owned([("flat", n * n)]).iter().collect()),
        "iter_owned" => match T::owned_iter(inv) {
            Some(v) => vals(v),
            None => "unsupported".to_string(), // needs `T: Default`; only generated for i64
        },
        "iter_ref" => vals(inv.iter_reference().cloned().collect()),
        "display" => {
            // against the Display of a tensor built afresh from the Matrix entry point's result
            let reference = linear_algebra::inverse::<T>(&l.matrix()).expect("matrix inverse present");
            let rebuilt = Tensor::from(shape, reference.row_major_iter().collect());
            if format!("{}", inv) == format!("{}", rebuilt) { "some(same)".to_string() } else { format!("some(differs:{})", format!("{}", inv).replace(char::is_whitespace, "_")) }
        }
        "eq_rebuilt" => {
            // `==`, and the raw conversion, against a tensor built afresh from the Matrix result
            let reference = linear_algebra::inverse::<T>(&l.matrix()).expect("matrix inverse present");
            let rebuilt = Tensor::from(shape, reference.row_major_iter().collect());
            let eq = inv == rebuilt;
            let same_matrix = inv.into_matrix() == reference;
            if eq && same_matrix { "some(same)".to_string() } else { format!("some(eq={},into_matrix_eq={})", eq, same_matrix) }
        }
        other => format!("bad-op {}", other),
    }
}

fn answer<T: Elem>(l: &Logical<T>, op: &str, via: &str) -> String
where
    for<'a> &'a T: NumericRef<T>,
{
    let res = catch(|| match op {
        "mdet" => match matrix_det::<T>(via, l) {
            Some(d) => format!("some({})", d),
            None => "none".to_string(),
        },
        "tdet" => match tensor_det::<T>(via, l) {
            Some(d) => format!("some({})", d),
            None => "none".to_string(),
        },
        "minv" => match matrix_inv::<T>(via, l) {
            Some(m) => {
                let data: Vec<T> = m.row_major_iter().collect();
                format!("some({}x{};{})", m.rows(), m.columns(), show_vals(&data))
            }
            None => "none".to_string(),
        },
        "tinv" => match tensor_inv::<T>(via, l) {
            Some(t) => {
                let data: Vec<T> = t.iter().collect();
                format!("some({};{})", show_shape(&t.shape()), show_vals(&data))
            }
            None => "none".to_string(),
        },
        "mcheck" => match matrix_inv::<T>(via, l) {
            Some(inv) => {
                let a = l.matrix();
                let p: Vec<T> = (&a * &inv).row_major_iter().collect();
                let q: Vec<T> = (&inv * &a).row_major_iter().collect();
                check_str::<T>(l.rows, &p, &q)
            }
            None => "none".to_string(),
        },
        "tcheck" => match tensor_inv::<T>(via, l) {
            Some(inv) => {
                let a = l.tensor();
                let p: Vec<T> = (&a * &inv).iter().collect();
                let q: Vec<T> = (&inv * &a).iter().collect();
                check_str::<T>(l.rows, &p, &q)
            }
            None => "none".to_string(),
        },
        other => format!("bad-op {}", other),
    });
    match res {
        Ok(s) => s,
        Err(k) => panic_str(k),
    }
}

/// largest deviation of `p` from the `n × n` identity (NaN counts as infinite)
fn identity_error<T: Approx>(n: usize, p: &[T]) -> f64
where
    for<'a> &'a T: NumericRef<T>,
{
    if p.len() != n * n {
        return f64::INFINITY;
    }
    let mut worst = 0.0f64;
    for i in 0..n {
        for j in 0..n {
            let e = (p[i * n + j].as_f64() - if i == j { 1.0 } else { 0.0 }).abs();
            if !(e <= worst) {
                worst = if e.is_nan() { f64::INFINITY } else { e };
            }
        }
    }
    worst
}

fn approx_str<T: Approx>(n: usize, p: &[T], q: &[T]) -> String
where
    for<'a> &'a T: NumericRef<T>,
{
    let (ep, eq) = (identity_error::<T>(n, p), identity_error::<T>(n, q));
    if ep <= T::TOL && eq <= T::TOL {
        "some(approx-id)".to_string()
    } else {
        format!("some(off-by {:e},{:e})", ep, eq)
    }
}

/// Float cases: presence and (for `*check`) the two products against the identity.
fn answer_approx<T: Approx>(l: &Logical<T>, op: &str, via: &str) -> String
where
    for<'a> &'a T: NumericRef<T>,
{
    let res = catch(|| match op {
        "mdet" => if matrix_det::<T>(via, l).is_some() { "some" } else { "none" }.to_string(),
        "tdet" => if tensor_det::<T>(via, l).is_some() { "some" } else { "none" }.to_string(),
        "minv" => if matrix_inv::<T>(via, l).is_some() { "some" } else { "none" }.to_string(),
        "tinv" => match tensor_inv::<T>(via, l) {
            Some(t) => format!("some({})", show_shape(&t.shape())),
            None => "none".to_string(),
        },
        "mcheck" => match matrix_inv::<T>(via, l) {
            Some(inv) => {
                let a = l.matrix();
                let p: Vec<T> = (&a * &inv).row_major_iter().collect();
                let q: Vec<T> = (&inv * &a).row_major_iter().collect();
                approx_str::<T>(l.rows, &p, &q)
            }
            None => "none".to_string(),
        },
        "tcheck" => match tensor_inv::<T>(via, l) {
            Some(inv) => {
                let a = l.tensor();
                let p: Vec<T> = (&a * &inv).iter().collect();
                let q: Vec<T> = (&inv * &a).iter().collect();
                approx_str::<T>(l.rows, &p, &q)
            }
            None => "none".to_string(),
        },
        other => format!("bad-op {}", other),
    });
    match res {
        Ok(s) => s,
        Err(k) => panic_str(k),
    }
}

// ---------------------------------------------------------------------------------------------
// f64 with special values: the documented operation order evaluated here, compared bit for bit
// ---------------------------------------------------------------------------------------------

/// Heap's algorithm exactly as documented for `heaps_permutations` (one swap between emissions,
/// none after the last recursive call of a level).
fn ref_heaps(k: usize, list: &mut Vec<usize>, consumer: &mut dyn FnMut(&Vec<usize>)) {
    if k == 1 {
        consumer(list);
        return;
    }
    for i in 0..k {
        ref_heaps(k - 1, list, consumer);
        if i < k - 1 {
            if k % 2 == 0 {
                list.swap(i, k - 1);
            } else {
                list.swap(0, k - 1);
            }
        }
    }
}

/// the Leibniz sum in the documented order: `sum = sum + signature * (((1 * a[0,p0]) * a[1,p1]) …)`
fn ref_det<T: Elem>(n: usize, a: &[T]) -> T
where
    for<'a> &'a T: NumericRef<T>,
{
    if n == 1 {
        return a[0].clone();
    }
    let mut sum = T::zero();
    let mut even = true;
    let mut list: Vec<usize> = (0..n).collect();
    ref_heaps(n, &mut list, &mut |perm| {
        let signature = if even { T::one() } else { T::zero() - T::one() };
        let mut product = T::one();
        for (r, c) in perm.iter().enumerate() {
            product = product * &a[r * n + *c];
        }
        sum = sum.clone() + (signature * product);
        even = !even;
    });
    sum
}

fn ref_minor<T: Elem>(n: usize, a: &[T], i: usize, j: usize) -> T
where
    for<'a> &'a T: NumericRef<T>,
{
    let mut sub = Vec::with_capacity((n - 1) * (n - 1));
    for r in 0..n {
        for c in 0..n {
            if r != i && c != j {
                sub.push(a[r * n + c].clone());
            }
        }
    }
    ref_det::<T>(n - 1, &sub)
}

/// the analytic inverse in the documented order: `(sign * minor) * (1 / det)`, transposed
fn ref_inverse<T: Elem>(n: usize, a: &[T]) -> Option<Vec<T>>
where
    for<'a> &'a T: NumericRef<T>,
{
    if n == 1 {
        if a[0] == T::zero() {
            return None;
        }
        return Some(vec![T::one() / a[0].clone()]);
    }
    let det = ref_det::<T>(n, a);
    if det == T::zero() {
        return None;
    }
    let reciprocal = T::one() / det;
    let mut cof = Vec::with_capacity(n * n);
    for i in 0..n {
        for j in 0..n {
            let sign = if (i % 2 + j % 2) % 2 == 0 { T::one() } else { T::zero() - T::one() };
            cof.push(sign * ref_minor::<T>(n, a, i, j));
        }
    }
    let mut out = Vec::with_capacity(n * n);
    for i in 0..n {
        for j in 0..n {
            out.push(cof[j * n + i].clone() * reciprocal.clone());
        }
    }
    Some(out)
}

/// bit pattern of a float, all NaNs identified (payload and sign of a NaN are not specified)
fn canon(x: f64) -> String {
    if x.is_nan() { "nan".to_string() } else { format!("{:016x}", x.to_bits()) }
}

fn canon_opt(v: Option<Vec<f64>>) -> String {
    match v {
        Some(v) => format!("some({})", v.iter().map(|x| canon(*x)).collect::<Vec<_>>().join(",")),
        None => "none".to_string(),
    }
}

/// `*bits` questions: the implementation against the reference evaluation above
fn answer_bits(l: &Logical<f64>, op: &str, via: &str) -> String {
    let n = l.rows;
    let res = catch(|| {
        let (got, want) = match op {
            "mdbits" => (canon_opt(matrix_det::<f64>(via, l).map(|d| vec![d])), canon_opt(Some(vec![ref_det::<f64>(n, &l.data)]))),
            "tdbits" => (canon_opt(tensor_det::<f64>(via, l).map(|d| vec![d])), canon_opt(Some(vec![ref_det::<f64>(n, &l.data)]))),
            "mibits" => (
                canon_opt(matrix_inv::<f64>(via, l).map(|m| m.row_major_iter().collect())),
                canon_opt(ref_inverse::<f64>(n, &l.data)),
            ),
            "tibits" => {
                let got = match tensor_inv::<f64>(via, l) {
                    Some(t) => {
                        let names_kept = t.shape() == [(l.names[0], n), (l.names[1], n)];
                        if names_kept { canon_opt(Some(t.iter().collect())) } else { format!("wrong-shape({})", show_shape(&t.shape())) }
                    }
                    None => "none".to_string(),
                };
                (got, canon_opt(ref_inverse::<f64>(n, &l.data)))
            }
            other => return format!("bad-op {}", other),
        };
        if got == want { "agree".to_string() } else { format!("differ(impl={}|ref={})", got, want) }
    });
    match res {
        Ok(s) => s,
        Err(k) => panic_str(k),
    }
}

fn consumer_answer<T: Elem>(l: &Logical<T>, via: &str, consumer: &str) -> String
where
    for<'a> &'a T: NumericRef<T>,
{
    match catch(|| tensor_consumer::<T>(l, via, consumer)) {
        Ok(s) => s,
        Err(k) => panic_str(k),
    }
}

// ---------------------------------------------------------------------------------------------
// runner
// ---------------------------------------------------------------------------------------------

enum Case {
    None,
    Fp(Logical<Fp>),
    Rat(Logical<Rat>),
    I64(Logical<i64>),
    F64(Logical<f64>),
    F32(Logical<f32>),
    /// f64 given by bit patterns (special values); answered against the in-harness reference
    F64Bits(Logical<f64>),
}

pub struct Runner {
    case: Case,
}

impl Runner {
    pub fn new() -> Runner {
        Runner { case: Case::None }
    }

    pub fn step(&mut self, toks: &[&str]) -> String {
        if toks.is_empty() {
            return "bad-op".into();
        }
        if toks[0] == "@" {
            let shape = parse_shape(toks[2]);
            let names = [shape[0].0, shape[1].0];
            let (rows, cols) = (shape[0].1, shape[1].1);
            let ents = split_comma(toks[3]);
            assert_eq!(ents.len(), rows * cols);
            self.case = match toks[1] {
                "fp" => Case::Fp(Logical { names, rows, cols, data: ents.iter().map(|s| Fp::parse(s)).collect() }),
                "rat" => Case::Rat(Logical { names, rows, cols, data: ents.iter().map(|s| Rat::parse(s)).collect() }),
                "i64" => Case::I64(Logical { names, rows, cols, data: ents.iter().map(|s| <i64 as Elem>::parse(s)).collect() }),
                "f64b" => Case::F64Bits(Logical {
                    names, rows, cols,
                    data: ents.iter().map(|s| f64::from_bits(u64::from_str_radix(s, 16).expect("hex bits"))).collect(),
                }),
                "f64" | "f32" => {
                    // entries are the integer base; the matrix is base · 10^scale10 · 2^scale2
                    let k10: i32 = opt_arg("scale10", toks).map(|s| s.parse().expect("scale10")).unwrap_or(0);
                    let k2: i32 = opt_arg("scale2", toks).map(|s| s.parse().expect("scale2")).unwrap_or(0);
                    let base: Vec<i64> = ents.iter().map(|s| s.parse().expect("integer base")).collect();
                    if toks[1] == "f64" {
                        Case::F64(Logical { names, rows, cols, data: base.iter().map(|&b| f64::scaled(b, k10, k2)).collect() })
                    } else {
                        Case::F32(Logical { names, rows, cols, data: base.iter().map(|&b| f32::scaled(b, k10, k2)).collect() })
                    }
                }
                _ => return "bad-op".into(),
            };
            return "ok".into();
        }
        let via = opt_arg("via", toks).unwrap_or("flat/fn");
        match &self.case {
            Case::None => "no-case".into(),
            Case::Fp(l) if toks[0] == "tcons" => consumer_answer::<Fp>(l, via, opt_arg("use", toks).unwrap_or("")),
            Case::Rat(l) if toks[0] == "tcons" => consumer_answer::<Rat>(l, via, opt_arg("use", toks).unwrap_or("")),
            Case::I64(l) if toks[0] == "tcons" => consumer_answer::<i64>(l, via, opt_arg("use", toks).unwrap_or("")),
            Case::Fp(l) => answer::<Fp>(l, toks[0], via),
            Case::Rat(l) => answer::<Rat>(l, toks[0], via),
            Case::I64(l) => answer::<i64>(l, toks[0], via),
            Case::F64(l) => answer_approx::<f64>(l, toks[0], via),
            Case::F32(l) => answer_approx::<f32>(l, toks[0], via),
            Case::F64Bits(l) => answer_bits(l, toks[0], via),
        }
    }
}

// ---------------------------------------------------------------------------------------------
// generation
// ---------------------------------------------------------------------------------------------

const NAME_POOL: [&str; 8] = ["a", "b", "row", "column", "x", "y", "rows", "cols"];

/// rank of an integer matrix over Q by fraction-free elimination (generator statistics only)
fn rank_i128(rows: usize, cols: usize, data: &[i128]) -> usize {
    let mut m: Vec<Vec<i128>> = (0..rows).map(|i| data[i * cols..(i + 1) * cols].to_vec()).collect();
    let mut rank = 0;
    for c in 0..cols {
        if rank == rows {
            break;
        }
        let Some(p) = (rank..rows).find(|&i| m[i][c] != 0) else { continue };
        m.swap(rank, p);
        for i in rank + 1..rows {
            if m[i][c] != 0 {
                let (a, b) = (m[rank][c], m[i][c]);
                for j in 0..cols {
                    m[i][j] = m[i][j] * a - m[rank][j] * b;
                }
                // keep entries small
                let g = m[i].iter().fold(0i128, |g, &x| gcd(g, x));
                if g > 1 {
                    for j in 0..cols {
                        m[i][j] /= g;
                    }
                }
            }
        }
        rank += 1;
    }
    rank
}

fn gcd(a: i128, b: i128) -> i128 {
    let (mut a, mut b) = (a.abs(), b.abs());
    while b != 0 {
        let t = a % b;
        a = b;
        b = t;
    }
    a
}

fn rank_fp(rows: usize, cols: usize, data: &[Fp]) -> usize {
    let mut m: Vec<Vec<Fp>> = (0..rows).map(|i| data[i * cols..(i + 1) * cols].to_vec()).collect();
    let mut rank = 0;
    for c in 0..cols {
        if rank == rows {
            break;
        }
        let Some(p) = (rank..rows).find(|&i| m[i][c].0 != 0) else { continue };
        m.swap(rank, p);
        let inv = m[rank][c].inv();
        for i in rank + 1..rows {
            if m[i][c].0 != 0 {
                let f = &m[i][c] * &inv;
                for j in 0..cols {
                    m[i][j] = &m[i][j] - &(&f * &m[rank][j]);
                }
            }
        }
        rank += 1;
    }
    rank
}

struct Emit<'g> {
    g: &'g mut Gen,
    /// how many `via` variants per operation (all variants are visited round-robin over cases)
    tick: usize,
    /// dimension names of the next case, when a generator wants particular ones
    forced_names: Option<(&'static str, &'static str)>,
}

impl<'g> Emit<'g> {
    fn names(&mut self) -> (&'static str, &'static str) {
        if let Some(forced) = self.forced_names.take() {
            return forced;
        }
        if self.g.rng.chance(1, 2) {
            // names the library uses internally, prefixes of one another, the empty name …
            let v = adversarial_names(&mut self.g.rng, 2);
            self.g.count("names.adversarial");
            return (v[0], v[1]);
        }
        let i = self.g.rng.below(NAME_POOL.len());
        let mut j = self.g.rng.below(NAME_POOL.len() - 1);
        if j >= i {
            j += 1;
        }
        (NAME_POOL[i], NAME_POOL[j])
    }

    fn tensor_via(&mut self) -> String {
        self.tick += 1;
        let n_view = (VIEW_SOURCES.len() + VIEW_SOURCES_EXTRA.len()) * VIEW_CALLS.len();
        let k = self.tick % (n_view + TENSOR_DIRECT.len());
        if k < n_view {
            let s = k / VIEW_CALLS.len();
            let src = if s < VIEW_SOURCES.len() { VIEW_SOURCES[s] } else { VIEW_SOURCES_EXTRA[s - VIEW_SOURCES.len()] };
            format!("{}/{}", src, VIEW_CALLS[k % VIEW_CALLS.len()])
        } else {
            TENSOR_DIRECT[k - n_view].to_string()
        }
    }

    fn matrix_via(&mut self) -> String {
        self.tick += 1;
        let k = self.tick % (MATRIX_SOURCES.len() * MATRIX_CALLS.len());
        format!("{}/{}", MATRIX_SOURCES[k / MATRIX_CALLS.len()], MATRIX_CALLS[k % MATRIX_CALLS.len()])
    }

    /// one case: the matrix and the six questions
    fn case(&mut self, ty: &str, rows: usize, cols: usize, entries: &[String], kind: &str, rank: Option<usize>, all_ops: bool) {
        let (a, b) = self.names();
        self.g.op(format!("@ {} {}:{},{}:{} {}", ty, a, rows, b, cols, entries.join(",")));
        self.g.count(&format!("type.{}", ty));
        self.g.count(&format!("shape.{}x{}", rows, cols));
        self.g.count(&format!("kind.{}", kind));
        if rows == cols {
            match rank {
                Some(r) if r == rows => self.g.count(&format!("square.invertible.n={}", rows)),
                Some(r) => {
                    self.g.count(&format!("square.singular.n={}", rows));
                    self.g.count(&format!("square.singular.rank_deficit={}", rows - r));
                }
                None => {}
            }
        } else {
            self.g.count("nonsquare");
        }
        let ops: &[&str] = if all_ops {
            &["mdet", "tdet", "minv", "tinv", "mcheck", "tcheck"]
        } else {
            // rotate so that every operation is asked of a third of the cases
            match self.tick % 3 {
                0 => &["mdet", "tinv", "mcheck"],
                1 => &["tdet", "minv", "tcheck"],
                _ => &["mdet", "tdet", "minv", "tinv"],
            }
        };
        for op in ops {
            let via = if op.starts_with('m') { self.matrix_via() } else { self.tensor_via() };
            self.g.count(&format!("via.{}.{}", &op[..1], via));
            self.g.op(format!("{} via={}", op, via));
        }
    }

    /// a square case with extra tokens on the `@` line and an explicit list of questions;
    /// every question is asked through `reps` different presentations
    fn custom_case(&mut self, ty: &str, n: usize, ints: &[i128], opts: &str, kind: &str, ops: &[&str], reps: usize) {
        let (a, b) = self.names();
        let entries: Vec<String> = ints.iter().map(|x| x.to_string()).collect();
        let sep = if opts.is_empty() { "" } else { " " };
        self.g.op(format!("@ {} {}:{},{}:{} {}{}{}", ty, a, n, b, n, entries.join(","), sep, opts));
        self.g.count(&format!("type.{}", ty));
        self.g.count(&format!("shape.{}x{}", n, n));
        self.g.count(&format!("kind.{}", kind));
        for op in ops {
            for _ in 0..reps {
                let via = if op.starts_with('m') { self.matrix_via() } else { self.tensor_via() };
                self.g.count(&format!("via.{}.{}", &op[..1], via));
                self.g.op(format!("{} via={}", op, via));
            }
        }
    }

    fn int_case(&mut self, ty: &str, rows: usize, cols: usize, ints: &[i128], kind: &str, all_ops: bool) {
        let entries: Vec<String> = ints.iter().map(|x| x.to_string()).collect();
        let rank = rank_i128(rows, cols, ints);
        self.case(ty, rows, cols, &entries, kind, Some(rank), all_ops);
    }

    fn fp_case(&mut self, rows: usize, cols: usize, vals: &[Fp], kind: &str, all_ops: bool) {
        let entries: Vec<String> = vals.iter().map(|x| x.0.to_string()).collect();
        let rank = rank_fp(rows, cols, vals);
        self.case("fp", rows, cols, &entries, kind, Some(rank), all_ops);
    }
}

fn small_int(g: &mut Gen, bound: i128) -> i128 {
    g.rng.below((2 * bound + 1) as usize) as i128 - bound
}

fn random_fp(g: &mut Gen) -> Fp {
    Fp::new(g.rng.next() % P)
}

/// B (n×k) · C (k×n): rank ≤ k by construction
fn low_rank_int(g: &mut Gen, n: usize, k: usize, bound: i128) -> Vec<i128> {
    let b: Vec<i128> = (0..n * k).map(|_| small_int(g, bound)).collect();
    let c: Vec<i128> = (0..k * n).map(|_| small_int(g, bound)).collect();
    let mut out = vec![0i128; n * n];
    for i in 0..n {
        for j in 0..n {
            out[i * n + j] = (0..k).map(|t| b[i * k + t] * c[t * n + j]).sum();
        }
    }
    out
}

fn low_rank_fp(g: &mut Gen, n: usize, k: usize) -> Vec<Fp> {
    let b: Vec<Fp> = (0..n * k).map(|_| random_fp(g)).collect();
    let c: Vec<Fp> = (0..k * n).map(|_| random_fp(g)).collect();
    let mut out = vec![];
    for i in 0..n {
        for j in 0..n {
            let mut s = Fp(0);
            for t in 0..k {
                s = s + &b[i * k + t] * &c[t * n + j];
            }
            out.push(s);
        }
    }
    out
}

/// strictly diagonally dominant integer matrix: invertible with a small condition number
fn dominant_int(g: &mut Gen, n: usize) -> Vec<i128> {
    let mut m = vec![0i128; n * n];
    for i in 0..n {
        for j in 0..n {
            m[i * n + j] = if i == j {
                let d = (n as i128 + 1).max(4) + g.rng.below(4) as i128;
                if g.rng.chance(1, 3) { -d } else { d }
            } else {
                small_int(g, 1)
            };
        }
    }
    m
}

fn float_cases(e: &mut Emit, thorough: bool) {
    let bases_per = if thorough { 6 } else { 2 };
    for ty in ["f64", "f32"] {
        for n in 2..=4usize {
            // keep det = 10^(n·k)·det(base) and the entries of the inverse inside the type's range
            let kmax: i32 = if ty == "f64" { 30 } else { (30 / n as i32).min(12) };
            let ks: Vec<i32> = [0, 1, 2, 3, 4, 5, 6, 7, 8, 9, 10, 12, 14, 16, 18, 20, 24, 27, 30]
                .iter().cloned().filter(|&k| k <= kmax).collect();
            for &k in &ks {
                for sign in [-1i32, 1] {
                    if k == 0 && sign == 1 {
                        continue;
                    }
                    for b in 0..bases_per {
                        let ints: Vec<i128> = if n == 2 && b == 0 { vec![2, 1, 1, 3] } else { dominant_int(e.g, n) };
                        let opts = format!("scale10={}", sign * k);
                        e.g.count(&format!("float.{}.scale10={}{}", ty, if sign < 0 { "-" } else { "+" }, k));
                        e.custom_case(ty, n, &ints, &opts, "float_scaled_well_conditioned", &["mcheck", "tcheck"], if b == 0 { 3 } else { 1 });
                    }
                }
            }
            // exactly singular: a duplicated (or negated, or zero) row / column of small integers,
            // scaled by a power of two, so every product and partial sum is exact and det is 0.0
            for round in 0..(if thorough { 40 } else { 10 }) {
                let mut ints: Vec<i128> = (0..n * n).map(|_| small_int(e.g, 9)).collect();
                let (r1, mut r2) = (e.g.rng.below(n), e.g.rng.below(n - 1));
                if r2 >= r1 {
                    r2 += 1;
                }
                match round % 4 {
                    0 => (0..n).for_each(|j| ints[r2 * n + j] = ints[r1 * n + j]),
                    1 => (0..n).for_each(|j| ints[r2 * n + j] = -ints[r1 * n + j]),
                    2 => (0..n).for_each(|i| ints[i * n + r2] = ints[i * n + r1]),
                    _ => (0..n).for_each(|j| ints[r1 * n + j] = 0),
                }
                let k2max = if ty == "f64" { 40 } else { 20 };
                let k2 = e.g.rng.below(2 * k2max + 1) as i32 - k2max as i32;
                e.custom_case(ty, n, &ints, &format!("scale2={}", k2), "float_exactly_singular", &["mcheck", "tcheck", "minv", "tinv"], 1);
            }
        }
        // the property's largest sizes, moderately scaled
        for n in 5..=6usize {
            for &k in &[-3i32, 3, if ty == "f64" { -9 } else { -4 }] {
                let ints = dominant_int(e.g, n);
                e.custom_case(ty, n, &ints, &format!("scale10={}", k), "float_scaled_well_conditioned", &["mcheck", "tcheck"], 1);
            }
        }
    }
}

/// a random product of elementary integer row operations applied to the identity: det = ±1
fn unimodular(g: &mut Gen, n: usize) -> Vec<i128> {
    let mut m = vec![0i128; n * n];
    for i in 0..n {
        m[i * n + i] = 1;
    }
    if n == 1 {
        if g.rng.chance(1, 2) {
            m[0] = -1;
        }
        return m;
    }
    for _ in 0..(3 * n) {
        let (r1, mut r2) = (g.rng.below(n), g.rng.below(n - 1));
        if r2 >= r1 {
            r2 += 1;
        }
        match g.rng.below(4) {
            0 => (0..n).for_each(|j| m.swap(r1 * n + j, r2 * n + j)),
            1 => (0..n).for_each(|j| m[r1 * n + j] = -m[r1 * n + j]),
            _ => {
                let c = small_int(g, 2);
                let fits = (0..n).all(|j| (m[r2 * n + j] + c * m[r1 * n + j]).abs() <= 30);
                if fits {
                    (0..n).for_each(|j| m[r2 * n + j] += c * m[r1 * n + j]);
                }
            }
        }
    }
    m
}

fn integer_cases(e: &mut Emit, max_n: usize) {
    for n in 1..=max_n {
        for round in 0..12 {
            let ints = unimodular(e.g, n);
            e.custom_case("i64", n, &ints, "", "i64_unimodular", &["mdet", "tdet", "minv", "tinv", "mcheck", "tcheck"], 1);
            // general integer matrix: the determinant is exact, the inverse is not asked
            let ints: Vec<i128> = (0..n * n).map(|_| small_int(e.g, 9)).collect();
            e.custom_case("i64", n, &ints, "", "i64_general_det", &["mdet", "tdet"], 1);
            if n >= 2 && round % 3 == 0 {
                let ints = low_rank_int(e.g, n, n - 1, 3);
                e.custom_case("i64", n, &ints, "", "i64_singular", &["mdet", "tdet", "minv", "tinv", "mcheck", "tcheck"], 1);
            }
        }
    }
}

/// structured / degenerate integer matrices of size `n` with a label each
fn degenerate_ints(g: &mut Gen, n: usize) -> Vec<(&'static str, Vec<i128>)> {
    let nz = |g: &mut Gen| -> i128 {
        let v = small_int(g, 8);
        if v == 0 { 3 } else { v }
    };
    let mut out: Vec<(&'static str, Vec<i128>)> = vec![];
    let ident: Vec<i128> = (0..n * n).map(|k| if k / n == k % n { 1 } else { 0 }).collect();
    out.push(("identity", ident.clone()));
    out.push(("minus_identity", ident.iter().map(|x| -x).collect()));
    out.push(("zero_matrix", vec![0; n * n]));
    let mut diag = vec![0i128; n * n];
    (0..n).for_each(|i| diag[i * n + i] = nz(g));
    out.push(("diagonal", diag.clone()));
    let mut d0 = diag.clone();
    let z = g.rng.below(n);
    d0[z * n + z] = 0;
    out.push(("diagonal_with_zero", d0));
    for upper in [true, false] {
        let mut t = vec![0i128; n * n];
        for i in 0..n {
            for j in 0..n {
                if i == j {
                    t[i * n + j] = if g.rng.chance(1, 2) { 1 } else { -1 };
                } else if (upper && j > i) || (!upper && j < i) {
                    t[i * n + j] = small_int(g, 5);
                }
            }
        }
        out.push((if upper { "unit_upper_triangular" } else { "unit_lower_triangular" }, t));
    }
    for c in [1i128, 7, -2] {
        out.push(("all_equal_entries", vec![c; n * n]));
    }
    let mut single = vec![0i128; n * n];
    let at = g.rng.below(n * n);
    single[at] = nz(g);
    out.push(("single_nonzero_entry", single));
    // zeros on the whole diagonal, yet invertible: a weighted cyclic shift
    if n >= 2 {
        let mut shift = vec![0i128; n * n];
        (0..n).for_each(|i| shift[i * n + (i + 1) % n] = nz(g));
        out.push(("zero_diagonal_invertible", shift.clone()));
        if n >= 3 {
            // … plus further off-diagonal entries
            let mut more = shift.clone();
            for i in 0..n {
                for j in 0..n {
                    if i != j && more[i * n + j] == 0 && g.rng.chance(1, 2) {
                        more[i * n + j] = small_int(g, 3);
                    }
                }
            }
            out.push(("zero_diagonal_dense", more));
        }
    }
    out.push(("unimodular", unimodular(g, n)));
    let mut ji: Vec<i128> = vec![1; n * n];
    (0..n).for_each(|i| ji[i * n + i] = 2);
    out.push(("ones_plus_identity", ji));
    out.push(("zero_one_entries", (0..n * n).map(|_| g.rng.below(2) as i128).collect()));
    let rowc: Vec<i128> = (0..n).map(|_| nz(g)).collect();
    out.push(("constant_rows", (0..n * n).map(|k| rowc[k / n]).collect()));
    out.push(("constant_columns", (0..n * n).map(|k| rowc[k % n]).collect()));
    if n >= 2 {
        let base: Vec<i128> = (0..n * n).map(|_| nz(g)).collect();
        let (r1, mut r2) = (g.rng.below(n), g.rng.below(n - 1));
        if r2 >= r1 {
            r2 += 1;
        }
        let mut m = base.clone();
        (0..n).for_each(|j| m[r1 * n + j] = 0);
        out.push(("zero_row", m));
        let mut m = base.clone();
        (0..n).for_each(|i| m[i * n + r1] = 0);
        out.push(("zero_column", m));
        let mut m = base.clone();
        (0..n).for_each(|j| m[r2 * n + j] = m[r1 * n + j]);
        out.push(("two_equal_rows", m));
        let mut m = base.clone();
        (0..n).for_each(|i| m[i * n + r2] = m[i * n + r1]);
        out.push(("two_equal_columns", m));
        let mut m = base.clone();
        (0..n).for_each(|j| m[r2 * n + j] = 3 * m[r1 * n + j]);
        out.push(("proportional_rows", m));
        let mut m = base.clone();
        (0..n).for_each(|j| m[r2 * n + j] = -m[r1 * n + j]);
        out.push(("negated_row", m));
        // neighbours equal along every row except one entry
        let mut m: Vec<i128> = (0..n * n).map(|k| rowc[k / n]).collect();
        let at = g.rng.below(n * n);
        m[at] += 1;
        out.push(("equal_neighbours_but_one", m));
    }
    out
}

fn f64_bits_case(e: &mut Emit, n: usize, vals: &[f64], kind: &str) {
    let (a, b) = e.names();
    let ents: Vec<String> = vals.iter().map(|x| format!("{:016x}", x.to_bits())).collect();
    e.g.op(format!("@ f64b {}:{},{}:{} {}", a, n, b, n, ents.join(",")));
    e.g.count("type.f64b");
    e.g.count(&format!("shape.{}x{}", n, n));
    e.g.count(&format!("kind.{}", kind));
    for op in ["mdbits", "tdbits", "mibits", "tibits"] {
        let via = if op.starts_with('m') { e.matrix_via() } else { e.tensor_via() };
        e.g.count(&format!("via.{}.{}", &op[..1], via));
        e.g.op(format!("{} via={}", op, via));
    }
}

fn degenerate_cases(e: &mut Emit, max_n: usize) {
    for n in 1..=max_n {
        for (label, ints) in degenerate_ints(e.g, n) {
            let kind = format!("degenerate.{}", label);
            e.int_case("rat", n, n, &ints, &kind, n <= 4);
            e.int_case("fp", n, n, &ints, &kind, n <= 4);
            let vals: Vec<f64> = ints.iter().map(|&x| x as f64).collect();
            f64_bits_case(e, n, &vals, &kind);
        }
    }
}

fn special_float_cases(e: &mut Emit, thorough: bool) {
    let sub = f64::from_bits(1);
    let specials: [(&str, f64); 12] = [
        ("pos_zero", 0.0), ("neg_zero", -0.0), ("pos_inf", f64::INFINITY), ("neg_inf", f64::NEG_INFINITY),
        ("nan", f64::NAN), ("min_subnormal", sub), ("neg_min_subnormal", -sub),
        ("subnormal", f64::MIN_POSITIVE / 2.0), ("min_positive", f64::MIN_POSITIVE), ("max", f64::MAX),
        ("one", 1.0), ("minus_one", -1.0),
    ];
    // 1x1: the special value alone (0.0 and -0.0 have no inverse)
    for (name, v) in specials.iter() {
        f64_bits_case(e, 1, &[*v], &format!("special1x1.{}", name));
    }
    // each special value in each position of small matrices
    for n in 2..=3usize {
        let mut bases: Vec<Vec<f64>> = vec![
            (0..n * n).map(|k| if k / n == k % n { 1.0 } else { 0.0 }).collect(),
            vec![1.0; n * n],
        ];
        for _ in 0..(if thorough { 4 } else { 2 }) {
            bases.push((0..n * n).map(|_| { let v = small_int(e.g, 6); (if v == 0 { 2 } else { v }) as f64 }).collect());
        }
        for base in &bases {
            for at in 0..n * n {
                for (name, v) in specials.iter() {
                    let mut m = base.clone();
                    m[at] = *v;
                    f64_bits_case(e, n, &m, &format!("special_in_position.{}", name));
                }
            }
        }
    }
    // two special values at random positions (a zero next to an infinity is where a
    // "skip the zero factor" shortcut shows), sizes 2..4
    let pairs = if thorough { 400 } else { 120 };
    for _ in 0..pairs {
        let n = e.g.rng.range(2, 4);
        let mut m: Vec<f64> = (0..n * n).map(|_| small_int(e.g, 4) as f64).collect();
        let (p, mut q) = (e.g.rng.below(n * n), e.g.rng.below(n * n - 1));
        if q >= p {
            q += 1;
        }
        m[p] = specials[e.g.rng.below(4)].1; // ±0, ±inf
        m[q] = specials[2 + e.g.rng.below(5)].1; // ±inf, NaN, subnormals
        f64_bits_case(e, n, &m, "special_pair");
    }
    // ordinary full-mantissa values: ties the reference evaluation to the library on plain data
    for n in 1..=5usize {
        for _ in 0..(if thorough { 30 } else { 8 }) {
            let m: Vec<f64> = (0..n * n)
                .map(|_| (e.g.rng.next() >> 11) as f64 / (1u64 << 53) as f64 * 8.0 - 4.0)
                .collect();
            f64_bits_case(e, n, &m, "ordinary_f64");
        }
    }
}

/// Every way an input can reach `determinant*` / `inverse*` (the public functions are
/// `linear_algebra::{determinant, determinant_tensor, inverse, inverse_tensor}`,
/// `Matrix::{determinant, inverse}`, `Tensor::{determinant, inverse}`, `TensorView::{determinant,
/// inverse}`; `MatrixView` has none) × every wrapper / forwarder form of the input, on square and
/// non-square shapes: non-square is `none` through every route.
fn surface_cases(e: &mut Emit) {
    for route in SURFACE_NOT_DRIVEN {
        e.g.count(&format!("surface.not_driven.{}", route));
    }
    let shapes: [(usize, usize); 12] =
        [(1, 1), (2, 2), (3, 3), (4, 4), (2, 3), (3, 2), (1, 2), (2, 1), (1, 4), (4, 1), (3, 4), (4, 3)];
    for (r, c) in shapes {
        let variants = if r == c { 2 } else { 1 };
        for variant in 0..variants {
            let ints: Vec<i128> = if r == c {
                if variant == 0 { dominant_int(e.g, r) } else if r == 1 { vec![0] } else { low_rank_int(e.g, r, r - 1, 3) }
            } else {
                (0..r * c).map(|_| { let v = small_int(e.g, 7); if v == 0 { 1 } else { v } }).collect()
            };
            let entries: Vec<String> = ints.iter().map(|x| x.to_string()).collect();
            for (k, ty) in ["rat", "fp"].iter().enumerate() {
                let (a, b) = e.names();
                e.g.op(format!("@ {} {}:{},{}:{} {}", ty, a, r, b, c, entries.join(",")));
                e.g.count(&format!("type.{}", ty));
                e.g.count(&format!("shape.{}x{}", r, c));
                e.g.count(if r == c { "kind.surface_square" } else { "kind.surface_nonsquare" });
                for (i, src) in SURFACE_SOURCES.iter().enumerate() {
                    let call = VIEW_CALLS[(i + k + variant + r + c) % VIEW_CALLS.len()];
                    for op in ["tdet", "tinv"] {
                        e.g.count(&format!("surface.driven.{}", src));
                        e.g.op(format!("{} via={}/{}", op, src, call));
                    }
                }
                // the Matrix functions (they take `&Matrix` only) and the bare-Tensor forms
                for via in ["flat/fn", "flat/method"] {
                    e.g.count("surface.driven.Matrix");
                    e.g.op(format!("mdet via={}", via));
                    e.g.op(format!("minv via={}", via));
                }
                for via in TENSOR_DIRECT {
                    e.g.count("surface.driven.Tensor_direct");
                    e.g.op(format!("tdet via={}", via));
                    e.g.op(format!("tinv via={}", via));
                }
            }
            // `TensorRefMatrix::from`: fixed names "row", "column"
            e.forced_names = Some(("row", "column"));
            let (a, b) = e.names();
            e.g.op(format!("@ rat {}:{},{}:{} {}", a, r, b, c, entries.join(",")));
            e.g.count("surface.driven.m_rowcol");
            for call in VIEW_CALLS {
                e.g.op(format!("tdet via=m_rowcol/{}", call));
                e.g.op(format!("tinv via=m_rowcol/{}", call));
            }
        }
    }
}

fn consumer_cases(e: &mut Emit, max_n: usize) {
    for n in 1..=max_n {
        for round in 0..6 {
            // non-symmetric with a non-symmetric inverse (so a transposed buffer is visible)
            let (ty, ints): (&str, Vec<i128>) = match round % 3 {
                0 => ("rat", dominant_int(e.g, n)),
                1 => ("fp", dominant_int(e.g, n)),
                _ => ("i64", unimodular(e.g, n)),
            };
            let (a, b) = e.names();
            let entries: Vec<String> = ints.iter().map(|x| x.to_string()).collect();
            e.g.op(format!("@ {} {}:{},{}:{} {}", ty, a, n, b, n, entries.join(",")));
            e.g.count(&format!("type.{}", ty));
            e.g.count(&format!("shape.{}x{}", n, n));
            e.g.count("kind.tensor_inverse_consumers");
            for consumer in CONSUMERS {
                if consumer == "iter_owned" && ty != "i64" {
                    continue;
                }
                let via = e.tensor_via();
                e.g.count(&format!("consumer.{}", consumer));
                e.g.count(&format!("via.t.{}", via));
                e.g.op(format!("tcons use={} via={}", consumer, via));
            }
        }
    }
    // a singular input: every consumer question is `none`
    let ints = low_rank_int(e.g, 3, 2, 3);
    e.custom_case("rat", 3, &ints, "", "tensor_inverse_consumers", &[], 0);
    for consumer in CONSUMERS {
        if consumer == "iter_owned" {
            continue;
        }
        let via = e.tensor_via();
        e.g.op(format!("tcons use={} via={}", consumer, via));
    }
}

/// adversarial dimension names: the determinant/inverse are positional whatever the names say,
/// and the inverse carries the input's names in the input's order
fn name_cases(e: &mut Emit) {
    let fixed: [(&str, &str); 12] = [
        ("column", "row"), ("row", "column"), ("c", "r"), ("r", "c"), ("j", "i"), ("rows", "row"),
        ("row", "rows"), (EMPTY_NAME, "x"), ("x", EMPTY_NAME), ("features", "samples"), ("aa", "a"), ("z", "a"),
    ];
    let mut pairs: Vec<(&'static str, &'static str)> = fixed.iter().map(|(a, b)| (wire_name(a), wire_name(b))).collect();
    for _ in 0..12 {
        let v = adversarial_names(&mut e.g.rng, 2);
        pairs.push((v[0], v[1]));
    }
    for (a, b) in pairs {
        for n in 2..=3usize {
            // non-symmetric, invertible
            let ints = dominant_int(e.g, n);
            for ty in ["rat", "fp"] {
                e.forced_names = Some((a, b));
                e.g.count("names.adversarial_fixed");
                e.custom_case(ty, n, &ints, "", "adversarial_names", &["tdet", "tinv", "tcheck"], 5);
            }
            e.forced_names = Some((a, b));
            let vals: Vec<f64> = ints.iter().map(|&x| x as f64 * 0.37).collect();
            f64_bits_case(e, n, &vals, "adversarial_names");
        }
    }
}

pub fn gen(g: &mut Gen) {
    let thorough = g.thorough;
    let max_n = if thorough { 6 } else { 5 };
    let mut e = Emit { g, tick: 0, forced_names: None };

    // --- every permutation matrix (each exercises one Leibniz term and its parity flag) ---
    for n in 1..=max_n {
        for (idx, perm) in permutations(n).into_iter().enumerate() {
            let mut ints = vec![0i128; n * n];
            for (i, &p) in perm.iter().enumerate() {
                ints[i * n + p] = 1;
            }
            let ty = if idx % 2 == 0 { "rat" } else { "fp" };
            e.int_case(ty, n, n, &ints, "permutation_matrix", n <= 3);
            // a scaled non-symmetric variant: distinct weights on the ones
            let mut w = ints.clone();
            for (i, &p) in perm.iter().enumerate() {
                w[i * n + p] = (i as i128) + 2;
            }
            let ty = if idx % 2 == 0 { "fp" } else { "rat" };
            e.int_case(ty, n, n, &w, "weighted_permutation_matrix", false);
        }
    }

    // --- quick tier: a small sample of size 6 (the full sweep of size 6 is in the thorough tier) ---
    if !thorough {
        for round in 0..24 {
            let n = 6;
            let mut perm: Vec<usize> = (0..n).collect();
            if round > 0 {
                e.g.rng.shuffle(&mut perm);
            }
            let mut ints = vec![0i128; n * n];
            for (i, &p) in perm.iter().enumerate() {
                ints[i * n + p] = if round % 2 == 0 { 1 } else { (i as i128) + 2 };
            }
            if round % 4 == 3 {
                // fill the rest sparsely so that several Leibniz terms contribute
                for _ in 0..6 {
                    let at = e.g.rng.below(n * n);
                    ints[at] += small_int(e.g, 3);
                }
            }
            e.int_case(if round % 2 == 0 { "rat" } else { "fp" }, n, n, &ints, "size6_sample", false);
        }
    }

    // --- exhaustive 2x2 over {-1,0,1,2}, both element types, all six questions ---
    let vals2 = [-1i128, 0, 1, 2];
    for code in 0..256usize {
        let ints: Vec<i128> = (0..4).map(|k| vals2[(code >> (2 * k)) & 3]).collect();
        e.int_case("rat", 2, 2, &ints, "exhaustive2x2", true);
        e.int_case("fp", 2, 2, &ints, "exhaustive2x2", true);
    }

    // --- exhaustive 3x3 over {-1,0,1}, both element types ---
    let mut code = vec![0usize; 9];
    loop {
        let ints: Vec<i128> = code.iter().map(|&d| d as i128 - 1).collect();
        e.int_case("rat", 3, 3, &ints, "exhaustive3x3", false);
        e.int_case("fp", 3, 3, &ints, "exhaustive3x3", false);
        let mut k = 0;
        while k < 9 {
            code[k] += 1;
            if code[k] < 3 {
                break;
            }
            code[k] = 0;
            k += 1;
        }
        if k == 9 {
            break;
        }
    }

    // --- random square matrices, sizes 1..max_n ---
    let per_size = if thorough { 1200 } else { 240 };
    for n in 1..=max_n {
        for round in 0..per_size {
            let kind = round % 8;
            match kind {
                0 => {
                    let ints: Vec<i128> = (0..n * n).map(|_| small_int(e.g, 9)).collect();
                    e.int_case("rat", n, n, &ints, "random_small", n <= 2);
                }
                1 => {
                    let vals: Vec<Fp> = (0..n * n).map(|_| random_fp(e.g)).collect();
                    e.fp_case(n, n, &vals, "random_field", n <= 2);
                }
                2 => {
                    // rank-deficient by construction (rank ≤ k < n), rationals
                    let k = if n == 1 { 0 } else { e.g.rng.range(if n > 2 { n - 2 } else { 1 }, n - 1) };
                    let ints = if n == 1 { vec![0] } else { low_rank_int(e.g, n, k, 3) };
                    e.int_case("rat", n, n, &ints, "low_rank", false);
                }
                3 => {
                    // rank-deficient by construction over the prime field (entries are full-size)
                    let k = if n == 1 { 0 } else { e.g.rng.range(if n > 2 { n - 2 } else { 1 }, n - 1) };
                    let vals = if n == 1 { vec![Fp(0)] } else { low_rank_fp(e.g, n, k) };
                    e.fp_case(n, n, &vals, "low_rank", false);
                }
                4 => {
                    // near-singular: a rank n-1 matrix with one entry moved by one
                    let mut ints = if n == 1 { vec![0] } else { low_rank_int(e.g, n, n - 1, 3) };
                    let at = e.g.rng.below(n * n);
                    ints[at] += if e.g.rng.chance(1, 2) { 1 } else { -1 };
                    e.int_case("rat", n, n, &ints, "near_singular", false);
                }
                5 => {
                    let mut vals = if n == 1 { vec![Fp(0)] } else { low_rank_fp(e.g, n, n - 1) };
                    let at = e.g.rng.below(n * n);
                    vals[at] = &vals[at] + &Fp(1);
                    e.fp_case(n, n, &vals, "near_singular", false);
                }
                6 => {
                    // duplicated / proportional rows or a zero column in an otherwise random matrix
                    let mut ints: Vec<i128> = (0..n * n).map(|_| small_int(e.g, 5)).collect();
                    if n >= 2 {
                        let (r1, mut r2) = (e.g.rng.below(n), e.g.rng.below(n - 1));
                        if r2 >= r1 {
                            r2 += 1;
                        }
                        match e.g.rng.below(3) {
                            0 => (0..n).for_each(|j| ints[r2 * n + j] = ints[r1 * n + j]),
                            1 => (0..n).for_each(|j| ints[r2 * n + j] = -2 * ints[r1 * n + j]),
                            _ => (0..n).for_each(|i| ints[i * n + r1] = 0),
                        }
                    }
                    let ty = if e.g.rng.chance(1, 2) { "rat" } else { "fp" };
                    e.int_case(ty, n, n, &ints, "dependent_rows", false);
                }
                _ => {
                    // triangular with a random diagonal (zero on the diagonal now and then)
                    let upper = e.g.rng.chance(1, 2);
                    let mut ints = vec![0i128; n * n];
                    for i in 0..n {
                        for j in 0..n {
                            if i == j || (upper && j > i) || (!upper && j < i) {
                                ints[i * n + j] = small_int(e.g, 4);
                            }
                        }
                    }
                    let ty = if e.g.rng.chance(1, 2) { "rat" } else { "fp" };
                    e.int_case(ty, n, n, &ints, "triangular", false);
                }
            }
        }
    }

    // --- floats: the implementation against the specification itself (never against the model's
    //     values): a well-conditioned matrix scaled by 10^±k has an inverse, and both products with
    //     the input are the identity to rounding accuracy; an exactly singular one has none ---
    float_cases(&mut e, thorough);

    // --- i64: everything is exact; inverses only of unimodular matrices (integer `1 / det`) ---
    integer_cases(&mut e, max_n);

    // --- degenerate data (zeros, ones, equal neighbours, exact ±1/0 determinants) in the exact
    //     types against the model, and the same matrices plus ±0.0/±inf/NaN/subnormals in f64
    //     against the documented operation order evaluated in the harness, bit for bit ---
    degenerate_cases(&mut e, max_n);
    special_float_cases(&mut e, thorough);
    // --- the tensor inverse seen through the library's other consumers (raw conversion to a
    //     matrix, elementwise operations, operators with a plain tensor, reshape, Display, owned
    //     iteration …): each must show what the Matrix entry point / the model's buffer shows ---
    consumer_cases(&mut e, max_n.min(5));
    // --- entry-point surface: every wrapper form × every public determinant / inverse function ---
    surface_cases(&mut e);
    // --- adversarial dimension names on the tensor entry points ---
    name_cases(&mut e);

    // --- non-square shapes: everything is absent ---
    let shapes: Vec<(usize, usize)> = {
        let mut v = vec![];
        for r in 1..=(max_n + 1) {
            for c in 1..=(max_n + 1) {
                if r != c {
                    v.push((r, c));
                }
            }
        }
        v
    };
    for (r, c) in shapes {
        let ints: Vec<i128> = (0..r * c).map(|_| small_int(e.g, 9)).collect();
        e.int_case("rat", r, c, &ints, "nonsquare", true);
        let vals: Vec<Fp> = (0..r * c).map(|_| random_fp(e.g)).collect();
        e.fp_case(r, c, &vals, "nonsquare", true);
    }
}
