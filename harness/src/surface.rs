//! "API surface" section shared by C01 and C13: every public way of reading / writing the
//! elements of a tensor seen through a `TensorAccess` (`kind = a`), a `TensorTranspose`
//! (`kind = x`) or directly (`kind = t`) — inherent methods, the `TensorRef` / `TensorMut` trait
//! methods called *through the trait* (generic function, `Box<dyn …>`), the four iterator
//! flavours and their `WithIndex` forms (via `.with_index()` and via `From`), `Clone`,
//! `From`/`Into` conversions into `TensorView`, `PartialEq`, `Display`.
//!
//!   sread  <kind> <names> route=<r>   the view's content read through route r  → shape=… data=…
//!   swrite <kind> <names> route=<r>   (idx, x) ↦ 1000x + code idx (x ↦ 3x+1 for route map_mut)
//!                                     written to every cell through route r; then the view's
//!                                     content read back through the checked getter of a freshly
//!                                     built view                                → shape=… data=…
//!
//! The model's answer does not depend on the route.  See lean/Driver/Surface.lean.

use crate::util::*;
use easy_ml::tensors::indexing::{
    TensorAccess, TensorIterator, TensorOwnedIterator, TensorReferenceIterator,
    TensorReferenceMutIterator, TensorTranspose, WithIndex,
};
use easy_ml::tensors::views::{TensorMut, TensorRef, TensorView};
use easy_ml::tensors::Tensor;
use std::iter::FusedIterator;

pub const READ_ROUTES: [&str; 25] = [
    "source_order", "mut_iter", "from_into",
    "get_ref", "try_get_reference", "trait_ref", "trait_ref_unchecked", "dyn_ref", "trait_mut",
    "trait_mut_unchecked", "dyn_mut", "ref_of_ref", "iter", "iter_reference", "iter_wi",
    "iter_wi_from", "ref_wi", "ref_wi_from", "mut_wi", "mut_wi_from", "owned", "owned_wi",
    "owned_wi_from", "view_index", "clone_eq_display",
];
pub const WRITE_ROUTES: [&str; 14] = [
    "inherent_iter_mut", "view_source_ref_mut",
    "map_mut_with_index", "map_mut", "view_map_mut_with_index", "iter_mut_wi", "iter_mut_wi_from",
    "trait_mut", "trait_mut_unchecked", "dyn_mut", "mut_ref_trait", "view_index_mut",
    "view_index_by_mut", "get_ref_mut",
];

fn code(idx: &[usize]) -> u64 {
    idx.iter().fold(0u64, |acc, &i| acc * 7 + i as u64 + 1)
}
fn mapi_f(idx: &[usize], x: u64) -> u64 {
    1000 * x + code(idx)
}
fn map_f(x: u64) -> u64 {
    3 * x + 1
}

fn own_indexes(lens: &[usize]) -> Vec<Vec<usize>> {
    let mut out: Vec<Vec<usize>> = vec![vec![]];
    for &l in lens {
        let mut next = Vec::with_capacity(out.len() * l);
        for prefix in &out {
            for c in 0..l {
                let mut p = prefix.clone();
                p.push(c);
                next.push(p);
            }
        }
        out = next;
    }
    out
}

fn ravel(lens: &[usize], idx: &[usize]) -> Option<usize> {
    let mut o = 0;
    for d in 0..lens.len() {
        if idx[d] >= lens[d] {
            return None;
        }
        o = o * lens[d] + idx[d];
    }
    Some(o)
}

fn show_data(v: &[u64]) -> String {
    if v.is_empty() { "-".to_string() } else { v.iter().map(|x| x.to_string()).collect::<Vec<_>>().join(",") }
}

fn show_val(shape: &[(&'static str, usize)], data: &[u64]) -> String {
    format!("shape={} data={}", show_shape(shape), show_data(data))
}

/// (index, value) pairs → row-major data; every index exactly once and in bounds
fn assemble<const D: usize>(shape: [(&'static str, usize); D], pairs: Vec<([usize; D], u64)>) -> String {
    let lens: Vec<usize> = shape.iter().map(|d| d.1).collect();
    let n: usize = lens.iter().product();
    let mut data: Vec<Option<u64>> = vec![None; n];
    for (k, (idx, v)) in pairs.iter().enumerate() {
        match ravel(&lens, idx) {
            Some(o) if data[o].is_none() => {
                // the iterators promise row-major order of the view's shape
                if o != k {
                    return format!("index-out-of-order position={} index={}", k, show_usizes(idx));
                }
                data[o] = Some(*v)
            }
            Some(_) => return format!("index-repeated index={}", show_usizes(idx)),
            None => return format!("index-out-of-bounds index={}", show_usizes(idx)),
        }
    }
    if data.iter().any(|x| x.is_none()) {
        return "index-missing".into();
    }
    show_val(&shape, &data.iter().map(|x| x.unwrap()).collect::<Vec<u64>>())
}

/// drains an iterator checking the ExactSizeIterator / FusedIterator contracts on the way
fn drain<I: Iterator + ExactSizeIterator + FusedIterator>(mut it: I) -> Result<Vec<I::Item>, String> {
    let mut out = vec![];
    let mut remaining = it.len();
    loop {
        if it.size_hint() != (remaining, Some(remaining)) {
            return Err(format!("size_hint-wrong at={}", out.len()));
        }
        match it.next() {
            Some(x) => {
                if remaining == 0 {
                    return Err("len-too-small".into());
                }
                remaining -= 1;
                out.push(x);
            }
            None => break,
        }
    }
    if remaining != 0 {
        return Err("len-too-large".into());
    }
    if it.next().is_some() || it.next().is_some() {
        return Err("not-fused".into());
    }
    Ok(out)
}

fn by_trait_ref<S: TensorRef<u64, D>, const D: usize>(s: &S, unchecked: bool) -> String {
    let shape = s.view_shape();
    let lens: Vec<usize> = shape.iter().map(|d| d.1).collect();
    let mut data = vec![];
    for idx in own_indexes(&lens) {
        let a: [usize; D] = to_array(&idx);
        if unchecked {
            data.push(unsafe { *s.get_reference_unchecked(a) });
        } else {
            match s.get_reference(a) {
                Some(x) => data.push(*x),
                None => return format!("missing-element-at={}", show_usizes(&idx)),
            }
        }
    }
    // one past the end in every dimension must be absent
    for d in 0..D {
        let mut a = [0usize; D];
        a[d] = lens[d];
        if s.get_reference(a).is_some() {
            return format!("present-out-of-bounds dimension={}", d);
        }
    }
    show_val(&shape, &data)
}

fn by_trait_mut<S: TensorMut<u64, D>, const D: usize>(s: &mut S, unchecked: bool) -> String {
    let shape = s.view_shape();
    let lens: Vec<usize> = shape.iter().map(|d| d.1).collect();
    let mut data = vec![];
    for idx in own_indexes(&lens) {
        let a: [usize; D] = to_array(&idx);
        if unchecked {
            data.push(unsafe { *s.get_reference_unchecked_mut(a) });
        } else {
            match s.get_reference_mut(a) {
                Some(x) => data.push(*x),
                None => return format!("missing-element-at={}", show_usizes(&idx)),
            }
        }
    }
    for d in 0..D {
        let mut a = [0usize; D];
        a[d] = lens[d];
        if s.get_reference_mut(a).is_some() {
            return format!("present-out-of-bounds dimension={}", d);
        }
    }
    show_val(&shape, &data)
}

fn write_trait_mut<S: TensorMut<u64, D>, const D: usize>(s: &mut S, unchecked: bool) {
    let shape = s.view_shape();
    let lens: Vec<usize> = shape.iter().map(|d| d.1).collect();
    for idx in own_indexes(&lens) {
        let a: [usize; D] = to_array(&idx);
        let r: &mut u64 = if unchecked {
            unsafe { s.get_reference_unchecked_mut(a) }
        } else {
            s.get_reference_mut(a).expect("element")
        };
        *r = mapi_f(&idx, *r);
    }
}

fn from_into<const D: usize>(c: &Tensor<u64, D>) -> String {
    let v1: TensorView<u64, &Tensor<u64, D>, D> = c.into();
    let v2: TensorView<u64, &&Tensor<u64, D>, D> = (&v1).into();
    let a = by_trait_ref(v2.source_ref(), false);
    let mut c2 = c.clone();
    let mut m1: TensorView<u64, &mut Tensor<u64, D>, D> = (&mut c2).into();
    let mut m2: TensorView<u64, &mut &mut Tensor<u64, D>, D> = (&mut m1).into();
    let b = by_trait_mut(m2.source_ref_mut(), false);
    let o: TensorView<u64, Tensor<u64, D>, D> = c.clone().into();
    let d = by_trait_ref(o.source_ref(), false);
    if a == b && b == d { a } else { "from-into-conversions-disagree".to_string() }
}

/// every read route over one source type; `$mk_ref` builds the source over `&Tensor`, `$mk_mut`
/// over `&mut Tensor`, `$mk_owned` over an owned clone
macro_rules! read_routes {
    ($t:expr, $D:ident, $route:expr, $mk_ref:expr, $mk_mut:expr, $mk_owned:expr, $inherent_get:expr) => {{
        let t: &Tensor<u64, $D> = $t;
        match $route {
            "get_ref" | "try_get_reference" => {
                let s = $mk_ref(t);
                let shape = TensorRef::view_shape(&s);
                let lens: Vec<usize> = shape.iter().map(|d| d.1).collect();
                let mut data = vec![];
                for idx in own_indexes(&lens) {
                    let a: [usize; $D] = to_array(&idx);
                    data.push($inherent_get(&s, a, $route == "get_ref"));
                }
                show_val(&shape, &data)
            }
            "source_order" => by_trait_ref(&TensorAccess::from_source_order($mk_ref(t)), false),
            "trait_ref" => by_trait_ref(&$mk_ref(t), false),
            "trait_ref_unchecked" => by_trait_ref(&$mk_ref(t), true),
            "ref_of_ref" => by_trait_ref(&&$mk_ref(t), false),
            "dyn_ref" => {
                let b: Box<dyn TensorRef<u64, $D>> = Box::new($mk_owned(t.clone()));
                by_trait_ref(&b, false)
            }
            "trait_mut" => {
                let mut c = t.clone();
                by_trait_mut(&mut $mk_mut(&mut c), false)
            }
            "trait_mut_unchecked" => {
                let mut c = t.clone();
                by_trait_mut(&mut $mk_mut(&mut c), true)
            }
            "dyn_mut" => {
                let mut b: Box<dyn TensorMut<u64, $D>> = Box::new($mk_owned(t.clone()));
                by_trait_mut(&mut b, false)
            }
            "iter" | "iter_reference" | "owned" => {
                let s = $mk_ref(t);
                let shape = TensorRef::view_shape(&s);
                let r: Result<Vec<u64>, String> = match $route {
                    "iter" => drain(TensorIterator::from(&s)),
                    "iter_reference" => drain(TensorReferenceIterator::from(&s)).map(|v| v.into_iter().copied().collect()),
                    _ => drain(TensorOwnedIterator::from($mk_owned(t.clone()))),
                };
                match r {
                    Ok(data) => show_val(&shape, &data),
                    Err(e) => e,
                }
            }
            "iter_wi" | "iter_wi_from" => {
                let s = $mk_ref(t);
                let it = if $route == "iter_wi" { TensorIterator::from(&s).with_index() } else { WithIndex::from(TensorIterator::from(&s)) };
                match drain(it) {
                    Ok(p) => assemble(TensorRef::view_shape(&s), p),
                    Err(e) => e,
                }
            }
            "ref_wi" | "ref_wi_from" => {
                let s = $mk_ref(t);
                let it = if $route == "ref_wi" { TensorReferenceIterator::from(&s).with_index() } else { WithIndex::from(TensorReferenceIterator::from(&s)) };
                match drain(it) {
                    Ok(p) => assemble(TensorRef::view_shape(&s), p.into_iter().map(|(i, x)| (i, *x)).collect()),
                    Err(e) => e,
                }
            }
            "mut_iter" => {
                let mut c = t.clone();
                let mut s = $mk_mut(&mut c);
                let shape = TensorRef::view_shape(&s);
                match drain(TensorReferenceMutIterator::from(&mut s)) {
                    Ok(p) => show_val(&shape, &p.into_iter().map(|x| *x).collect::<Vec<u64>>()),
                    Err(e) => e,
                }
            }
            "from_into" => {
                // the From / Into conversions into TensorView, on the materialised content
                let base: Tensor<u64, $D> = TensorView::from($mk_ref(t)).map(|x| x);
                from_into(&base)
            }
            "mut_wi" | "mut_wi_from" => {
                let mut c = t.clone();
                let mut s = $mk_mut(&mut c);
                let shape = TensorRef::view_shape(&s);
                let it = if $route == "mut_wi" { TensorReferenceMutIterator::from(&mut s).with_index() } else { WithIndex::from(TensorReferenceMutIterator::from(&mut s)) };
                match drain(it) {
                    Ok(p) => assemble(shape, p.into_iter().map(|(i, x)| (i, *x)).collect()),
                    Err(e) => e,
                }
            }
            "owned_wi" | "owned_wi_from" => {
                let s = $mk_owned(t.clone());
                let shape = TensorRef::view_shape(&s);
                let it = if $route == "owned_wi" { TensorOwnedIterator::from(s).with_index() } else { WithIndex::from(TensorOwnedIterator::from(s)) };
                match drain(it) {
                    Ok(p) => assemble(shape, p),
                    Err(e) => e,
                }
            }
            "view_index" => {
                // From/Into conversions into TensorView, then the source-order accessor
                let v: TensorView<u64, _, $D> = TensorView::from($mk_ref(t));
                let shape = v.shape();
                let lens: Vec<usize> = shape.iter().map(|d| d.1).collect();
                let access = v.index();
                let data: Vec<u64> = own_indexes(&lens).iter().map(|idx| *access.get_ref(to_array::<usize, $D>(idx))).collect();
                show_val(&shape, &data)
            }
            "clone_eq_display" => {
                // Clone of the source, PartialEq and Display of views over the original and the clone
                let s = $mk_ref(t);
                let c = s.clone();
                let (v, w) = (TensorView::from(s), TensorView::from(c));
                if v != w || !(v == w) {
                    "clone-not-equal".to_string()
                } else if format!("{}", v) != format!("{}", w) {
                    "clone-displays-differently".to_string()
                } else {
                    let materialised: Tensor<u64, $D> = v.map(|x| x);
                    if v != materialised || format!("{}", v) != format!("{}", materialised) {
                        "view-differs-from-its-materialisation".to_string()
                    } else {
                        by_trait_ref(w.source_ref(), false)
                    }
                }
            }
            _ => "bad-op".to_string(),
        }
    }};
}

/// every write route over one source type; afterwards the tensor is read back through `$mk_ref`
macro_rules! write_routes {
    ($t:expr, $D:ident, $route:expr, $mk_ref:expr, $mk_mut:expr, $mk_owned:expr, $inherent:expr) => {{
        let t: &Tensor<u64, $D> = $t;
        let mut c = t.clone();
        match $route {
            "dyn_mut" => {
                // boxed: the tensor cannot be taken back out, read back through the box
                let mut b: Box<dyn TensorMut<u64, $D>> = Box::new($mk_owned(c));
                write_trait_mut(&mut b, false);
                by_trait_ref(&b, false)
            }
            _ => {
                {
                    let mut s = $mk_mut(&mut c);
                    match $route {
                        "map_mut_with_index" | "map_mut" | "get_ref_mut" | "inherent_iter_mut" => $inherent(&mut s, $route),
                        "view_source_ref_mut" => {
                            let mut v = TensorView::from(&mut s);
                            write_trait_mut(v.source_ref_mut(), false)
                        }
                        "view_map_mut_with_index" => TensorView::from(&mut s).map_mut_with_index(|i, x| mapi_f(&i, x)),
                        "iter_mut_wi" => TensorReferenceMutIterator::from(&mut s).with_index().for_each(|(i, x)| *x = mapi_f(&i, *x)),
                        "iter_mut_wi_from" => WithIndex::from(TensorReferenceMutIterator::from(&mut s)).for_each(|(i, x)| *x = mapi_f(&i, *x)),
                        "trait_mut" => write_trait_mut(&mut s, false),
                        "trait_mut_unchecked" => write_trait_mut(&mut s, true),
                        "mut_ref_trait" => write_trait_mut(&mut &mut s, false),
                        "view_index_mut" | "view_index_by_mut" => {
                            let mut v = TensorView::from(&mut s);
                            let shape = v.shape();
                            let lens: Vec<usize> = shape.iter().map(|d| d.1).collect();
                            let names: [&'static str; $D] = std::array::from_fn(|d| shape[d].0);
                            let mut access = if $route == "view_index_mut" { v.index_mut() } else { v.index_by_mut(names) };
                            for idx in own_indexes(&lens) {
                                let r = access.get_ref_mut(to_array::<usize, $D>(&idx));
                                *r = mapi_f(&idx, *r);
                            }
                        }
                        other => panic!("unknown route {}", other),
                    }
                }
                by_trait_ref(&$mk_ref(&c), false)
            }
        }
    }};
}

pub fn sread<const D: usize>(t: &Tensor<u64, D>, kind: &str, names: &[&'static str], route: &str) -> String {
    if kind != "t" && names.len() != D {
        return "bad-op".into();
    }
    let r = catch(|| match kind {
        "a" => {
            let n: [&'static str; D] = names_array(names);
            read_routes!(t, D, route,
                |t| TensorAccess::from(t, n), |t| TensorAccess::from(t, n), |t| TensorAccess::from(t, n),
                |s: &TensorAccess<u64, &Tensor<u64, D>, D>, a, panicking: bool| if panicking { *s.get_ref(a) } else { *s.try_get_reference(a).expect("element") })
        }
        "x" => {
            let n: [&'static str; D] = names_array(names);
            read_routes!(t, D, route,
                |t| TensorTranspose::from(t, n), |t| TensorTranspose::from(t, n), |t| TensorTranspose::from(t, n),
                |s: &TensorTranspose<u64, &Tensor<u64, D>, D>, a, _p: bool| *TensorRef::get_reference(s, a).expect("element"))
        }
        _ => read_routes!(t, D, route,
            |t: &Tensor<u64, D>| t.clone(), |t: &mut Tensor<u64, D>| t.clone(), |t: Tensor<u64, D>| t,
            |s: &Tensor<u64, D>, a, _p: bool| *TensorRef::get_reference(s, a).expect("element")),
    });
    match r {
        Ok(s) => s,
        Err(k) => panic_str(k),
    }
}

pub fn swrite<const D: usize>(t: &Tensor<u64, D>, kind: &str, names: &[&'static str], route: &str) -> String {
    if kind != "t" && names.len() != D {
        return "bad-op".into();
    }
    let r = catch(|| match kind {
        "a" => {
            let n: [&'static str; D] = names_array(names);
            write_routes!(t, D, route,
                |t| TensorAccess::from(t, n), |t| TensorAccess::from(t, n), |t| TensorAccess::from(t, n),
                |s: &mut TensorAccess<u64, &mut Tensor<u64, D>, D>, route: &str| match route {
                    "map_mut_with_index" => s.map_mut_with_index(|i, x| mapi_f(&i, x)),
                    "map_mut" => s.map_mut(map_f),
                    "inherent_iter_mut" => s.iter_reference_mut().with_index().for_each(|(i, x)| *x = mapi_f(&i, *x)),
                    _ => {
                        let shape = s.shape();
                        let lens: Vec<usize> = shape.iter().map(|d| d.1).collect();
                        for idx in own_indexes(&lens) {
                            let r = s.get_ref_mut(to_array::<usize, D>(&idx));
                            *r = mapi_f(&idx, *r);
                        }
                    }
                })
        }
        "x" => {
            let n: [&'static str; D] = names_array(names);
            write_routes!(t, D, route,
                |t| TensorTranspose::from(t, n), |t| TensorTranspose::from(t, n), |t| TensorTranspose::from(t, n),
                |s: &mut TensorTranspose<u64, &mut Tensor<u64, D>, D>, route: &str| match route {
                    "map_mut" => TensorView::from(s).map_mut(map_f),
                    "map_mut_with_index" => TensorView::from(s).map_mut_with_index(|i, x| mapi_f(&i, x)),
                    "inherent_iter_mut" => TensorView::from(s).iter_reference_mut().with_index().for_each(|(i, x)| *x = mapi_f(&i, *x)),
                    _ => write_trait_mut(s, false),
                })
        }
        _ => {
            // the tensor itself: `$mk_mut` must hand back something that writes through to `c`
            write_routes!(t, D, route,
                |t: &Tensor<u64, D>| t.clone(), |t| t, |t: Tensor<u64, D>| t,
                |s: &mut &mut Tensor<u64, D>, route: &str| match route {
                    "map_mut_with_index" => s.map_mut_with_index(|i, x| mapi_f(&i, x)),
                    "map_mut" => s.map_mut(map_f),
                    "inherent_iter_mut" => s.iter_reference_mut().with_index().for_each(|(i, x)| *x = mapi_f(&i, *x)),
                    _ => write_trait_mut(*s, false),
                })
        }
    });
    match r {
        Ok(s) => s,
        Err(k) => panic_str(k),
    }
}

/// `sread` / `swrite` lines for the tensor of the current case (names and lengths given): every
/// route with a non-involutive ordering when D ≥ 3, plus a sample of the other orderings.
pub fn gen_surface_ops(g: &mut Gen, names: &[&'static str]) {
    let d = names.len();
    let mut perms = permutations(d);
    let non_involutive: Vec<Vec<usize>> = perms.iter().filter(|p| (0..d).any(|i| p[p[i]] != i)).cloned().collect();
    g.rng.shuffle(&mut perms);
    perms.truncate(2);
    let mut chosen: Vec<Vec<usize>> = vec![];
    if let Some(p) = non_involutive.first() {
        chosen.push(p.clone());
        chosen.push(g.rng.pick(&non_involutive).clone());
    }
    chosen.extend(perms);
    chosen.dedup();
    for (k, perm) in chosen.iter().enumerate() {
        let order: Vec<&str> = perm.iter().map(|&p| names[p]).collect();
        let inv = (0..d).all(|i| perm[perm[i]] == i);
        for kind in ["a", "x"] {
            // every route for the first (non-involutive) ordering, a sample for the others
            let mut reads: Vec<&str> = READ_ROUTES.to_vec();
            let mut writes: Vec<&str> = WRITE_ROUTES.to_vec();
            if k > 0 {
                g.rng.shuffle(&mut reads);
                reads.truncate(5);
                g.rng.shuffle(&mut writes);
                writes.truncate(4);
            }
            for r in reads {
                g.op(format!("sread {} {} route={}", kind, show_names(&order), r));
                g.count(&format!("surface.read.{}", r));
            }
            for r in writes {
                g.op(format!("swrite {} {} route={}", kind, show_names(&order), r));
                g.count(&format!("surface.write.{}", r));
            }
            if !inv {
                g.count("surface.non_involutive_ordering");
            }
        }
    }
    for r in READ_ROUTES {
        g.op(format!("sread t - route={}", r));
    }
    for r in WRITE_ROUTES {
        g.op(format!("swrite t - route={}", r));
    }
    g.count("surface.tensor_itself");
}

/// shapes of the section: D ≥ 3 with unequal lengths (so that a wrong table or a forgotten
/// mapping cannot go unnoticed), plus 2-D, 1-D and 0-D
pub const SURFACE_SHAPES: [&[usize]; 9] =
    [&[2, 3, 4], &[3, 1, 2], &[4, 2, 3], &[2, 3, 2, 4], &[3, 2, 1, 2, 2], &[2, 3], &[3, 3], &[5], &[]];
