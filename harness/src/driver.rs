//! Shared `main` of the per-property harness binaries (`emlv-Cxx`): drives the real easy-ml code
//! (path dependency on the checkout under test) through the same line protocol the Lean model
//! answers.  One binary per property keeps the rebuild after a change of the checkout small.
//!
//!   emlv-Cxx gen Cxx <quick|thorough> <seed>      operation lines on stdout
//!   emlv-Cxx run Cxx                              operation lines on stdin, answers on stdout
//!
//! Environment of `run`:
//!   EMLV_FLUSH=1      flush after every answer, so that after a process abort the orchestrator
//!                     can tell which operation killed the process
//! Execution modes used by the determinism check (C18); the answers must not depend on them:
//!   EMLV_THREAD=1     run on a spawned thread instead of the main thread
//!   EMLV_PERTURB=<n>  allocate/free blocks of pseudo-random sizes between operations
//!   EMLV_REVERSE=1    execute the independent cases (`@` segments) in reverse order

#[macro_export]
macro_rules! emlv_main {
    ($m:ident) => {
        fn main() {
            use std::io::{BufRead, Write};
            let args: Vec<String> = std::env::args().collect();
            if args.len() < 3 {
                eprintln!("usage: emlv-Cxx gen Cxx <tier> <seed> | emlv-Cxx run Cxx");
                std::process::exit(2);
            }
            match args[1].as_str() {
                "gen" => {
                    let thorough = args.get(3).map(|s| s == "thorough").unwrap_or(false);
                    let seed: u64 = args.get(4).and_then(|s| s.parse().ok()).unwrap_or(0);
                    let mut g = util::Gen::new(seed, thorough);
                    $m::gen(&mut g);
                    g.finish();
                }
                "run" => {
                    util::silence_panics();
                    let flush = std::env::var("EMLV_FLUSH").is_ok();
                    let on_thread = std::env::var("EMLV_THREAD").is_ok();
                    let reverse = std::env::var("EMLV_REVERSE").is_ok();
                    let perturb: Option<u64> =
                        std::env::var("EMLV_PERTURB").ok().and_then(|s| s.parse().ok());
                    let lines: Vec<String> =
                        std::io::stdin().lock().lines().map(|l| l.unwrap()).collect();
                    let work = move || {
                        let stdout = std::io::stdout();
                        let mut out = std::io::BufWriter::new(stdout.lock());
                        let mut runner = $m::Runner::new();
                        // segments: maximal runs of lines starting at an `@` line
                        let mut starts: Vec<usize> =
                            (0..lines.len()).filter(|&i| lines[i].starts_with('@')).collect();
                        if starts.first() != Some(&0) {
                            starts.insert(0, 0);
                        }
                        let mut segments: Vec<(usize, usize)> = vec![];
                        for (k, &s) in starts.iter().enumerate() {
                            let e = if k + 1 < starts.len() { starts[k + 1] } else { lines.len() };
                            if s < e {
                                segments.push((s, e));
                            }
                        }
                        if reverse {
                            segments.reverse();
                        }
                        let mut rng = util::Rng::new(perturb.unwrap_or(0));
                        let mut junk: Vec<Vec<u8>> = vec![];
                        let mut answers: Vec<String> = vec![String::new(); lines.len()];
                        for (s, e) in segments {
                            for i in s..e {
                                if perturb.is_some() {
                                    let n = rng.below(4096) + 1;
                                    junk.push(vec![rng.next() as u8; n]);
                                    if junk.len() > 64 {
                                        let k = rng.below(junk.len());
                                        junk.swap_remove(k);
                                    }
                                }
                                let toks: Vec<&str> = lines[i].split_whitespace().collect();
                                let ans = runner.step(&toks);
                                if reverse {
                                    answers[i] = ans;
                                } else {
                                    writeln!(out, "{}", ans).unwrap();
                                    if flush {
                                        out.flush().unwrap();
                                    }
                                }
                            }
                        }
                        if reverse {
                            for a in &answers {
                                writeln!(out, "{}", a).unwrap();
                            }
                        }
                        out.flush().unwrap();
                        #[cfg(feature = "hooks")]
                        {
                            let (checked, failed) = easy_ml::verif_hooks::take_counts();
                            eprintln!("#hook checked={} failed={}", checked, failed);
                        }
                    };
                    if on_thread {
                        std::thread::Builder::new()
                            .stack_size(64 << 20)
                            .spawn(work)
                            .unwrap()
                            .join()
                            .unwrap();
                    } else {
                        work();
                    }
                }
                _ => std::process::exit(2),
            }
        }
    };
}
