//! C15 — tape clear/reset cycles and cross-tape misuse, scalar records over `Fp`.
//!
//! Random interleavings over one or two `WengertList`s of: create variable, every operator form,
//! `derivatives`, `clear`, `reset`/`do_reset` (all / partial subsets / without clear), 1..5 cycles;
//! every binary operator form with operands of two different tapes.
//!
//! Beside the tapes of the case the runner keeps *shadow* tapes — a brand-new `WengertList` for
//! every `clear` — on which the live records are re-created in reset order and every operation is
//! repeated: `fresh=ok` says the derivative vector equals the one of the fresh tape.
//!
//! Line protocol: lean/Driver/C15.lean.

use crate::c04::*;
use crate::exact::Fp;
use crate::util::*;
use easy_ml::differentiation::Record;

// ---------------------------------------------------------------------------------------------
// generator
// ---------------------------------------------------------------------------------------------

const CROSS_OPS: [&str; 5] = ["add", "sub", "mul", "div", "pow"];

fn cross_line(g: &mut Gen, k: usize, a: usize, b: usize, kind: &str, form: &str) -> String {
    g.count(&format!("c15.cross.{}.{}", kind, form));
    match kind {
        "binary" => format!("binary r{} r{} r{} fn={}", k, a, b, form),
        _ => format!("{} r{} r{} r{} via={}", kind, k, a, b, form),
    }
}

/// every binary operator form on two variables of different tapes, both operand orders, and
/// `Sum` with the foreign record at each position
fn gen_systematic(g: &mut Gen) {
    let mut kinds: Vec<(&str, &str)> = vec![];
    for op in CROSS_OPS {
        for f in FORMS4 {
            kinds.push((op, f));
        }
    }
    for f in BINARY_FNS {
        kinds.push(("binary", f));
    }
    for (kind, form) in kinds {
        for swap in [false, true] {
            g.op("@ tapes 2".into());
            let (v0, v1) = (g.rng.next() % crate::exact::P, g.rng.next() % crate::exact::P);
            g.op(format!("var r0 {} t=0 via=record", v0));
            g.op(format!("var r1 {} t=1 via=list", v1));
            g.op("mul r2 r0 r0 via=ref_ref".into());
            let (a, b) = if swap { (1, 2) } else { (2, 1) };
            let l = cross_line(g, 3, a, b, kind, form);
            g.op(l);
            g.op("derivs r2 via=vec".into());
            g.op("derivs r1 via=vec".into());
            // the tapes are still usable and hand out the next positions
            g.op("add r4 r2 r0 via=ref_ref".into());
            g.op("neg r5 r1 via=ref".into());
            g.op("derivs r4 via=vec".into());
            g.op("derivs r5 via=vec".into());
        }
    }
    // Sum: constant / own-tape terms before the foreign one stay on the tape
    for terms in ["r0,r1", "r1,r0", "r2,r0,r1", "r0,r0,r1", "r0,r2,r0,r1,r0", "r1,r2,r0"] {
        g.count("c15.cross.sum");
        g.op("@ tapes 2".into());
        g.op("var r0 11 t=0 via=record".into());
        g.op("var r1 13 t=1 via=record".into());
        g.op("const r2 17 via=constant".into());
        g.op(format!("sum r3 {}", terms));
        g.op("derivs r0 via=vec".into());
        g.op("derivs r1 via=vec".into());
        g.op("var r4 19 t=0 via=record".into());
        g.op("var r5 23 t=1 via=record".into());
    }
}

fn gen_case(g: &mut Gen) {
    let ntapes = if g.rng.chance(1, 2) { 1 } else { 2 };
    g.count(&format!("c15.case.tapes.{}", ntapes));
    let tape_via = pick_form(g, "c15", "tape", &["new", "default"]);
    g.op(format!("@ tapes {} via={}", ntapes, tape_via));
    let mut st = ProgGen::new(Kind::Fp, "c15");
    let mut ntapes = ntapes;
    let cycles = g.rng.range(1, 5);
    g.count(&format!("c15.case.cycles.{}", cycles));
    // every tape starts with one or two variables
    for t in 0..ntapes {
        for _ in 0..g.rng.range(1, 2) {
            let l = st.leaf_var(g, t);
            g.op(l);
        }
    }
    for cycle in 0..cycles {
        let steps = g.rng.range(2, 14);
        for _ in 0..steps {
            let t = g.rng.below(ntapes);
            let roll = g.rng.below(100);
            let live_on = |st: &ProgGen, t: usize| -> Vec<usize> {
                (0..st.len()).filter(|&k| st.tape[k] == Some(t) && !st.stale[k]).collect()
            };
            if g.rng.chance(1, 8) {
                st.emit_observation(g);
            }
            if g.rng.chance(1, 25) {
                if let Some(l) = st.clone_instr(g, Some(t)) {
                    g.op(l);
                }
            }
            if g.rng.chance(1, 40) && ntapes < 4 {
                // Clone for WengertList + Record::from_existing: carry records over to the copy
                let live = live_on(&st, t);
                if !live.is_empty() {
                    g.count("c15.clonetape");
                    g.op(format!("clonetape src={}", t));
                    let dst = ntapes;
                    ntapes += 1;
                    for _ in 0..g.rng.range(1, 2) {
                        let a = *g.rng.pick(&live);
                        let k = st.len();
                        let target = match g.rng.below(8) {
                            0 => { g.count("c15.rehome.none"); None }
                            1 => { g.count("c15.rehome.other_tape"); Some(g.rng.below(ntapes)) }
                            _ => { g.count("c15.rehome.copy"); Some(dst) }
                        };
                        st.push(false, target.is_some(), 4, 1, vec![], 0, target);
                        match target {
                            Some(d) => g.op(format!("rehome r{} r{} t={}", k, a, d)),
                            None => g.op(format!("rehome r{} r{} t=none", k, a)),
                        }
                    }
                }
            }
            if roll < 55 {
                if let Some(l) = st.op_instr(g, Some(t)) {
                    g.op(l);
                }
            } else if roll < 63 {
                let l = st.leaf_var(g, t);
                g.op(l);
            } else if roll < 67 {
                let l = st.leaf_const(g);
                g.op(l);
            } else if roll < 79 {
                // derivatives of a live result (sometimes of a constant: panics)
                let live = live_on(&st, t);
                if g.rng.chance(1, 10) {
                    let consts: Vec<usize> = (0..st.len()).filter(|&k| st.tape[k].is_none()).collect();
                    if !consts.is_empty() {
                        g.count("c15.derivs.constant");
                        let k = *g.rng.pick(&consts);
                        g.op(format!("derivs r{} via=vec", k));
                    }
                } else if !live.is_empty() {
                    g.count("c15.derivs.live");
                    let via = pick_form(g, "c15", "derivs", &["vec", "try"]);
                    let k = *g.rng.pick(&live);
                    g.op(format!("derivs r{} via={}", k, via));
                }
            } else if roll < 85 {
                // reset without a clear: legal, takes the next position
                let live = live_on(&st, t);
                if !live.is_empty() {
                    let k = *g.rng.pick(&live);
                    g.count("c15.reset.without_clear");
                    let via = pick_form(g, "c15", "reset", &["reset", "do_reset"]);
                    g.op(format!("reset r{} via={}", k, via));
                    st.is_var[k] = true;
                }
            } else if roll < 93 && ntapes >= 2 {
                // cross-tape attempt with a random binary operator form
                let (la, lb) = (live_on(&st, 0), live_on(&st, 1));
                if !la.is_empty() && !lb.is_empty() {
                    let (mut a, mut b) = (*g.rng.pick(&la), *g.rng.pick(&lb));
                    if g.rng.chance(1, 2) {
                        std::mem::swap(&mut a, &mut b);
                    }
                    let k = st.len() + 1000;
                    let which = g.rng.below(7);
                    let l = if which < 5 {
                        let f = pick_form(g, "c15.crossform", CROSS_OPS[which], &FORMS4);
                        cross_line(g, k, a, b, CROSS_OPS[which], f)
                    } else if which == 5 {
                        let f = *g.rng.pick(&BINARY_FNS);
                        cross_line(g, k, a, b, "binary", f)
                    } else {
                        g.count("c15.cross.sum");
                        format!("sum r{} r{},r{},r{}", k, a, a, b)
                    };
                    g.op(l);
                    g.op(format!("derivs r{} via=vec", a));
                    g.op(format!("derivs r{} via=vec", b));
                }
            } else if roll < 97 {
                // misuse: a record that was not reset after its tape was cleared
                let stale: Vec<usize> = (0..st.len()).filter(|&k| st.stale[k]).collect();
                if !stale.is_empty() {
                    let k = *g.rng.pick(&stale);
                    if g.rng.chance(1, 2) {
                        g.count("c15.misuse.derivs_of_stale");
                        g.op(format!("derivs r{} via=vec", k));
                    } else {
                        g.count("c15.misuse.op_on_stale");
                        st.allow_stale = true;
                        let l = st.op_instr(g, st.tape[k]);
                        st.allow_stale = false;
                        if let Some(l) = l {
                            // its result is as unusable as a stale record
                            let n = st.len() - 1;
                            st.stale[n] = true;
                            g.op(l);
                        }
                    }
                }
            }
        }
        if cycle + 1 < cycles {
            // clear one tape (or both), then reset a subset of its records in random order
            let which: Vec<usize> = if ntapes == 2 && g.rng.chance(1, 4) { vec![0, 1] } else { vec![g.rng.below(ntapes)] };
            for &t in &which {
                g.op(format!("clear t={}", t));
                g.count("c15.clear");
                if g.rng.chance(1, 4) {
                    g.count("c15.clear.twice");
                    g.op(format!("clear t={}", t));
                }
                let mut on_tape: Vec<usize> = (0..st.len()).filter(|&k| st.tape[k] == Some(t)).collect();
                for &k in &on_tape {
                    st.stale[k] = true;
                }
                // candidates: the variables, sometimes also computed results
                let results_too = g.rng.chance(1, 3);
                on_tape.retain(|&k| st.is_var[k] || results_too);
                g.rng.shuffle(&mut on_tape);
                let keep = match g.rng.below(4) {
                    0 => g.rng.below(on_tape.len() + 1), // partial subset
                    _ => on_tape.len(),
                };
                g.count(if keep == on_tape.len() { "c15.reset.all_live" } else { "c15.reset.partial" });
                for &k in on_tape.iter().take(keep.min(6)) {
                    let via = pick_form(g, "c15", "reset", &["reset", "do_reset"]);
                    g.op(format!("reset r{} via={}", k, via));
                    if g.rng.chance(1, 6) {
                        g.count("c15.reset.twice");
                        g.op(format!("reset r{} via={}", k, via));
                    }
                    st.stale[k] = false;
                    st.is_var[k] = true;
                    st.dep[k] = true;
                    st.uses[k] = 0;
                }
                // a tape needs a live variable to go on
                if live_count(&st, t) == 0 {
                    let l = st.leaf_var(g, t);
                    g.op(l);
                }
            }
        }
    }
    // final derivatives of something live on every tape
    for t in 0..ntapes {
        let live: Vec<usize> = (0..st.len()).filter(|&k| st.tape[k] == Some(t) && !st.stale[k]).collect();
        if let Some(&k) = live.last() {
            g.op(format!("derivs r{} via=vec", k));
        }
    }
}

fn live_count(st: &ProgGen, t: usize) -> usize {
    (0..st.len()).filter(|&k| st.tape[k] == Some(t) && !st.stale[k]).count()
}

/// LARGE case: 72 variables on one tape, sums of 9..65 terms (one of them with a foreign term
/// after 12 own terms), epochs of hundreds of operations reaching back to the first variables,
/// clear + reset of all 72 / of half of them in shuffled order.
fn gen_large15(g: &mut Gen) {
    g.count("c15.large.case");
    g.op("@ tapes 2 via=new".into());
    let mut st = ProgGen::new(Kind::Fp, "c15");
    let nvars = 72;
    for _ in 0..nvars {
        let l = st.leaf_var(g, 0);
        g.op(l);
    }
    let foreign = st.len();
    for _ in 0..2 {
        let l = st.leaf_var(g, 1);
        g.op(l);
    }
    let c0 = st.len();
    for _ in 0..2 {
        let l = st.leaf_const(g);
        g.op(l);
    }
    gen_big_sums(g, &mut st, &[0, 1, 2, 3, 4, 5], &[c0, c0 + 1]);
    // a foreign term after twelve own terms: panics, the twelve entries stay
    let own: Vec<String> = (0..12).map(|j| format!("r{}", j)).collect();
    g.op(format!("sum r{} {},r{},r1", st.len() + 5000, own.join(","), foreign));
    g.op("derivs r0 via=vec".into());
    g.op(format!("derivs r{} via=vec", foreign));
    let epoch = |g: &mut Gen, st: &mut ProgGen, live: &[usize], steps: usize| {
        let mut last = live[0];
        for _ in 0..steps {
            let v = if g.rng.chance(1, 2) { live[g.rng.below(live.len().min(3))] } else { *g.rng.pick(live) };
            let l = if g.rng.chance(1, 2) { far_instr(g, st, last, v) } else { far_instr(g, st, v, last) };
            g.op(l);
            last = st.len() - 1;
        }
        g.op(format!("derivs r{} via=vec", last));
    };
    let all: Vec<usize> = (0..nvars).collect();
    epoch(g, &mut st, &all, 300);
    // cycle 1: reset everything, in shuffled order
    g.op("clear t=0".into());
    let mut order = all.clone();
    g.rng.shuffle(&mut order);
    for &k in &order {
        let via = pick_form(g, "c15", "reset", &["reset", "do_reset"]);
        g.op(format!("reset r{} via={}", k, via));
    }
    gen_big_sums(g, &mut st, &order[..7], &[c0, c0 + 1]);
    epoch(g, &mut st, &order, 150);
    // cycle 2: reset only half of them
    g.op("clear t=0".into());
    g.rng.shuffle(&mut order);
    let half: Vec<usize> = order[..nvars / 2].to_vec();
    for &k in &half {
        g.op(format!("reset r{} via=reset", k));
    }
    epoch(g, &mut st, &half, 150);
    // a record that was not reset: misuse, modelled
    g.op(format!("derivs r{} via=vec", order[nvars - 1]));
}

/// clear / reset in degenerate situations: on an empty tape, twice in a row, immediately after
/// creation, on a never used tape; records of value zero (all derivatives exactly zero) across
/// cycles
fn gen_degenerate_cycles(g: &mut Gen) {
    for (zero, one) in [("0", "1"), ("0", "0"), ("1", "1")] {
        g.count("c15.degenerate.cycles");
        for line in [
            "@ tapes 2 via=default".to_string(), "clear t=0".into(), "clear t=0".into(),
            format!("var r0 {} t=0 via=record", zero), "reset r0 via=reset".into(),
            "reset r0 via=do_reset".into(), "derivs r0 via=vec".into(),
            format!("var r1 {} t=0 via=list", zero), "mul r2 r0 r1 via=ref_ref".into(),
            "derivs r2 via=vec".into(), "sub r3 r2 r2 via=val_val".into(), "derivs r3 via=try".into(),
            "clear t=0".into(), "clear t=0".into(), "reset r1 via=reset".into(), "reset r1 via=reset".into(),
            "reset r0 via=do_reset".into(), "mul r4 r0 r1 via=val_ref".into(), "derivs r4 via=vec".into(),
            "div r5 r4 r4 via=ref_val".into(), "derivs r5 via=vec".into(),
            "clear t=1".into(), format!("var r6 {} t=1 via=record", one), "clear t=1".into(),
            "reset r6 via=reset".into(), "reset r6 via=do_reset".into(), "neg r7 r6 via=ref".into(),
            "derivs r7 via=vec".into(), "derivs r6 via=vec".into(),
            "clear t=0".into(), "derivs r4 via=vec".into(), "reset r4 via=reset".into(),
            "derivs r4 via=vec".into(), "clear t=0".into(), "clear t=1".into(),
        ] {
            g.op(line);
        }
    }
}

/// Re-emits every case generated since line `from` a second time, each preceded — on every one of
/// its tapes — by a much larger computation (a variable, `steps` chained operations, `derivs`)
/// that is then cleared: the tape's and the derivative vector's allocations are larger than
/// anything the case itself needs (`Vec::from(derivatives).len()` is the `len=` of every `derivs`
/// answer; positions restart at 0).
fn replay_after_larger(g: &mut Gen, from: usize, steps: usize) {
    let cases: Vec<String> = g.lines[from..].to_vec();
    let mut serial = 0usize;
    for line in cases {
        if line.starts_with('#') {
            continue;
        }
        if !line.starts_with("@ tapes") {
            g.op(line);
            continue;
        }
        let ntapes: usize = line.split_whitespace().nth(2).and_then(|s| s.parse().ok()).unwrap_or(1);
        g.count("c15.after_larger_cleared.cases");
        g.op(line);
        for t in 0..ntapes {
            serial += 1;
            let v = g.rng.next() % crate::exact::P;
            g.op(format!("var q{}n0 {} t={} via=record", t, v, t));
            for j in 1..=steps {
                let prev = format!("q{}n{}", t, j - 1);
                let l = match (j + serial) % 4 {
                    0 => format!("mul q{}n{} {} {} via=ref_ref", t, j, prev, prev),
                    1 => format!("addn q{}n{} {} 3 via=ref_val", t, j, prev),
                    2 => format!("sin q{}n{} {} via=ref", t, j, prev),
                    _ => format!("sum q{}n{} {},{},q{}n0", t, j, prev, prev, t),
                };
                g.op(l);
            }
            g.op(format!("derivs q{}n{} via=vec", t, steps));
            g.op(format!("clear t={}", t));
        }
    }
}

pub fn gen(g: &mut Gen) {
    let from = g.lines.len();
    gen_degenerate_cycles(g);
    gen_systematic(g);
    gen_large15(g);
    gen_degenerate(g, "c15", "@ tapes 1", "", Kind::Fp);
    gen_matrix(g, "c15", "@ tapes 1", "", Kind::Fp);
    let n = if g.thorough { 10000 } else { 500 };
    for _ in 0..n {
        gen_case(g);
    }
    // every case once more, on tapes that previously held a much larger, cleared computation
    replay_after_larger(g, from, 120);
}

// ---------------------------------------------------------------------------------------------
// execution against the implementation
// ---------------------------------------------------------------------------------------------

#[derive(Clone)]
struct Info {
    tape: Option<usize>,
    epoch: usize,
    tainted: bool,
}

struct Case {
    main: CaseG<Fp>,
    // shadow.recs reference shadow.tapes and retired tapes: dropped before both
    shadow: CaseG<Fp>,
    retired: Vec<TapeBox<Fp>>,
    info: Vec<Info>,
    epoch: Vec<usize>,
    tainted: Vec<bool>,
}

fn operand_names<'a>(toks: &[&'a str]) -> Vec<&'a str> {
    let mut v = vec![];
    for t in toks.iter().skip(2) {
        if t.contains('=') {
            continue;
        }
        for piece in t.split(',') {
            if piece.chars().next().map(|c| c.is_ascii_alphabetic()).unwrap_or(false) {
                v.push(piece);
            }
        }
    }
    v
}

fn show(r: &Rc<Fp>) -> String {
    format!("v={} const={} idx={}", r.number, if r.history().is_none() { 1 } else { 0 }, r.index)
}

impl Case {
    fn new(n: usize, via: &str) -> Case {
        Case {
            main: CaseG::new_via(n, via),
            shadow: CaseG::new(n),
            retired: vec![],
            info: vec![],
            epoch: vec![0; n],
            tainted: vec![false; n],
        }
    }

    fn tape_of(&self, r: &Rc<Fp>) -> Option<usize> {
        r.history().map(|h| {
            (0..self.main.tapes.len())
                .find(|&t| std::ptr::eq(h, self.main.tapes[t].get()))
                .expect("record of an unknown tape")
        })
    }

    fn stale(&self, k: usize) -> bool {
        match self.info[k].tape {
            None => false,
            Some(t) => self.info[k].epoch != self.epoch[t],
        }
    }

    fn bad(&self, k: usize) -> bool {
        self.stale(k) || self.info[k].tainted || self.info[k].tape.map(|t| self.tainted[t]).unwrap_or(false)
    }

    fn instr(&mut self, toks: &[&str]) -> String {
        let h: usize = opt_arg("t", toks).map(|s| s.parse().unwrap()).unwrap_or(0);
        let ops: Vec<usize> = operand_names(toks).iter().map(|n| self.main.names[*n]).collect();
        let mut op_tapes: Vec<usize> = vec![];
        for &k in &ops {
            if let Some(t) = self.info[k].tape {
                if !op_tapes.contains(&t) {
                    op_tapes.push(t);
                }
            }
        }
        let cross = op_tapes.len() > 1;
        let is_var = toks[0] == "var";
        let bad = ops.iter().any(|&k| self.bad(k)) || (is_var && self.tainted[h]);
        let out = real_instr(&self.main, toks).or_else(|| arith_instr::<Fp>(&self.main, toks, h));
        let r = match out {
            None => return "bad-op".into(),
            Some(Err(kind)) => {
                if toks[0] == "sum" {
                    for &t in &op_tapes {
                        self.tainted[t] = true;
                    }
                }
                return panic_str(kind);
            }
            Some(Ok(r)) => r,
        };
        let pos = self.main.recs.len();
        let tape = self.tape_of(&r);
        let epoch = tape.map(|t| self.epoch[t]).unwrap_or(0);
        let answer = show(&r);
        if cross || bad {
            for &t in &op_tapes {
                self.tainted[t] = true;
            }
            if is_var {
                self.tainted[h] = true;
            }
            self.shadow.recs.push(Record::constant(Fp(0)));
            self.info.push(Info { tape, epoch, tainted: true });
        } else {
            let sr = real_instr(&self.shadow, toks).or_else(|| arith_instr::<Fp>(&self.shadow, toks, h));
            let sr = match sr {
                Some(Ok(sr)) => sr,
                _ => Record::constant(Fp(0)),
            };
            self.shadow.recs.push(sr);
            self.info.push(Info { tape, epoch, tainted: false });
        }
        if is_var {
            self.main.vars.push(pos);
        }
        self.main.names.insert(toks[1].to_string(), pos);
        self.shadow.names.insert(toks[1].to_string(), pos);
        self.main.recs.push(r);
        answer
    }

    fn derivs(&self, toks: &[&str]) -> String {
        let k = self.main.names[toks[1]];
        let r = &self.main.recs[k];
        let via = opt_arg("via", toks).unwrap_or("vec");
        let d = match via {
            "try" => match catch(|| r.try_derivatives()) {
                Ok(Some(d)) => d,
                // `derivatives()` is `try_derivatives()` + a panic for constants
                Ok(None) => return "panic(explicit)".into(),
                Err(kind) => return panic_str(kind),
            },
            _ => match catch(|| r.derivatives()) {
                Ok(d) => d,
                Err(kind) => return panic_str(kind),
            },
        };
        let full: Vec<Fp> = Vec::from(d);
        let fresh = if self.bad(k) {
            "skip".to_string()
        } else {
            match catch(|| self.shadow.recs[k].derivatives()) {
                Ok(sd) => {
                    let sfull: Vec<Fp> = Vec::from(sd);
                    if sfull == full { "ok".to_string() } else { format!("DIFF fresh_tape={}", show_list(&sfull)) }
                }
                Err(kind) => format!("DIFF fresh_tape={}", panic_str(kind)),
            }
        };
        format!("len={} full={} fresh={}", full.len(), show_list(&full), fresh)
    }

    fn reset(&mut self, toks: &[&str]) -> String {
        let k = self.main.names[toks[1]];
        let via = opt_arg("via", toks).unwrap_or("reset");
        let do_reset = |r: &mut Rc<Fp>| match via {
            "do_reset" => {
                let taken = std::mem::replace(r, Record::constant(Fp(0)));
                *r = Record::do_reset(taken);
            }
            _ => r.reset(),
        };
        let t = match self.info[k].tape {
            None => {
                // a constant: nothing happens
                if let Err(kind) = catch(|| do_reset(&mut self.main.recs[k])) {
                    return panic_str(kind);
                }
                let r = &self.main.recs[k];
                return format!("idx={} const={}", r.index, if r.history().is_none() { 1 } else { 0 });
            }
            Some(t) => t,
        };
        if let Err(kind) = catch(|| do_reset(&mut self.main.recs[k])) {
            return panic_str(kind);
        }
        let e = self.epoch[t];
        let tainted;
        if self.tainted[t] {
            self.shadow.recs[k] = Record::constant(Fp(0));
            tainted = true;
        } else if self.info[k].epoch == e && !self.info[k].tainted {
            do_reset(&mut self.shadow.recs[k]);
            tainted = false;
        } else {
            // first reset after a clear: the record is re-created on the fresh tape
            let number = self.main.recs[k].number.clone();
            self.shadow.recs[k] = Record::variable(number, self.shadow.tapes[t].get());
            tainted = false;
        }
        self.info[k] = Info { tape: Some(t), epoch: e, tainted };
        let r = &self.main.recs[k];
        format!("idx={} const={}", r.index, if r.history().is_none() { 1 } else { 0 })
    }

    /// `Clone for WengertList`: a new tape with a copy of the entries; never mirrored
    fn clone_tape(&mut self, toks: &[&str]) -> String {
        let src: usize = opt_arg("src", toks).map(|s| s.parse().unwrap()).unwrap_or(0);
        let copy = match catch(|| self.main.tapes[src].get().clone()) {
            Ok(l) => l,
            Err(kind) => return panic_str(kind),
        };
        self.main.tapes.push(TapeBox::from_list(copy));
        self.shadow.tapes.push(TapeBox::new());
        self.epoch.push(0);
        self.tainted.push(true);
        "ok".into()
    }

    /// `Record::from_existing((number, index), list)`: the record of another list (or none)
    fn rehome(&mut self, toks: &[&str]) -> String {
        let k = self.main.names[toks[2]];
        let t: Option<usize> = opt_arg("t", toks).and_then(|s| s.parse().ok());
        let (number, index) = (self.main.recs[k].number.clone(), self.main.recs[k].index);
        let list = t.map(|t| self.main.tapes[t].get());
        let r = match catch(|| Record::from_existing((number, index), list)) {
            Ok(r) => r,
            Err(kind) => return panic_str(kind),
        };
        let answer = show(&r);
        let pos = self.main.recs.len();
        self.info.push(Info { tape: t, epoch: t.map(|t| self.epoch[t]).unwrap_or(0), tainted: true });
        self.shadow.recs.push(Record::constant(Fp(0)));
        self.main.names.insert(toks[1].to_string(), pos);
        self.shadow.names.insert(toks[1].to_string(), pos);
        self.main.recs.push(r);
        answer
    }

    fn clear(&mut self, toks: &[&str]) -> String {
        let t: usize = opt_arg("t", toks).map(|s| s.parse().unwrap()).unwrap_or(0);
        if let Err(kind) = catch(|| self.main.tapes[t].get().clear()) {
            return panic_str(kind);
        }
        // a brand-new shadow tape; the old one is kept alive for the records still pointing to it
        let old = std::mem::replace(&mut self.shadow.tapes[t], TapeBox::new());
        self.retired.push(old);
        self.epoch[t] += 1;
        self.tainted[t] = false;
        "ok".into()
    }
}

pub struct Runner {
    case: Option<Case>,
}

impl Runner {
    pub fn new() -> Runner {
        Runner { case: None }
    }

    pub fn step(&mut self, toks: &[&str]) -> String {
        if toks.is_empty() {
            return "bad-op".into();
        }
        if toks[0] == "@" {
            self.case = None;
            let via = opt_arg("via", toks).unwrap_or("new");
            self.case = Some(Case::new(toks[2].parse().unwrap(), via));
            return "ok".into();
        }
        let c = match &mut self.case {
            None => return "bad-op".into(),
            Some(c) => c,
        };
        match toks[0] {
            "clear" => c.clear(toks),
            "clonetape" => c.clone_tape(toks),
            "cmp" | "show" | "debug" => {
                if !refs_ok(&c.main.names, toks, refs_from(toks)) {
                    return "bad-ref".into();
                }
                observe_line(&c.main, toks).unwrap_or("bad-op".into())
            }
            "rehome" => {
                if !refs_ok(&c.main.names, toks, 2) {
                    return "bad-ref".into();
                }
                c.rehome(toks)
            }
            "derivs" | "reset" => {
                if !refs_ok(&c.main.names, toks, 1) {
                    return "bad-ref".into();
                }
                if toks[0] == "derivs" { c.derivs(toks) } else { c.reset(toks) }
            }
            _ => {
                if !refs_ok(&c.main.names, toks, 2) {
                    return "bad-ref".into();
                }
                c.instr(toks)
            }
        }
    }
}
