//! C20 — compile-time contracts.  This property has no line protocol (`"protocol": "none"` in
//! props/C20.json): the implementation under test is the compiler itself, driven by
//! props/c20_extra.py, which compiles the probe catalogue (probes/*.rs and generated
//! assert_send / assert_sync programs) against the easy-ml rlib this harness crate was linked
//! with.  The module only exists so that `emlv gen|run C20` are total.

use crate::util::*;

pub fn gen(_g: &mut Gen) {}

pub struct Runner;

impl Runner {
    pub fn new() -> Runner {
        Runner
    }

    pub fn step(&mut self, _toks: &[&str]) -> String {
        "no-line-protocol".into()
    }
}
