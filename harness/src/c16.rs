//! C16 — fallible APIs are total.  See lean/Driver/C16.lean for the protocol.
//!
//! Tensor views are composed at run time through `Box<dyn TensorMut<u64, D>>` (one enum arm per
//! dimensionality), matrix views through `Box<dyn MatrixMut<u64>>`; both are implementations of
//! the library's own reference traits, so every adaptor can be the receiver of the checked
//! getters.  Leaves hold ids (`1000·leaf + flat offset`), so the element a getter resolves to is
//! observable.  Huge shapes are only ever *claimed* (with small or empty data).

use crate::util::*;
use crate::with_d;
use easy_ml::differentiation::{Record, RecordMatrix, RecordTensor, WengertList};
use easy_ml::interop::{MatrixRefTensor, TensorRefMatrix};
use easy_ml::matrices::views::{
    IndexRange, MatrixMut, MatrixPart, MatrixRange, MatrixRef, MatrixReverse, MatrixView, Reverse,
};
use easy_ml::matrices::Matrix;
use easy_ml::tensors::indexing::{TensorAccess, TensorTranspose};
use easy_ml::tensors::views::{
    IndexRangeValidationError, StrictIndexRangeValidationError, TensorChain, TensorExpansion,
    TensorIndex, TensorMask, TensorMut, TensorRange, TensorRef, TensorRename, TensorReverse,
    TensorStack, TensorView,
};
use easy_ml::tensors::{Dimension, InvalidShapeError, Tensor};

pub type Dyn<const D: usize> = Box<dyn TensorMut<u64, D>>;
pub type MDyn = Box<dyn MatrixMut<u64>>;

pub enum TV {
    D0(Dyn<0>),
    D1(Dyn<1>),
    D2(Dyn<2>),
    D3(Dyn<3>),
    D4(Dyn<4>),
    D5(Dyn<5>),
    D6(Dyn<6>),
}

pub trait IntoTV {
    fn into_tv(self) -> TV;
}
macro_rules! into_tv_impl {
    ($($d:literal $arm:ident),*) => {
        $(impl IntoTV for Dyn<$d> { fn into_tv(self) -> TV { TV::$arm(self) } })*
    };
}
into_tv_impl!(0 D0, 1 D1, 2 D2, 3 D3, 4 D4, 5 D5, 6 D6);

/// `with_tv!(tv, D, v => body)`: run `body` with `v: Dyn<D>` and `const D`.
macro_rules! with_tv {
    ($tv:expr, $D:ident, $v:ident => $body:expr) => {
        match $tv {
            TV::D0($v) => { const $D: usize = 0; $body }
            TV::D1($v) => { const $D: usize = 1; $body }
            TV::D2($v) => { const $D: usize = 2; $body }
            TV::D3($v) => { const $D: usize = 3; $body }
            TV::D4($v) => { const $D: usize = 4; $body }
            TV::D5($v) => { const $D: usize = 5; $body }
            TV::D6($v) => { const $D: usize = 6; $body }
        }
    };
}

fn tv_shape(tv: &TV) -> Vec<(&'static str, usize)> {
    with_tv!(tv, D, v => v.view_shape().to_vec())
}

fn boxed<S: TensorMut<u64, D> + 'static, const D: usize>(s: S) -> Dyn<D> {
    Box::new(s)
}

fn ids(n: usize, base: u64) -> Vec<u64> {
    (0..n as u64).map(|i| base + i).collect()
}

fn leaf_tensor<const D: usize>(shape: &[(&'static str, usize)], base: u64) -> Tensor<u64, D> {
    let n: usize = shape.iter().map(|d| d.1).product();
    Tensor::from(shape_array::<D>(shape), ids(n, base))
}

fn show_opt(v: Option<u64>) -> String {
    match v {
        Some(x) => format!("some({})", x),
        None => "none".into(),
    }
}

fn parse_range(s: &str) -> (usize, usize) {
    let (a, b) = s.split_once(':').expect("start:len");
    (a.parse().expect("start"), b.parse().expect("len"))
}

fn parse_named_ranges(s: &str) -> Vec<(&'static str, (usize, usize))> {
    split_comma(s)
        .iter()
        .map(|p| {
            let mut it = p.split(':');
            let n = intern(it.next().unwrap());
            let a = it.next().unwrap().parse().unwrap();
            let b = it.next().unwrap().parse().unwrap();
            (n, (a, b))
        })
        .collect()
}

fn parse_all_ranges(s: &str) -> Vec<Option<(usize, usize)>> {
    split_comma(s).iter().map(|p| if *p == "*" { None } else { Some(parse_range(p)) }).collect()
}

fn show_all_ranges(v: &[Option<(usize, usize)>]) -> String {
    if v.is_empty() {
        return "-".into();
    }
    v.iter()
        .map(|o| match o {
            None => "*".to_string(),
            Some((a, b)) => format!("{}:{}", a, b),
        })
        .collect::<Vec<_>>()
        .join(",")
}

// ---------------------------------------------------------------------------------------------
// TensorRange / TensorMask construction
// ---------------------------------------------------------------------------------------------

fn show_irv_error<const D: usize, const P: usize>(e: &IndexRangeValidationError<D, P>) -> String {
    match e {
        IndexRangeValidationError::InvalidShape(s) => {
            format!("err invalid_shape {}", show_shape(&s.shape()))
        }
        IndexRangeValidationError::InvalidDimensions(d) => format!(
            "err invalid_dimensions provided={} valid={}",
            show_names(&d.provided_names()),
            show_names(&d.valid_names())
        ),
    }
}

fn show_strict_error<const D: usize, const P: usize>(
    e: &StrictIndexRangeValidationError<D, P>,
    given: &[Option<(usize, usize)>],
) -> String {
    match e {
        StrictIndexRangeValidationError::OutsideShape { shape, index_range } => {
            // IndexRange's fields are private: compare the payload with the ranges as given
            let expected: Vec<Option<IndexRange>> =
                given.iter().map(|o| o.map(|(a, b)| IndexRange::new(a, b))).collect();
            let same = index_range.len() == expected.len()
                && index_range.iter().zip(expected.iter()).all(|(a, b)| a == b);
            if same {
                format!("err outside_shape shape={} ranges={}", show_shape(shape), show_all_ranges(given))
            } else {
                format!("err outside_shape shape={} ranges=UNEXPECTED{:?}", show_shape(shape), index_range)
            }
        }
        StrictIndexRangeValidationError::Error(e) => show_irv_error(e),
    }
}

/// the `[Option<IndexRange>; D]` a named list scatters to (what `from_strict` reports)
fn scatter<const D: usize>(
    shape: &[(&'static str, usize); D],
    named: &[(&'static str, (usize, usize))],
) -> Vec<Option<(usize, usize)>> {
    let mut all = vec![None; D];
    for (n, r) in named {
        if let Some(d) = shape.iter().position(|s| s.0 == *n) {
            all[d] = Some(*r);
        }
    }
    all
}

macro_rules! named_array {
    ($named:expr, $P:ident, $conv:expr) => {{
        let a: [(Dimension, _); $P] = std::array::from_fn(|i| ($named[i].0, $conv($named[i].1)));
        a
    }};
}

fn conv_ir(r: (usize, usize)) -> IndexRange {
    IndexRange::new(r.0, r.1)
}
fn conv_tuple(r: (usize, usize)) -> (usize, usize) {
    r
}
fn conv_array(r: (usize, usize)) -> [usize; 2] {
    [r.0, r.1]
}
fn conv_range(r: (usize, usize)) -> std::ops::Range<usize> {
    r.0..(r.0 + r.1)
}

/// Applies a named range/mask constructor to `v`.  The constructors consume their source even
/// when they fail, so the attempt is made on a reference first.
fn apply_named<const D: usize, const P: usize>(
    v: Dyn<D>,
    mask: bool,
    strict: bool,
    named: &[(&'static str, (usize, usize))],
    via: &str,
) -> (Option<Dyn<D>>, String) {
    macro_rules! go {
        ($conv:expr) => {{
            let shape = v.view_shape();
            let first: Result<(), String> = match (mask, strict) {
                (false, false) => TensorRange::from(&v, named_array!(named, P, $conv))
                    .map(|_| ())
                    .map_err(|e| show_irv_error(&e)),
                (false, true) => TensorRange::from_strict(&v, named_array!(named, P, $conv))
                    .map(|_| ())
                    .map_err(|e| show_strict_error(&e, &scatter(&shape, named))),
                (true, false) => TensorMask::from(&v, named_array!(named, P, $conv))
                    .map(|_| ())
                    .map_err(|e| show_irv_error(&e)),
                (true, true) => TensorMask::from_strict(&v, named_array!(named, P, $conv))
                    .map(|_| ())
                    .map_err(|e| show_strict_error(&e, &scatter(&shape, named))),
            };
            match first {
                Err(e) => (Some(v), e),
                Ok(()) => {
                    let w: Dyn<D> = match (mask, strict) {
                        (false, false) => boxed(TensorRange::from(v, named_array!(named, P, $conv)).ok().unwrap()),
                        (false, true) => boxed(TensorRange::from_strict(v, named_array!(named, P, $conv)).ok().unwrap()),
                        (true, false) => boxed(TensorMask::from(v, named_array!(named, P, $conv)).ok().unwrap()),
                        (true, true) => boxed(TensorMask::from_strict(v, named_array!(named, P, $conv)).ok().unwrap()),
                    };
                    let s = format!("ok shape={}", show_shape(&w.view_shape()));
                    (Some(w), s)
                }
            }
        }};
    }
    match via {
        "tuple" => go!(conv_tuple),
        "array" => go!(conv_array),
        "range" => go!(conv_range),
        _ => go!(conv_ir),
    }
}

fn apply_all<const D: usize>(
    v: Dyn<D>,
    mask: bool,
    strict: bool,
    all: &[Option<(usize, usize)>],
    via: &str,
) -> (Option<Dyn<D>>, String) {
    macro_rules! arr {
        ($conv:expr) => {{
            let a: [Option<_>; D] = std::array::from_fn(|i| all[i].map($conv));
            a
        }};
    }
    macro_rules! go {
        ($conv:expr) => {{
            let first: Result<(), String> = match (mask, strict) {
                (false, false) => TensorRange::from_all(&v, arr!($conv))
                    .map(|_| ())
                    .map_err(|e| format!("err invalid_shape {}", show_shape(&e.shape()))),
                (false, true) => TensorRange::from_all_strict(&v, arr!($conv))
                    .map(|_| ())
                    .map_err(|e| show_strict_error(&e, all)),
                (true, false) => TensorMask::from_all(&v, arr!($conv))
                    .map(|_| ())
                    .map_err(|e| format!("err invalid_shape {}", show_shape(&e.shape()))),
                (true, true) => TensorMask::from_all_strict(&v, arr!($conv))
                    .map(|_| ())
                    .map_err(|e| show_strict_error(&e, all)),
            };
            match first {
                Err(e) => (Some(v), e),
                Ok(()) => {
                    let w: Dyn<D> = match (mask, strict) {
                        (false, false) => boxed(TensorRange::from_all(v, arr!($conv)).ok().unwrap()),
                        (false, true) => boxed(TensorRange::from_all_strict(v, arr!($conv)).ok().unwrap()),
                        (true, false) => boxed(TensorMask::from_all(v, arr!($conv)).ok().unwrap()),
                        (true, true) => boxed(TensorMask::from_all_strict(v, arr!($conv)).ok().unwrap()),
                    };
                    let s = format!("ok shape={}", show_shape(&w.view_shape()));
                    (Some(w), s)
                }
            }
        }};
    }
    match via {
        "tuple" => go!(conv_tuple),
        "array" => go!(conv_array),
        "range" => go!(conv_range),
        _ => go!(conv_ir),
    }
}

macro_rules! with_p {
    ($p:expr, $P:ident => $body:expr) => {
        match $p {
            0 => { const $P: usize = 0; $body }
            1 => { const $P: usize = 1; $body }
            2 => { const $P: usize = 2; $body }
            3 => { const $P: usize = 3; $body }
            4 => { const $P: usize = 4; $body }
            5 => { const $P: usize = 5; $body }
            6 => { const $P: usize = 6; $body }
            other => panic!("unsupported number of named ranges {}", other),
        }
    };
}

// ---------------------------------------------------------------------------------------------
// API surface: fallible pub fns reached through every receiver form
// ---------------------------------------------------------------------------------------------

/// `TensorAccess::from(<RecordTensor: owned | & | &mut>, order).try_get_as_record(idx)`
fn record_get<const D: usize>(shape: &[(&'static str, usize)], order: &[&'static str], idx: &[usize], via: &str) -> Option<u64> {
    let list: WengertList<f64> = WengertList::new();
    let n: usize = shape.iter().map(|d| d.1).product();
    let values: Vec<f64> = (0..n).map(|k| k as f64).collect();
    let mut rt = RecordTensor::variables(&list, Tensor::from(shape_array::<D>(shape), values));
    let order: [Dimension; D] = names_array::<D>(order);
    let idx: [usize; D] = to_array::<usize, D>(idx);
    let r: Option<Record<f64>> = match via {
        "ref" => TensorAccess::from(&rt, order).try_get_as_record(idx),
        "mut" => TensorAccess::from(&mut rt, order).try_get_as_record(idx),
        "index_by" => rt.index_by(order).try_get_as_record(idx),
        // `TensorMut for RecordTensor` (get_reference_mut), read through the access
        "tensor_mut" => {
            return TensorAccess::from(&mut rt, order).try_get_reference_mut(idx).map(|x| x.0 as u64);
        }
        "tensor_ref" => {
            return TensorAccess::from(&rt, order).try_get_reference(idx).map(|x| x.0 as u64);
        }
        _ => TensorAccess::from(rt, order).try_get_as_record(idx),
    };
    r.map(|r| {
        assert!(r.history().map(|h| std::ptr::eq(h, &list)).unwrap_or(false), "record history");
        r.number as u64
    })
}

/// the lenient named methods of `Tensor` / `TensorView` on each receiver form
fn named_method<const D: usize, const P: usize>(
    mask: bool,
    shape: &[(&'static str, usize)],
    named: &[(&'static str, (usize, usize))],
    via: &str,
) -> String {
    let mut t: Tensor<u64, D> = leaf_tensor::<D>(shape, 0);
    let args = || named_array!(named, P, conv_ir);
    macro_rules! finish {
        ($r:expr) => {
            match $r {
                Ok(w) => {
                    let cells: Vec<String> = w.iter().map(|x| x.to_string()).collect();
                    format!(
                        "ok shape={} cells={}",
                        show_shape(&w.shape()),
                        if cells.is_empty() { "-".to_string() } else { cells.join(",") }
                    )
                }
                Err(e) => show_irv_error(&e),
            }
        };
    }
    match (mask, via) {
        (false, "tensor_mut") => finish!(t.range_mut(args())),
        (false, "tensor_owned") => finish!(t.range_owned(args())),
        (false, "view") => finish!(TensorView::from(&t).range(args())),
        (false, "view_mut") => finish!(TensorView::from(&mut t).range_mut(args())),
        (false, "view_owned") => finish!(TensorView::from(t).range_owned(args())),
        (false, _) => finish!(t.range(args())),
        (true, "tensor_mut") => finish!(t.mask_mut(args())),
        (true, "tensor_owned") => finish!(t.mask_owned(args())),
        (true, "view") => finish!(TensorView::from(&t).mask(args())),
        (true, "view_mut") => finish!(TensorView::from(&mut t).mask_mut(args())),
        (true, "view_owned") => finish!(TensorView::from(t).mask_owned(args())),
        (true, _) => finish!(t.mask(args())),
    }
}

// ---------------------------------------------------------------------------------------------
// the runner
// ---------------------------------------------------------------------------------------------

pub struct Runner {
    tview: Option<TV>,
    mview: Option<MDyn>,
    parts: Vec<Option<MatrixView<u64, MatrixPart<'static, u64>>>>,
}

fn answer<T>(r: Result<T, PanicKind>, f: impl FnOnce(T) -> String) -> String {
    match r {
        Ok(v) => f(v),
        Err(k) => panic_str(k),
    }
}

impl Runner {
    pub fn new() -> Runner {
        Runner { tview: None, mview: None, parts: vec![] }
    }

    fn reset(&mut self) {
        self.tview = None;
        self.mview = None;
        self.parts.clear();
    }

    pub fn step(&mut self, toks: &[&str]) -> String {
        if toks.is_empty() {
            return "bad-op".into();
        }
        if toks[0] == "@" {
            self.reset();
            return self.start(&toks[1..]);
        }
        let via = opt_arg("via", toks).unwrap_or("");
        match toks[0] {
            "get" => self.get(toks[1], via),
            "mget" => self.mget(toks[1], toks[2], via),
            "part" => {
                let k: usize = toks[1].parse().unwrap();
                match self.parts.get_mut(k).and_then(|p| p.take()) {
                    Some(view) => {
                        let part: MatrixPart<'static, u64> = view.source();
                        let s = format!("ok size={}x{}", part.view_rows(), part.view_columns());
                        self.mview = Some(Box::new(part));
                        s
                    }
                    None => "no-part".into(),
                }
            }
            "mrange" | "mreverse" | "mmap" | "tmatrix" => self.matrix_adaptor(toks, via),
            "mtensor" => match self.tview.take() {
                Some(TV::D2(v)) => {
                    let r = catch(move || {
                        let m: MDyn = Box::new(MatrixRefTensor::from(v));
                        m
                    });
                    answer(r, |m| {
                        let s = format!("ok size={}x{}", m.view_rows(), m.view_columns());
                        self.mview = Some(m);
                        s
                    })
                }
                Some(other) => {
                    self.tview = Some(other);
                    "bad-op".into()
                }
                None => "no-view".into(),
            },
            _ => self.tensor_adaptor(toks, via),
        }
    }

    fn start(&mut self, toks: &[&str]) -> String {
        let via = opt_arg("via", toks).unwrap_or("");
        match toks[0] {
            "try_from" => {
                let shape = parse_shape(toks[1]);
                let n: usize = toks[2].parse().unwrap();
                with_d!(shape.len(), D => {
                    let r = catch(|| Tensor::<u64, D>::try_from(shape_array::<D>(&shape), ids(n, 0)));
                    answer(r, |res| match res {
                        Ok(t) => {
                            self.tview = Some(boxed::<_, D>(t).into_tv());
                            "ok".into()
                        }
                        Err(e) => format!("err {}", show_shape(&e.shape())),
                    })
                })
            }
            "to_range" => {
                let (st, l): (usize, usize) = (toks[1].parse().unwrap(), toks[2].parse().unwrap());
                let shown = answer(catch(move || {
                    let r: std::ops::Range<usize> = match via {
                        "into" => IndexRange::new(st, l).into(),
                        _ => std::ops::Range::from(IndexRange::new(st, l)),
                    };
                    r
                }), |r| format!("ok {}..{}", r.start, r.end));
                // an end beyond usize::MAX is outside what the properties speak about: whatever the
                // code does there (panic, wrap, saturate) is recorded after `##` only
                if st.checked_add(l).is_none() {
                    format!("outside-scope ## {}", shown)
                } else {
                    shown
                }
            }
            "from_range" => {
                let (st, e): (usize, usize) = (toks[1].parse().unwrap(), toks[2].parse().unwrap());
                answer(catch(move || {
                    let r: IndexRange = (st..e).into();
                    // an IndexRange does not expose its fields: read them through the conversions
                    let arr: std::ops::Range<usize> = r.clone().into();
                    (arr.start, arr.end - arr.start)
                }), |(s0, l)| format!("ok {}:{}", s0, l))
            }
            "record_get" => {
                let shape = parse_shape(toks[1]);
                let order = parse_names(toks[2]);
                let idx = parse_usizes(toks[3]);
                answer(catch(move || with_d!(shape.len(), D => record_get::<D>(&shape, &order, &idx, via))), show_opt)
            }
            "record_mget" => {
                let (r, c): (usize, usize) = (toks[1].parse().unwrap(), toks[2].parse().unwrap());
                let (i, j): (usize, usize) = (toks[3].parse().unwrap(), toks[4].parse().unwrap());
                answer(
                    catch(move || {
                        let list: WengertList<f64> = WengertList::new();
                        let values: Vec<f64> = (0..r * c).map(|k| k as f64).collect();
                        let mut rm = RecordMatrix::variables(&list, Matrix::from_flat_row_major((r, c), values));
                        match via {
                            "matrix_ref" => MatrixRef::try_get_reference(&rm, i, j).map(|x| x.0 as u64),
                            "matrix_mut" => MatrixMut::try_get_reference_mut(&mut rm, i, j).map(|x| x.0 as u64),
                            _ => rm.try_get_as_record(i, j).map(|x| x.number as u64),
                        }
                    }),
                    show_opt,
                )
            }
            "dim_lookup" => {
                let shape = parse_shape(toks[2]);
                let name = intern(toks[3]);
                let f = toks[1].to_string();
                answer(
                    catch(move || {
                        with_d!(shape.len(), D => {
                            let sh = shape_array::<D>(&shape);
                            let r: Option<usize> = match (f.as_str(), via) {
                                ("length_of", "tensor") => leaf_tensor::<D>(&shape, 0).length_of(name),
                                ("length_of", "view") => TensorView::from(leaf_tensor::<D>(&shape, 0)).length_of(name),
                                ("length_of", _) => easy_ml::tensors::dimensions::length_of(&sh, name),
                                ("last_index_of", "tensor") => leaf_tensor::<D>(&shape, 0).last_index_of(name),
                                ("last_index_of", "view") => TensorView::from(leaf_tensor::<D>(&shape, 0)).last_index_of(name),
                                ("last_index_of", _) => easy_ml::tensors::dimensions::last_index_of(&sh, name),
                                (_, _) => easy_ml::tensors::dimensions::position_of(&sh, name),
                            };
                            r.map(|x| x as u64)
                        })
                    }),
                    show_opt,
                )
            }
            "named" => {
                let mask = toks[1] == "mask";
                let shape = parse_shape(toks[2]);
                let named = parse_named_ranges(toks[3]);
                answer(
                    catch(move || {
                        with_d!(shape.len(), D => {
                            with_p!(named.len(), P => named_method::<D, P>(mask, &shape, &named, via))
                        })
                    }),
                    |s| s,
                )
            }
            "from_usize" => {
                use easy_ml::numeric::FromUsize;
                use std::num::{Saturating, Wrapping};
                let n: usize = toks[2].parse().unwrap();
                let ty = toks[1].to_string();
                answer(
                    catch(move || -> Option<String> {
                        macro_rules! int {
                            ($T:ty) => {
                                <$T as FromUsize>::from_usize(n).map(|x| x.to_string())
                            };
                        }
                        match ty.as_str() {
                            "u8" => int!(u8),
                            "i8" => int!(i8),
                            "u16" => int!(u16),
                            "i16" => int!(i16),
                            "u32" => int!(u32),
                            "i32" => int!(i32),
                            "u64" => int!(u64),
                            "i64" => int!(i64),
                            "u128" => int!(u128),
                            "i128" => int!(i128),
                            "usize" => int!(usize),
                            "isize" => int!(isize),
                            "wrapping_u8" => <Wrapping<u8> as FromUsize>::from_usize(n).map(|x| x.0.to_string()),
                            "saturating_i16" => <Saturating<i16> as FromUsize>::from_usize(n).map(|x| x.0.to_string()),
                            "f32" => <f32 as FromUsize>::from_usize(n).map(|x| (x == n as f32).to_string()),
                            "f64" => <f64 as FromUsize>::from_usize(n).map(|x| (x == n as f64).to_string()),
                            "record_f64" => <Record<f64> as FromUsize>::from_usize(n)
                                .map(|x| (x.number == n as f64 && x.history().is_none()).to_string()),
                            "record_i8" => <Record<i8> as FromUsize>::from_usize(n).map(|x| x.number.to_string()),
                            "trace_i8" => <easy_ml::differentiation::Trace<i8> as FromUsize>::from_usize(n)
                                .map(|x| x.number.to_string()),
                            _ => Some("bad-op".to_string()),
                        }
                    }),
                    |o| match o {
                        Some(x) => format!("some({})", x),
                        None => "none".into(),
                    },
                )
            }
            "is_valid" => {
                let shape = parse_shape(toks[1]);
                with_d!(shape.len(), D => {
                    answer(catch(|| InvalidShapeError::new(shape_array::<D>(&shape)).is_valid()), |b| b.to_string())
                })
            }
            "try_into_scalar" => {
                let (r, c): (usize, usize) = (toks[1].parse().unwrap(), toks[2].parse().unwrap());
                let m = Matrix::from_flat_row_major((r, c), ids(r * c, 0));
                answer(catch(move || m.try_into_scalar()), |res| match res {
                    Ok(x) => format!("ok({})", x),
                    Err(_) => "err".into(),
                })
            }
            "into_tensor" => {
                let (r, c): (usize, usize) = (toks[1].parse().unwrap(), toks[2].parse().unwrap());
                let (n1, n2) = (intern(toks[3]), intern(toks[4]));
                let m = Matrix::from_flat_row_major((r, c), ids(r * c, 0));
                let res = catch(move || match via {
                    "try_from" => <Tensor<u64, 2> as TryFrom<(Matrix<u64>, [Dimension; 2])>>::try_from((m, [n1, n2])),
                    "try_into" => {
                        let t: Result<Tensor<u64, 2>, InvalidShapeError<2>> = (m, [n1, n2]).try_into();
                        t
                    }
                    _ => m.into_tensor(n1, n2),
                });
                answer(res, |res| match res {
                    Ok(t) => {
                        let s = format!("ok shape={}", show_shape(&t.shape()));
                        self.tview = Some(TV::D2(Box::new(t)));
                        s
                    }
                    Err(e) => format!("err {}", show_shape(&e.shape())),
                })
            }
            "linalg" => linalg(toks[1], toks[2].parse().unwrap(), toks[3].parse().unwrap(), toks[4] == "1", via),
            "record" => {
                let shape = parse_shape(toks[2]);
                record(toks[1], &shape, &[split_comma(toks[3])])
            }
            "records" => {
                let shape = parse_shape(toks[2]);
                let lists: Vec<Vec<&str>> = toks[3].split('|').map(split_comma).collect();
                record(toks[1], &shape, &lists)
            }
            "tensor" => {
                let shape = parse_shape(toks[1]);
                with_d!(shape.len(), D => {
                    self.tview = Some(boxed::<_, D>(leaf_tensor::<D>(&shape, 0)).into_tv());
                });
                "ok".into()
            }
            "stack" => {
                let shape = parse_shape(toks[1]);
                let n: usize = toks[2].parse().unwrap();
                let (pos, name) = toks[3].split_once(':').unwrap();
                let along: (usize, Dimension) = (pos.parse().unwrap(), intern(name));
                let r = catch(|| stack(&shape, n, along, via));
                answer(r, |tv| {
                    let s = format!("ok shape={}", show_shape(&tv_shape(&tv)));
                    self.tview = Some(tv);
                    s
                })
            }
            "chain" => {
                let shapes: Vec<Vec<(&'static str, usize)>> = toks[1].split('|').map(parse_shape).collect();
                let along = intern(toks[2]);
                let r = catch(|| chain(&shapes, along, via));
                answer(r, |tv| {
                    let s = format!("ok shape={}", show_shape(&tv_shape(&tv)));
                    self.tview = Some(tv);
                    s
                })
            }
            "matrix" => {
                let (r, c): (usize, usize) = (toks[1].parse().unwrap(), toks[2].parse().unwrap());
                self.mview = Some(Box::new(Matrix::from_flat_row_major((r, c), ids(r * c, 0))));
                "ok".into()
            }
            "partition" => {
                let (r, c): (usize, usize) = (toks[1].parse().unwrap(), toks[2].parse().unwrap());
                let rp = parse_usizes(toks[3]);
                let cp = parse_usizes(toks[4]);
                // the parts borrow the matrix mutably for as long as they live: leak it
                let m: &'static mut Matrix<u64> =
                    Box::leak(Box::new(Matrix::from_flat_row_major((r, c), ids(r * c, 0))));
                let res = catch(move || match via {
                    "quadrants" if rp.len() == 1 && cp.len() == 1 => {
                        let q = m.partition_quadrants(rp[0], cp[0]);
                        vec![q.top_left, q.top_right, q.bottom_left, q.bottom_right]
                    }
                    _ => m.partition(&rp, &cp),
                });
                answer(res, |parts| {
                    let s = parts
                        .iter()
                        .map(|p| format!("{}x{}", p.rows(), p.columns()))
                        .collect::<Vec<_>>()
                        .join(";");
                    self.parts = parts.into_iter().map(Some).collect();
                    format!("ok sizes={}", s)
                })
            }
            _ => "bad-op".into(),
        }
    }

    fn get(&mut self, idx_s: &str, via: &str) -> String {
        let idx = parse_usizes(idx_s);
        match self.tview.as_mut() {
            None => "no-view".into(),
            Some(tv) => with_tv!(tv, D, v => {
                let i: [usize; D] = to_array(&idx);
                let r = catch(|| match via {
                    "mut" => v.get_reference_mut(i).map(|x| *x),
                    "access" => TensorAccess::from_source_order(&*v).try_get_reference(i).copied(),
                    "access_mut" => TensorAccess::from_source_order(&mut *v).try_get_reference_mut(i).map(|x| *x),
                    "view" => TensorView::from(&*v).index().try_get_reference(i).copied(),
                    // the forwarding impls of src/tensors/views/traits.rs
                    "ref_ref" => TensorRef::get_reference(&&*v, i).copied(),
                    "mut_ref" => TensorRef::get_reference(&&mut *v, i).copied(),
                    "mut_mut" => TensorMut::get_reference_mut(&mut &mut *v, i).map(|x| *x),
                    "boxed" => TensorRef::get_reference(&Box::new(&*v), i).copied(),
                    "boxed_mut" => TensorMut::get_reference_mut(&mut Box::new(&mut *v), i).map(|x| *x),
                    "box_dyn_ref" => {
                        // the impl is for `'static` trait objects: the box lives for this call only
                        let r: &'static Dyn<D> = unsafe { &*(&*v as *const Dyn<D>) };
                        let b: Box<dyn TensorRef<u64, D>> = Box::new(r);
                        b.get_reference(i).copied()
                    }
                    "box_dyn_mut" => {
                        let r: &'static mut Dyn<D> = unsafe { &mut *(&mut *v as *mut Dyn<D>) };
                        let mut b: Box<dyn TensorMut<u64, D>> = Box::new(r);
                        b.get_reference_mut(i).map(|x| *x)
                    }
                    _ => v.get_reference(i).copied(),
                });
                answer(r, show_opt)
            }),
        }
    }

    fn mget(&mut self, r_s: &str, c_s: &str, via: &str) -> String {
        let (r, c): (usize, usize) = (r_s.parse().unwrap(), c_s.parse().unwrap());
        match self.mview.as_mut() {
            None => "no-view".into(),
            Some(m) => {
                let res = catch(|| match via {
                    "mut" => m.try_get_reference_mut(r, c).map(|x| *x),
                    "view" => MatrixView::from(&*m).try_get_reference(r, c).copied(),
                    "view_mut" => MatrixView::from(&mut *m).try_get_reference_mut(r, c).map(|x| *x),
                    // the forwarding impls of src/matrices/views/traits.rs
                    "ref_ref" => MatrixRef::try_get_reference(&&*m, r, c).copied(),
                    "mut_ref" => MatrixRef::try_get_reference(&&mut *m, r, c).copied(),
                    "mut_mut" => MatrixMut::try_get_reference_mut(&mut &mut *m, r, c).map(|x| *x),
                    "boxed" => MatrixRef::try_get_reference(&Box::new(&*m), r, c).copied(),
                    "boxed_mut" => MatrixMut::try_get_reference_mut(&mut Box::new(&mut *m), r, c).map(|x| *x),
                    "box_dyn_ref" => {
                        let s: &'static MDyn = unsafe { &*(&*m as *const MDyn) };
                        let b: Box<dyn MatrixRef<u64>> = Box::new(s);
                        b.try_get_reference(r, c).copied()
                    }
                    "box_dyn_mut" => {
                        let s: &'static mut MDyn = unsafe { &mut *(&mut *m as *mut MDyn) };
                        let mut b: Box<dyn MatrixMut<u64>> = Box::new(s);
                        b.try_get_reference_mut(r, c).map(|x| *x)
                    }
                    _ => m.try_get_reference(r, c).copied(),
                });
                answer(res, show_opt)
            }
        }
    }

    fn matrix_adaptor(&mut self, toks: &[&str], via: &str) -> String {
        let m = match self.mview.take() {
            None => return "no-view".into(),
            Some(m) => m,
        };
        match toks[0] {
            "mrange" => {
                let rows = parse_range(toks[1]);
                let cols = parse_range(toks[2]);
                // MatrixRange::from consumes the source; a panic inside loses the view
                let res = catch(move || {
                    let w: MDyn = match via {
                        "tuple" => Box::new(MatrixRange::from(m, rows, cols)),
                        "array" => Box::new(MatrixRange::from(m, conv_array(rows), conv_array(cols))),
                        "range" => Box::new(MatrixRange::from(m, conv_range(rows), conv_range(cols))),
                        "view" => Box::new(MatrixView::from(m).range_owned(conv_ir(rows), conv_ir(cols)).source()),
                        _ => Box::new(MatrixRange::from(m, conv_ir(rows), conv_ir(cols))),
                    };
                    w
                });
                answer(res, |w| {
                    let s = format!("ok size={}x{}", w.view_rows(), w.view_columns());
                    self.mview = Some(w);
                    s
                })
            }
            "mreverse" => {
                let reverse = Reverse { rows: toks[1] == "1", columns: toks[2] == "1" };
                let w: MDyn = match via {
                    "view" => Box::new(MatrixView::from(m).reverse_owned(reverse).source()),
                    _ => Box::new(MatrixReverse::from(m, reverse)),
                };
                let s = format!("ok size={}x{}", w.view_rows(), w.view_columns());
                self.mview = Some(w);
                s
            }
            "tmatrix" => {
                let (n1, n2) = (intern(toks[1]), intern(toks[2]));
                let first: Result<Result<(), String>, PanicKind> = catch(|| {
                    let r = if via == "from" {
                        TensorRefMatrix::from(&m).map(|_| ())
                    } else {
                        TensorRefMatrix::with_names(&m, [n1, n2]).map(|_| ())
                    };
                    r.map_err(|e| format!("err {}", show_shape(&e.shape())))
                });
                match first {
                    Err(k) => {
                        self.mview = Some(m);
                        panic_str(k)
                    }
                    Ok(Err(e)) => {
                        self.mview = Some(m);
                        e
                    }
                    Ok(Ok(())) => {
                        let t: Dyn<2> = if via == "from" {
                            Box::new(TensorRefMatrix::from(m).ok().unwrap())
                        } else {
                            Box::new(TensorRefMatrix::with_names(m, [n1, n2]).ok().unwrap())
                        };
                        let s = format!("ok shape={}", show_shape(&t.view_shape()));
                        self.tview = Some(TV::D2(t));
                        s
                    }
                }
            }
            _ => {
                self.mview = Some(m);
                "bad-op".into()
            }
        }
    }

    fn tensor_adaptor(&mut self, toks: &[&str], via: &str) -> String {
        let tv = match self.tview.take() {
            None => return "no-view".into(),
            Some(tv) => tv,
        };
        let (new_tv, ans): (Option<TV>, String) = match toks[0] {
            "access" | "transpose" => {
                let names = parse_names(toks[1]);
                with_tv!(tv, D, v => {
                    let dims: [Dimension; D] = names_array(&names);
                    let first = catch(|| {
                        let r = if toks[0] == "access" {
                            TensorAccess::try_from(&v, dims).map(|a| a.shape())
                        } else {
                            TensorTranspose::try_from(&v, dims).map(|t| t.shape())
                        };
                        r.map_err(|e| format!(
                            "err actual={} requested={}", show_shape(&e.actual), show_names(&e.requested)))
                    });
                    match first {
                        Err(k) => (Some(v.into_tv()), panic_str(k)),
                        Ok(Err(e)) => (Some(v.into_tv()), e),
                        Ok(Ok(shape)) => {
                            let w: Dyn<D> = if toks[0] == "access" {
                                boxed(TensorAccess::try_from(v, dims).ok().unwrap())
                            } else {
                                boxed(TensorTranspose::try_from(v, dims).ok().unwrap())
                            };
                            (Some(w.into_tv()), format!("ok shape={}", show_shape(&shape)))
                        }
                    }
                })
            }
            "range" | "mask" => {
                let mask = toks[0] == "mask";
                let mode = toks[1];
                let strict = mode.ends_with("strict");
                if mode.starts_with("from_all") {
                    let all = parse_all_ranges(toks[2]);
                    with_tv!(tv, D, v => {
                        let mut out = None;
                        let r = catch(|| apply_all::<D>(v, mask, strict, &all, via));
                        match r {
                            Ok((w, s)) => { out = w; (out.map(|w| w.into_tv()), s) }
                            Err(k) => (None, panic_str(k)),
                        }
                    })
                } else {
                    let named = parse_named_ranges(toks[2]);
                    with_tv!(tv, D, v => {
                        with_p!(named.len(), P => {
                            let r = catch(|| apply_named::<D, P>(v, mask, strict, &named, via));
                            match r {
                                Ok((w, s)) => (w.map(|w| w.into_tv()), s),
                                Err(k) => (None, panic_str(k)),
                            }
                        })
                    })
                }
            }
            "reverse" => {
                let names = parse_names(toks[1]);
                with_tv!(tv, D, v => {
                    let w: Dyn<D> = boxed(TensorReverse::from(v, &names));
                    let s = format!("ok shape={}", show_shape(&w.view_shape()));
                    (Some(w.into_tv()), s)
                })
            }
            "rename" => {
                let names = parse_names(toks[1]);
                with_tv!(tv, D, v => {
                    let w: Dyn<D> = boxed(TensorRename::from(v, names_array::<D>(&names)));
                    let s = format!("ok shape={}", show_shape(&w.view_shape()));
                    (Some(w.into_tv()), s)
                })
            }
            "index" => {
                let provided = parse_shape(toks[1]);
                let w = index(tv, &provided);
                let s = format!("ok shape={}", show_shape(&tv_shape(&w)));
                (Some(w), s)
            }
            "expand" => {
                let extra: Vec<(usize, Dimension)> = split_comma(toks[1])
                    .iter()
                    .map(|p| {
                        let (a, n) = p.split_once(':').unwrap();
                        (a.parse().unwrap(), intern(n))
                    })
                    .collect();
                let w = expand(tv, &extra);
                let s = format!("ok shape={}", show_shape(&tv_shape(&w)));
                (Some(w), s)
            }
            _ => (Some(tv), "bad-op".into()),
        };
        self.tview = new_tv;
        ans
    }
}

fn index(tv: TV, provided: &[(&'static str, usize)]) -> TV {
    macro_rules! arm {
        ($v:expr, $d:literal, $i:literal) => {{
            let p: [(Dimension, usize); $i] = shape_array(provided);
            let w: Dyn<{ $d - $i }> = Box::new(TensorIndex::<u64, Dyn<$d>, $d, $i>::from($v, p));
            w.into_tv()
        }};
    }
    match (tv, provided.len()) {
        (TV::D1(v), 1) => arm!(v, 1, 1),
        (TV::D2(v), 1) => arm!(v, 2, 1),
        (TV::D2(v), 2) => arm!(v, 2, 2),
        (TV::D3(v), 1) => arm!(v, 3, 1),
        (TV::D3(v), 2) => arm!(v, 3, 2),
        (TV::D3(v), 3) => arm!(v, 3, 3),
        (TV::D4(v), 1) => arm!(v, 4, 1),
        (TV::D4(v), 2) => arm!(v, 4, 2),
        (TV::D5(v), 1) => arm!(v, 5, 1),
        (TV::D6(v), 1) => arm!(v, 6, 1),
        _ => panic!("unsupported TensorIndex arity"),
    }
}

fn expand(tv: TV, extra: &[(usize, Dimension)]) -> TV {
    macro_rules! arm {
        ($v:expr, $d:literal, $i:literal) => {{
            let e: [(usize, Dimension); $i] = std::array::from_fn(|k| extra[k]);
            let w: Dyn<{ $d + $i }> = Box::new(TensorExpansion::<u64, Dyn<$d>, $d, $i>::from($v, e));
            w.into_tv()
        }};
    }
    match (tv, extra.len()) {
        (TV::D0(v), 1) => arm!(v, 0, 1),
        (TV::D0(v), 2) => arm!(v, 0, 2),
        (TV::D1(v), 1) => arm!(v, 1, 1),
        (TV::D1(v), 2) => arm!(v, 1, 2),
        (TV::D1(v), 3) => arm!(v, 1, 3),
        (TV::D2(v), 1) => arm!(v, 2, 1),
        (TV::D2(v), 2) => arm!(v, 2, 2),
        (TV::D3(v), 1) => arm!(v, 3, 1),
        (TV::D3(v), 2) => arm!(v, 3, 2),
        (TV::D4(v), 1) => arm!(v, 4, 1),
        (TV::D5(v), 1) => arm!(v, 5, 1),
        _ => panic!("unsupported TensorExpansion arity"),
    }
}

fn stack(shape: &[(&'static str, usize)], n: usize, along: (usize, Dimension), via: &str) -> TV {
    macro_rules! arm {
        ($d:literal) => {{
            let mk = |k: usize| leaf_tensor::<$d>(shape, 1000 * k as u64);
            let w: Dyn<{ $d + 1 }> = match (n, via) {
                (1, _) => Box::new(TensorStack::<u64, [Tensor<u64, $d>; 1], $d>::from([mk(0)], along)),
                (2, "tuple") => Box::new(TensorStack::<u64, (_, _), $d>::from((mk(0), mk(1)), along)),
                (2, _) => Box::new(TensorStack::<u64, [Tensor<u64, $d>; 2], $d>::from([mk(0), mk(1)], along)),
                (3, "tuple") => Box::new(TensorStack::<u64, (_, _, _), $d>::from((mk(0), mk(1), mk(2)), along)),
                (3, _) => Box::new(TensorStack::<u64, [Tensor<u64, $d>; 3], $d>::from([mk(0), mk(1), mk(2)], along)),
                (4, "tuple") => Box::new(TensorStack::<u64, (_, _, _, _), $d>::from((mk(0), mk(1), mk(2), mk(3)), along)),
                (4, _) => Box::new(TensorStack::<u64, [Tensor<u64, $d>; 4], $d>::from([mk(0), mk(1), mk(2), mk(3)], along)),
                _ => panic!("unsupported number of stacked sources"),
            };
            w.into_tv()
        }};
    }
    match shape.len() {
        0 => arm!(0),
        1 => arm!(1),
        2 => arm!(2),
        3 => arm!(3),
        _ => panic!("unsupported TensorStack dimensionality"),
    }
}

fn chain(shapes: &[Vec<(&'static str, usize)>], along: Dimension, via: &str) -> TV {
    let n = shapes.len();
    macro_rules! arm {
        ($d:literal) => {{
            let mk = |k: usize| leaf_tensor::<$d>(&shapes[k], 1000 * k as u64);
            let w: Dyn<$d> = match (n, via) {
                (1, _) => Box::new(TensorChain::<u64, [Tensor<u64, $d>; 1], $d>::from([mk(0)], along)),
                (2, "tuple") => Box::new(TensorChain::<u64, (_, _), $d>::from((mk(0), mk(1)), along)),
                (2, _) => Box::new(TensorChain::<u64, [Tensor<u64, $d>; 2], $d>::from([mk(0), mk(1)], along)),
                (3, "tuple") => Box::new(TensorChain::<u64, (_, _, _), $d>::from((mk(0), mk(1), mk(2)), along)),
                (3, _) => Box::new(TensorChain::<u64, [Tensor<u64, $d>; 3], $d>::from([mk(0), mk(1), mk(2)], along)),
                (4, "tuple") => Box::new(TensorChain::<u64, (_, _, _, _), $d>::from((mk(0), mk(1), mk(2), mk(3)), along)),
                (4, _) => Box::new(TensorChain::<u64, [Tensor<u64, $d>; 4], $d>::from([mk(0), mk(1), mk(2), mk(3)], along)),
                _ => panic!("unsupported number of chained sources"),
            };
            w.into_tv()
        }};
    }
    match shapes[0].len() {
        1 => arm!(1),
        2 => arm!(2),
        3 => arm!(3),
        _ => panic!("unsupported TensorChain dimensionality"),
    }
}

// ---------------------------------------------------------------------------------------------
// linear algebra entry points (shape logic), record iterators
// ---------------------------------------------------------------------------------------------

fn linalg(f: &str, rows: usize, cols: usize, singular: bool, via: &str) -> String {
    use easy_ml::linear_algebra as la;
    // ones on the diagonal (positive definite when square), or all zeros
    let data: Vec<f64> = (0..rows * cols)
        .map(|k| if !singular && k / cols == k % cols { 1.0 } else { 0.0 })
        .collect();
    let tensor = via.starts_with("tensor");
    let m = Matrix::from_flat_row_major((rows, cols), data.clone());
    let t = Tensor::from([("r", rows), ("c", cols)], data);
    let sz = |m: &Matrix<f64>| format!("{}x{}", m.rows(), m.columns());
    let tsz = |t: &Tensor<f64, 2>| format!("{}x{}", t.shape()[0].1, t.shape()[1].1);
    let r = catch(|| match f {
        "determinant" => {
            let d = match via {
                "method" => m.determinant(),
                "tensor" => la::determinant_tensor::<f64, _, _>(&t),
                "tensor_method" => t.determinant(),
                "tensor_view_method" => TensorView::from(&t).determinant(),
                _ => la::determinant::<f64>(&m),
            };
            d.map(|_| "some".to_string())
        }
        "inverse" => {
            if tensor {
                let i = match via {
                    "tensor_method" => t.inverse(),
                    "tensor_view_method" => TensorView::from(&t).inverse(),
                    _ => la::inverse_tensor::<f64, _, _>(&t),
                };
                i.map(|i| format!("some {}", tsz(&i)))
            } else {
                let i = if via == "method" { m.inverse() } else { la::inverse::<f64>(&m) };
                i.map(|i| format!("some {}", sz(&i)))
            }
        }
        "cholesky" => {
            if tensor {
                la::cholesky_decomposition_tensor::<f64, _, _>(&t).map(|l| format!("some {}", tsz(&l)))
            } else {
                la::cholesky_decomposition::<f64>(&m).map(|l| format!("some {}", sz(&l)))
            }
        }
        "ldlt" => {
            if tensor {
                la::ldlt_decomposition_tensor::<f64, _, _>(&t).map(|d| format!("some {} {}", tsz(&d.l), tsz(&d.d)))
            } else {
                la::ldlt_decomposition::<f64>(&m).map(|d| format!("some {} {}", sz(&d.l), sz(&d.d)))
            }
        }
        "qr" => {
            if tensor {
                la::qr_decomposition_tensor::<f64, _, _>(&t).map(|d| format!("some {} {}", tsz(&d.q), tsz(&d.r)))
            } else {
                la::qr_decomposition::<f64>(&m).map(|d| format!("some {} {}", sz(&d.q), sz(&d.r)))
            }
        }
        _ => Some("bad-op".to_string()),
    });
    answer(r, |o| o.unwrap_or_else(|| "none".to_string()))
}

fn record(kind: &str, shape: &[(&'static str, usize)], lists: &[Vec<&str>]) -> String {
    let l0: WengertList<f64> = WengertList::new();
    let l1: WengertList<f64> = WengertList::new();
    let l2: WengertList<f64> = WengertList::new();
    let lists_of = [&l0, &l1, &l2];
    let hist = |h: Option<&WengertList<f64>>| -> String {
        match h {
            None => "c".into(),
            Some(p) => match lists_of.iter().position(|l| std::ptr::eq(*l, p)) {
                Some(k) => k.to_string(),
                None => "?".into(),
            },
        }
    };
    let mk = |h: &str, x: f64| -> Record<f64> {
        if h == "c" {
            Record::constant(x)
        } else {
            Record::variable(x, lists_of[h.parse::<usize>().unwrap()])
        }
    };
    macro_rules! show_err {
        ($e:expr) => {
            match $e {
                easy_ml::differentiation::iterators::InvalidRecordIteratorError::Shape { requested, length } => {
                    format!("err shape requested={} length={}", show_shape(&requested.shape()), length)
                }
                easy_ml::differentiation::iterators::InvalidRecordIteratorError::Empty => "err empty".to_string(),
                easy_ml::differentiation::iterators::InvalidRecordIteratorError::InconsistentHistory(h) => {
                    format!("err inconsistent first={} later={}", hist(h.first), hist(h.later))
                }
            }
        };
    }
    let r = catch(|| {
        if kind == "tensor" {
            with_d!(shape.len(), D => {
                let sh = shape_array::<D>(shape);
                if lists.len() == 1 {
                    let it = lists[0].iter().enumerate().map(|(k, h)| mk(h, k as f64));
                    match RecordTensor::from_iter(sh, it) {
                        Ok(t) => format!("ok history={} shape={}", hist(t.history()), show_shape(&t.shape())),
                        Err(e) => show_err!(e),
                    }
                } else {
                    let it = (0..lists[0].len()).map(|k| [mk(lists[0][k], k as f64), mk(lists[1][k], k as f64)]);
                    let rs: [Result<RecordTensor<f64, Tensor<(f64, usize), D>, D>, _>; 2] = RecordTensor::from_iters(sh, it);
                    rs.into_iter()
                        .map(|r| match r {
                            Ok(t) => format!("ok history={} shape={}", hist(t.history()), show_shape(&t.shape())),
                            Err(e) => show_err!(e),
                        })
                        .collect::<Vec<_>>()
                        .join(" | ")
                }
            })
        } else {
            let size = (shape[0].1, shape[1].1);
            let ok = |m: &RecordMatrix<f64, Matrix<(f64, usize)>>| {
                format!("ok history={} shape=rows:{},columns:{}", hist(m.history()), m.size().0, m.size().1)
            };
            if lists.len() == 1 {
                let it = lists[0].iter().enumerate().map(|(k, h)| mk(h, k as f64));
                match RecordMatrix::from_iter(size, it) {
                    Ok(m) => ok(&m),
                    Err(e) => show_err!(e),
                }
            } else {
                let it = (0..lists[0].len()).map(|k| [mk(lists[0][k], k as f64), mk(lists[1][k], k as f64)]);
                let rs: [Result<RecordMatrix<f64, Matrix<(f64, usize)>>, _>; 2] = RecordMatrix::from_iters(size, it);
                rs.into_iter()
                    .map(|r| match r {
                        Ok(m) => ok(&m),
                        Err(e) => show_err!(e),
                    })
                    .collect::<Vec<_>>()
                    .join(" | ")
            }
        }
    });
    answer(r, |s| s)
}

// ---------------------------------------------------------------------------------------------
// generation
// ---------------------------------------------------------------------------------------------

const MAX: usize = usize::MAX;
const HALF: usize = 1 << 63;

/// the boundary set of the design: {0, 1, len−1, len, len+1, 2^63−1, 2^63, 2^64−2, 2^64−1}
pub fn bset(len: usize) -> Vec<usize> {
    let mut v = vec![0, 1, len.saturating_sub(1), len, len.saturating_add(1), HALF - 1, HALF, MAX - 1, MAX];
    v.sort();
    v.dedup();
    v
}

/// a smaller ring for products of coordinates
fn bset_small(len: usize) -> Vec<usize> {
    let mut v = vec![0, len.saturating_sub(1), len, HALF, MAX];
    v.sort();
    v.dedup();
    v
}

const NAMES: [&str; 6] = ["a", "b", "c", "d", "e", "f"];

fn named_shape(lens: &[usize]) -> Vec<(&'static str, usize)> {
    lens.iter().enumerate().map(|(i, l)| (intern(NAMES[i]), *l)).collect()
}

fn tuples(choices: &[Vec<usize>]) -> Vec<Vec<usize>> {
    let mut out: Vec<Vec<usize>> = vec![vec![]];
    for ch in choices {
        let mut next = vec![];
        for p in &out {
            for &c in ch {
                let mut q = p.clone();
                q.push(c);
                next.push(q);
            }
        }
        out = next;
    }
    out
}

const GET_VIAS: [&str; 5] = ["ref", "mut", "access", "access_mut", "view"];
const MGET_VIAS: [&str; 4] = ["ref", "mut", "view", "view_mut"];
const RANGE_VIAS: [&str; 4] = ["indexrange", "tuple", "array", "range"];

fn range_via(g: &mut Gen, ranges: &[(usize, usize)]) -> &'static str {
    let v = *g.rng.pick(&RANGE_VIAS);
    // `start..start+len` must be representable to build a std Range
    if v == "range" && ranges.iter().any(|(a, b)| a.checked_add(*b).is_none()) {
        "indexrange"
    } else {
        v
    }
}

/// `get` lines over the current tensor view of the given view lengths
fn gen_gets(g: &mut Gen, lens: &[usize], full: bool, tag: &str) {
    let tuples_ = if lens.is_empty() {
        vec![vec![]]
    } else if full && lens.len() <= 2 {
        tuples(&lens.iter().map(|&l| bset(l)).collect::<Vec<_>>())
    } else if full && lens.len() == 3 {
        tuples(&lens.iter().map(|&l| bset_small(l)).collect::<Vec<_>>())
    } else {
        let mut t = vec![];
        for _ in 0..12 {
            t.push(
                lens.iter()
                    .map(|&l| if g.rng.chance(2, 3) { g.rng.below(l.max(1)) } else { *g.rng.pick(&bset(l)) })
                    .collect(),
            );
        }
        // every in-range coordinate when small
        if lens.iter().product::<usize>() <= 12 {
            t.extend(tuples(&lens.iter().map(|&l| (0..l).collect()).collect::<Vec<_>>()));
        }
        t
    };
    for idx in tuples_ {
        let inside = idx.iter().zip(lens.iter()).all(|(i, l)| i < l);
        g.count(&format!("get.{}.{}", tag, if inside { "in" } else { "out" }));
        if idx.iter().any(|&i| i >= HALF - 1) {
            g.count("get.coordinate>=2^63-1");
        }
        let via = *g.rng.pick(&GET_VIAS);
        g.op(format!("get {} via={}", show_usizes(&idx), via));
    }
}

fn gen_mgets(g: &mut Gen, rows: usize, cols: usize, tag: &str) {
    for r in bset(rows) {
        for c in bset(cols) {
            let inside = r < rows && c < cols;
            g.count(&format!("mget.{}.{}", tag, if inside { "in" } else { "out" }));
            if rows == 0 || cols == 0 {
                g.count("mget.on_empty_view");
            }
            let via = *g.rng.pick(&MGET_VIAS);
            g.op(format!("mget {} {} via={}", r, c, via));
        }
    }
    for r in 0..rows.min(4) {
        for c in 0..cols.min(5) {
            let via = *g.rng.pick(&MGET_VIAS);
            g.op(format!("mget {} {} via={}", r, c, via));
        }
    }
}

fn gen_try_from(g: &mut Gen) {
    let lens_pool: Vec<usize> = vec![0, 1, 2, 3, 1 << 32, HALF - 1, HALF, MAX - 1, MAX];
    for d in 0..=3usize {
        let all = tuples(&vec![lens_pool.clone(); d]);
        for lens in all {
            let shape = named_shape(&lens);
            // products that are representable
            let product = lens.iter().try_fold(1usize, |a, &l| a.checked_mul(l));
            let mut ns: Vec<usize> = vec![0, 1, 6];
            if let Some(p) = product {
                if p <= 64 {
                    ns.extend([p, p + 1, p.saturating_sub(1)]);
                }
            }
            // the wrapped product, were the multiplication to wrap silently
            let wrapped = lens.iter().fold(1usize, |a, &l| a.wrapping_mul(l));
            if wrapped <= 64 {
                ns.push(wrapped);
            }
            ns.sort();
            ns.dedup();
            for n in ns {
                if d == 3 && !g.thorough && !g.rng.chance(1, 3) {
                    continue;
                }
                g.count(&format!("try_from.D={}", d));
                g.count(match product {
                    None => "try_from.product_overflows",
                    Some(p) if p == n && lens.iter().all(|&l| l > 0) => "try_from.valid",
                    Some(_) => "try_from.invalid",
                });
                g.op(format!("@ try_from {} {}", show_shape(&shape), n));
                if product == Some(n) && n > 0 && n <= 64 {
                    gen_gets(g, &lens, false, "tensor");
                }
            }
            g.op(format!("@ is_valid {}", show_shape(&shape)));
            g.count("is_valid");
        }
    }
    // duplicate names, with and without a matching element count, in every position
    for lens in [vec![2, 3], vec![2, 3, 2], vec![1, 1, 1, 1], vec![MAX, 2, 2], vec![2, 0, 2]] {
        let d = lens.len();
        for i in 0..d {
            for j in 0..d {
                if i == j {
                    continue;
                }
                let mut shape = named_shape(&lens);
                shape[j].0 = shape[i].0;
                let p = lens.iter().try_fold(1usize, |a, &l| a.checked_mul(l)).unwrap_or(3).min(64);
                for n in [p, p + 1] {
                    g.op(format!("@ try_from {} {}", show_shape(&shape), n));
                    g.count("try_from.duplicate_names");
                }
                g.op(format!("@ is_valid {}", show_shape(&shape)));
            }
        }
    }
    // higher dimensionalities
    for lens in [vec![1, 2, 1, 2], vec![2, 1, 2, 1, 2], vec![1, 2, 1, 2, 1, 2], vec![2, 2, HALF, 2], vec![MAX, MAX, MAX, MAX, MAX, MAX]] {
        let shape = named_shape(&lens);
        let p = lens.iter().try_fold(1usize, |a, &l| a.checked_mul(l));
        for n in [0, 4, 8, 9] {
            g.op(format!("@ try_from {} {}", show_shape(&shape), n));
            g.count(&format!("try_from.D={}", lens.len()));
            if p == Some(n) {
                gen_gets(g, &lens, false, "tensor");
            }
        }
    }
}

fn gen_access(g: &mut Gen) {
    for lens in [vec![], vec![3], vec![2, 3], vec![2, 3, 2], vec![1, 2, 2, 3]] {
        let shape = named_shape(&lens);
        let d = lens.len();
        let names: Vec<&str> = shape.iter().map(|s| s.0).collect();
        let mut lists: Vec<Vec<&str>> = permutations(d).iter().map(|p| p.iter().map(|&i| names[i]).collect()).collect();
        let good = lists.len();
        if d >= 1 {
            for i in 0..d {
                let mut l = names.clone();
                l[i] = "zz";
                lists.push(l);
                if d >= 2 {
                    let mut l = names.clone();
                    l[i] = names[(i + 1) % d];
                    lists.push(l);
                    let mut l = names.clone();
                    l[i] = names[(i + 1) % d];
                    l[(i + 1) % d] = "zz";
                    lists.push(l);
                }
            }
            lists.push(vec!["zz"; d]);
            lists.push(vec![names[0]; d]);
        }
        for (k, list) in lists.iter().enumerate() {
            for op in ["access", "transpose"] {
                g.op(format!("@ tensor {}", show_shape(&shape)));
                g.op(format!("{} {}", op, show_names(list)));
                g.count(&format!("{}.{}", op, if k < good { "permutation" } else { "invalid_names" }));
                if k < good {
                    // lengths in the order of the view
                    let vlens: Vec<usize> = if op == "access" {
                        list.iter().map(|n| shape.iter().find(|s| s.0 == *n).unwrap().1).collect()
                    } else {
                        list.iter().map(|n| shape.iter().find(|s| s.0 == *n).unwrap().1).collect()
                    };
                    gen_gets(g, &vlens, d <= 2, op);
                } else {
                    // the source is still usable after a failed construction
                    g.op(format!("get {}", show_usizes(&vec![0; d])));
                }
            }
        }
    }
}

fn gen_ranges(g: &mut Gen) {
    // one dimension, the full boundary product of (start, length), all four all-modes + named
    for len in [1usize, 2, 4] {
        let shape = named_shape(&[len]);
        for start in bset(len) {
            for l in bset(len) {
                for kind in ["range", "mask"] {
                    for mode in ["from_all", "from_all_strict", "from", "from_strict"] {
                        if !g.thorough && len == 2 && !g.rng.chance(1, 2) {
                            continue;
                        }
                        g.op(format!("@ tensor {}", show_shape(&shape)));
                        let via = range_via(g, &[(start, l)]);
                        if mode.starts_with("from_all") {
                            g.op(format!("{} {} {}:{} via={}", kind, mode, start, l, via));
                        } else {
                            g.op(format!("{} {} a:{}:{} via={}", kind, mode, start, l, via));
                        }
                        g.count(&format!("{}.{}", kind, mode));
                        if start.checked_add(l).is_none() {
                            g.count("range.start+length_overflows");
                        }
                        // length of the resulting view if construction succeeds
                        let end = start.saturating_add(l).min(len);
                        let clipped = end.saturating_sub(start);
                        let vlen = if kind == "range" { clipped } else { len - clipped };
                        let strict_fail = mode.ends_with("strict") && start.checked_add(l).map(|e| e > len).unwrap_or(true);
                        if vlen > 0 && !strict_fail {
                            g.count(&format!("{}.constructed", kind));
                            gen_gets(g, &[vlen], true, kind);
                        } else {
                            g.count(&format!("{}.rejected", kind));
                            g.op("get 0".to_string());
                        }
                    }
                }
            }
        }
    }
    // two and three dimensions: random boundary picks, `None` entries, named subsets
    let rounds = if g.thorough { 12000 } else { 600 };
    for _ in 0..rounds {
        let d = g.rng.range(2, 3);
        let lens: Vec<usize> = (0..d).map(|_| g.rng.range(1, 4)).collect();
        let shape = named_shape(&lens);
        let kind = if g.rng.chance(1, 2) { "range" } else { "mask" };
        let mode = *g.rng.pick(&["from_all", "from_all_strict", "from", "from_strict"]);
        let pick = |g: &mut Gen, len: usize| -> (usize, usize) {
            if g.rng.chance(1, 2) {
                // mostly valid
                let s = g.rng.below(len);
                (s, g.rng.range(0, len - s + 1))
            } else {
                (*g.rng.pick(&bset(len)), *g.rng.pick(&bset(len)))
            }
        };
        g.op(format!("@ tensor {}", show_shape(&shape)));
        let mut vlens = lens.clone();
        let mut ok = true;
        let mut check = |d: usize, r: (usize, usize), vlens: &mut Vec<usize>, ok: &mut bool| {
            let end = r.0.saturating_add(r.1).min(lens[d]);
            let clipped = end.saturating_sub(r.0);
            vlens[d] = if kind == "range" { clipped } else { lens[d] - clipped };
            if vlens[d] == 0 || (mode.ends_with("strict") && r.0.checked_add(r.1).map(|e| e > lens[d]).unwrap_or(true)) {
                *ok = false;
            }
        };
        if mode.starts_with("from_all") {
            let all: Vec<Option<(usize, usize)>> =
                (0..d).map(|i| if g.rng.chance(1, 4) { None } else { Some(pick(g, lens[i])) }).collect();
            for (i, o) in all.iter().enumerate() {
                if let Some(r) = o {
                    check(i, *r, &mut vlens, &mut ok);
                }
            }
            let flat: Vec<(usize, usize)> = all.iter().flatten().cloned().collect();
            let via = range_via(g, &flat);
            g.op(format!("{} {} {} via={}", kind, mode, show_all_ranges(&all), via));
        } else {
            // named: a subset in any order, sometimes a duplicate or an unknown name
            let mut dims: Vec<usize> = (0..d).collect();
            g.rng.shuffle(&mut dims);
            dims.truncate(g.rng.range(0, d));
            let mut named: Vec<(String, (usize, usize))> =
                dims.iter().map(|&i| (NAMES[i].to_string(), pick(g, lens[i]))).collect();
            for (n, r) in &named {
                let i = NAMES.iter().position(|x| x == n).unwrap();
                check(i, *r, &mut vlens, &mut ok);
            }
            match g.rng.below(8) {
                0 if !named.is_empty() => {
                    let dup = named[0].clone();
                    named.push((dup.0, pick(g, 3)));
                    ok = false;
                    g.count("range.named.duplicate");
                }
                1 => {
                    named.push(("zz".to_string(), pick(g, 3)));
                    ok = false;
                    g.count("range.named.unknown");
                }
                2 if !named.is_empty() => {
                    let dup = named[0].clone();
                    named.push((dup.0, pick(g, 3)));
                    named.push(("zz".to_string(), pick(g, 3)));
                    ok = false;
                    g.count("range.named.duplicate_and_unknown");
                }
                _ => {}
            }
            let flat: Vec<(usize, usize)> = named.iter().map(|n| n.1).collect();
            let via = range_via(g, &flat);
            let s = if named.is_empty() {
                "-".to_string()
            } else {
                named.iter().map(|(n, r)| format!("{}:{}:{}", n, r.0, r.1)).collect::<Vec<_>>().join(",")
            };
            g.op(format!("{} {} {} via={}", kind, mode, s, via));
        }
        g.count(&format!("{}.{}", kind, mode));
        g.count(&format!("{}.D={}", kind, d));
        if ok {
            g.count(&format!("{}.constructed", kind));
            gen_gets(g, &vlens, false, kind);
            // a second adaptor on top (depth 2)
            if g.rng.chance(1, 3) {
                g.op(format!("reverse {}", NAMES[0]));
                gen_gets(g, &vlens, false, "reverse_of_range");
            }
        } else {
            g.count(&format!("{}.rejected", kind));
            g.op(format!("get {}", show_usizes(&vec![0; d])));
        }
    }
}

fn gen_adaptors(g: &mut Gen) {
    // reverse: every subset of dimensions
    for lens in [vec![1usize], vec![3], vec![2, 3], vec![2, 1, 3]] {
        let shape = named_shape(&lens);
        let d = lens.len();
        for mask in 0..(1u32 << d) {
            let names: Vec<&str> = (0..d).filter(|i| mask & (1 << i) != 0).map(|i| NAMES[i]).collect();
            g.op(format!("@ tensor {}", show_shape(&shape)));
            g.op(format!("reverse {}", show_names(&names)));
            g.count("reverse");
            gen_gets(g, &lens, true, "reverse");
        }
    }
    // rename
    for lens in [vec![2usize], vec![2, 3]] {
        let shape = named_shape(&lens);
        g.op(format!("@ tensor {}", show_shape(&shape)));
        let names: Vec<&str> = (0..lens.len()).map(|i| ["x", "a"][i]).collect();
        g.op(format!("rename {}", show_names(&names)));
        g.count("rename");
        gen_gets(g, &lens, true, "rename");
    }
    // index (select): every dimension and every selectable index, pairs for D = 3
    for lens in [vec![3usize], vec![2, 3], vec![2, 3, 2], vec![1, 2, 2, 2]] {
        let shape = named_shape(&lens);
        let d = lens.len();
        for i in 0..d {
            for x in 0..lens[i] {
                g.op(format!("@ tensor {}", show_shape(&shape)));
                g.op(format!("index {}:{}", NAMES[i], x));
                g.count("index.I=1");
                let rest: Vec<usize> = (0..d).filter(|k| *k != i).map(|k| lens[k]).collect();
                gen_gets(g, &rest, d <= 3, "index");
            }
        }
        if d >= 2 && d <= 3 {
            for i in 0..d {
                for j in 0..d {
                    if i == j {
                        continue;
                    }
                    g.op(format!("@ tensor {}", show_shape(&shape)));
                    g.op(format!("index {}:{},{}:{}", NAMES[i], lens[i] - 1, NAMES[j], 0));
                    g.count("index.I=2");
                    let rest: Vec<usize> = (0..d).filter(|k| *k != i && *k != j).map(|k| lens[k]).collect();
                    gen_gets(g, &rest, true, "index");
                }
            }
        }
    }
    // expansion: every insertion position, two at the same position, unsorted input
    for lens in [vec![], vec![3usize], vec![2, 3]] {
        let shape = named_shape(&lens);
        let d = lens.len();
        for p in 0..=d {
            g.op(format!("@ tensor {}", show_shape(&shape)));
            g.op(format!("expand {}:x", p));
            g.count("expand.I=1");
            let mut v = lens.clone();
            v.insert(p, 1);
            gen_gets(g, &v, true, "expand");
            for q in 0..=d {
                g.op(format!("@ tensor {}", show_shape(&shape)));
                g.op(format!("expand {}:x,{}:y", p, q));
                g.count("expand.I=2");
                // stable sort by position: x before y when p <= q
                let mut v = lens.clone();
                if p <= q {
                    v.insert(q, 1);
                    v.insert(p, 1);
                } else {
                    v.insert(p, 1);
                    v.insert(q, 1);
                }
                gen_gets(g, &v, d <= 1, "expand");
            }
        }
    }
    // stack
    for lens in [vec![], vec![2usize], vec![2, 3]] {
        let shape = named_shape(&lens);
        let d = lens.len();
        for n in 1..=4usize {
            for p in 0..=d {
                for via in ["array", "tuple"] {
                    if via == "tuple" && n == 1 {
                        continue;
                    }
                    g.op(format!("@ stack {} {} {}:s via={}", show_shape(&shape), n, p, via));
                    g.count(&format!("stack.N={}", n));
                    let mut v = lens.clone();
                    v.insert(p, n);
                    gen_gets(g, &v, true, "stack");
                }
            }
        }
    }
    // chain: differing lengths along the chained dimension
    for (shapes, along) in [
        (vec![vec![2usize]], 0usize),
        (vec![vec![2], vec![3]], 0),
        (vec![vec![1], vec![1], vec![2]], 0),
        (vec![vec![2, 2], vec![2, 1]], 1),
        (vec![vec![1, 2], vec![3, 2], vec![1, 2]], 0),
        (vec![vec![1, 2], vec![3, 2], vec![1, 2], vec![2, 2]], 0),
        (vec![vec![2, 1, 2], vec![2, 3, 2]], 1),
    ] {
        for via in ["array", "tuple"] {
            if via == "tuple" && shapes.len() == 1 {
                continue;
            }
            let s = shapes.iter().map(|l| show_shape(&named_shape(l))).collect::<Vec<_>>().join("|");
            g.op(format!("@ chain {} {} via={}", s, NAMES[along], via));
            g.count(&format!("chain.N={}", shapes.len()));
            let mut v = shapes[0].clone();
            v[along] = shapes.iter().map(|l| l[along]).sum();
            gen_gets(g, &v, true, "chain");
        }
    }
    // depth two and three: adaptors over adaptors
    let rounds = if g.thorough { 6000 } else { 300 };
    for _ in 0..rounds {
        let lens: Vec<usize> = vec![g.rng.range(1, 3), g.rng.range(1, 3)];
        g.op(format!("@ tensor {}", show_shape(&named_shape(&lens))));
        let mut vlens = lens.clone();
        let mut names: Vec<String> = vec!["a".into(), "b".into()];
        let depth = g.rng.range(2, 3);
        for _ in 0..depth {
            match g.rng.below(6) {
                0 => {
                    let k = g.rng.below(vlens.len());
                    g.op(format!("reverse {}", names[k]));
                    g.count("compose.reverse");
                }
                1 => {
                    let k = g.rng.below(vlens.len());
                    if vlens[k] >= 2 {
                        let s = g.rng.below(vlens[k] - 1);
                        g.op(format!("mask from {}:{}:1", names[k], s));
                        vlens[k] -= 1;
                        g.count("compose.mask");
                    }
                }
                2 => {
                    let k = g.rng.below(vlens.len());
                    let s = g.rng.below(vlens[k]);
                    g.op(format!("range from {}:{}:{}", names[k], s, MAX));
                    vlens[k] -= s;
                    g.count("compose.range_clipped");
                }
                3 => {
                    if vlens.len() == 2 {
                        g.op(format!("access {},{}", names[1], names[0]));
                        vlens.swap(0, 1);
                        names.swap(0, 1);
                        g.count("compose.access");
                    }
                }
                4 => {
                    if vlens.len() == 2 {
                        g.op(format!("transpose {},{}", names[1], names[0]));
                        vlens.swap(0, 1);
                        g.count("compose.transpose");
                    }
                }
                _ => {
                    if vlens.len() == 2 {
                        g.op("mtensor".to_string());
                        let (rr, rc) = (g.rng.below(2), g.rng.below(2));
                        g.op(format!("mreverse {} {}", rr, rc));
                        g.op(format!("tmatrix {} {}", names[0], names[1]));
                        g.count("compose.interop_roundtrip");
                    }
                }
            }
        }
        gen_gets(g, &vlens, true, "composed");
    }
}

fn gen_matrices(g: &mut Gen) {
    let sizes: Vec<(usize, usize)> = vec![(1, 1), (1, 3), (2, 2), (3, 2), (3, 4)];
    for &(rows, cols) in &sizes {
        g.op(format!("@ matrix {} {}", rows, cols));
        gen_mgets(g, rows, cols, "matrix");
        g.count("matrix");
        // the four reversal settings
        for r in 0..2 {
            for c in 0..2 {
                g.op(format!("@ matrix {} {}", rows, cols));
                g.op(format!("mreverse {} {} via={}", r, c, if r == c { "view" } else { "direct" }));
                g.count("mreverse");
                gen_mgets(g, rows, cols, "mreverse");
            }
        }
    }
    // ranges: the boundary product for rows with a fixed column range, and vice versa
    for &(rows, cols) in &[(2usize, 3usize), (3, 2)] {
        for start in bset(rows) {
            for len in bset(rows) {
                for (cs, cl) in [(0usize, cols), (1, MAX), (cols, 1)] {
                    if !g.thorough && cs != 0 && !g.rng.chance(1, 3) {
                        continue;
                    }
                    g.op(format!("@ matrix {} {}", rows, cols));
                    let via = range_via(g, &[(start, len), (cs, cl)]);
                    let via = if via == "indexrange" && g.rng.chance(1, 4) { "view" } else { via };
                    g.op(format!("mrange {}:{} {}:{} via={}", start, len, cs, cl, via));
                    g.count("mrange");
                    if start.checked_add(len).is_none() || cs.checked_add(cl).is_none() {
                        g.count("mrange.start+length_overflows");
                    }
                    let vr = start.saturating_add(len).min(rows).saturating_sub(start);
                    let vc = cs.saturating_add(cl).min(cols).saturating_sub(cs);
                    gen_mgets(g, vr, vc, "mrange");
                    // reversed range (possibly empty), and a range of it
                    if g.rng.chance(1, 3) {
                        let (rr, rc) = (g.rng.below(2), g.rng.below(2));
                        g.op(format!("mreverse {} {}", rr, rc));
                        g.count("mreverse_of_mrange");
                        gen_mgets(g, vr, vc, "mreverse_of_mrange");
                        g.op(format!("mrange 0:{} 1:{}", MAX, MAX));
                        gen_mgets(g, vr, vc.saturating_sub(1), "mrange_of_mreverse_of_mrange");
                    }
                }
            }
        }
    }
    // partitions and their parts
    for (rows, cols, rp, cp) in [
        (3usize, 3usize, vec![1usize], vec![2usize]),
        (3, 4, vec![0, 3], vec![]),
        (2, 2, vec![], vec![]),
        (3, 3, vec![2, 3, 3], vec![1]),
        (4, 3, vec![1, 2], vec![0, 1, 3]),
    ] {
        let nparts = (rp.len() + 1) * (cp.len() + 1);
        for k in 0..nparts {
            let via = if rp.len() == 1 && cp.len() == 1 { "quadrants" } else { "partition" };
            g.op(format!("@ partition {} {} {} {} via={}", rows, cols, show_usizes(&rp), show_usizes(&cp), via));
            g.op(format!("part {}", k));
            g.count("part");
            let mut rb = rp.clone();
            rb.push(rows);
            let mut cb = cp.clone();
            cb.push(cols);
            let (ri, ci) = (k / (cp.len() + 1), k % (cp.len() + 1));
            let pr = rb[ri] - if ri == 0 { 0 } else { rb[ri - 1] };
            let pc = cb[ci] - if ci == 0 { 0 } else { cb[ci - 1] };
            let (pr, pc) = if pr == 0 || pc == 0 { (0, 0) } else { (pr, pc) };
            gen_mgets(g, pr, pc, "part");
            if k % 2 == 0 {
                g.op("mreverse 1 1".to_string());
                gen_mgets(g, pr, pc, "mreverse_of_part");
            }
        }
    }
    // scalars and tensor conversion
    for r in 1..=3usize {
        for c in 1..=3usize {
            g.op(format!("@ try_into_scalar {} {}", r, c));
            g.count("try_into_scalar");
            for (n1, n2) in [("x", "y"), ("x", "x"), ("row", "column")] {
                for via in ["into_tensor", "try_from", "try_into"] {
                    g.op(format!("@ into_tensor {} {} {} {} via={}", r, c, n1, n2, via));
                    g.count("into_tensor");
                    if n1 != n2 {
                        gen_gets(g, &[r, c], false, "into_tensor");
                    }
                }
            }
        }
    }
    // TensorRefMatrix::with_names over full, clipped and empty matrix views
    for (rs, rl, cs, cl) in [(0usize, 2usize, 0usize, 3usize), (1, MAX, 1, MAX), (2, 1, 0, 3), (0, 2, 3, MAX), (5, 5, 7, 7), (0, 0, 0, 0)] {
        for (n1, n2, via) in [("x", "y", "with_names"), ("x", "x", "with_names"), ("row", "column", "from")] {
            g.op("@ matrix 2 3".to_string());
            g.op(format!("mrange {}:{} {}:{}", rs, rl, cs, cl));
            g.op(format!("tmatrix {} {} via={}", n1, n2, via));
            g.count("with_names");
            let vr = rs.saturating_add(rl).min(2).saturating_sub(rs);
            let vc = cs.saturating_add(cl).min(3).saturating_sub(cs);
            if vr > 0 && vc > 0 && n1 != n2 {
                gen_gets(g, &[vr, vc], true, "tensor_ref_matrix");
                g.op("mtensor".to_string());
                gen_mgets(g, vr, vc, "matrix_ref_tensor");
            } else {
                g.count("with_names.rejected");
                gen_mgets(g, vr, vc, "after_rejected_with_names");
            }
        }
    }
}

fn gen_linalg(g: &mut Gen) {
    for r in 1..=4usize {
        for c in 1..=4usize {
            for f in ["determinant", "inverse", "cholesky", "ldlt", "qr"] {
                let vias: &[&str] = match f {
                    "determinant" | "inverse" => &["fn", "method", "tensor", "tensor_method"],
                    _ => &["fn", "tensor"],
                };
                for via in vias {
                    g.op(format!("@ linalg {} {} {} 0 via={}", f, r, c, via));
                    g.count(&format!("linalg.{}", f));
                    if r != c {
                        g.count("linalg.non_square");
                    }
                    if r == 1 || c == 1 {
                        g.count("linalg.degenerate_1xN_or_Nx1");
                    }
                    if f == "inverse" {
                        g.op(format!("@ linalg {} {} {} 1 via={}", f, r, c, via));
                    }
                }
            }
        }
    }
}

fn gen_records(g: &mut Gen) {
    let hist_lists: Vec<Vec<&str>> = vec![
        vec![],
        vec!["0"],
        vec!["c"],
        vec!["0", "0"],
        vec!["c", "c"],
        vec!["0", "c"],
        vec!["c", "0"],
        vec!["0", "1"],
        vec!["0", "0", "0", "0"],
        vec!["0", "1", "2", "0"],
        vec!["0", "0", "1", "c"],
        vec!["c", "c", "c", "c", "c", "c"],
        vec!["1", "1", "1", "1", "1", "1"],
        vec!["1", "1", "1", "1", "0", "1"],
    ];
    let shapes: Vec<Vec<usize>> =
        vec![vec![], vec![1], vec![2], vec![4], vec![2, 2], vec![1, 2], vec![2, 3], vec![0, 2], vec![MAX, 2], vec![HALF, 2], vec![2, HALF], vec![1 << 32, 1 << 32], vec![2, 1, 2], vec![HALF, 2, 2]];
    for hl in &hist_lists {
        let hs = if hl.is_empty() { "-".to_string() } else { hl.join(",") };
        for lens in &shapes {
            let shape = named_shape(lens);
            g.op(format!("@ record tensor {} {}", show_shape(&shape), hs));
            g.count("record.tensor.from_iter");
            if lens.iter().try_fold(1usize, |a, &l| a.checked_mul(l)).is_none() {
                g.count("record.product_overflows");
            }
            if lens.len() == 2 {
                g.op(format!("@ record matrix rows:{},columns:{} {}", lens[0], lens[1], hs));
                g.count("record.matrix.from_iter");
            }
            // from_iters, N = 2: the second stream is a rotated copy
            let mut h2: Vec<&str> = hl.clone();
            h2.reverse();
            let hs2 = if h2.is_empty() { "-".to_string() } else { h2.join(",") };
            g.op(format!("@ records tensor {} {}|{}", show_shape(&shape), hs, hs2));
            g.count("record.tensor.from_iters");
            if lens.len() == 2 {
                g.op(format!("@ records matrix rows:{},columns:{} {}|{}", lens[0], lens[1], hs, hs2));
                g.count("record.matrix.from_iters");
            }
        }
    }
}


/// every in-range coordinate tuple plus a few boundary ones: for views beyond the small sizes
fn gen_gets_large(g: &mut Gen, lens: &[usize], tag: &str) {
    let n: usize = lens.iter().product();
    let mut tuples_: Vec<Vec<usize>> = if n <= 160 {
        tuples(&lens.iter().map(|&l| (0..l).collect()).collect::<Vec<_>>())
    } else {
        (0..160).map(|_| lens.iter().map(|&l| g.rng.below(l)).collect()).collect()
    };
    for _ in 0..16 {
        tuples_.push(lens.iter().map(|&l| *g.rng.pick(&bset(l))).collect());
    }
    for idx in tuples_ {
        let inside = idx.iter().zip(lens.iter()).all(|(i, l)| i < l);
        g.count(&format!("large.get.{}.{}", tag, if inside { "in" } else { "out" }));
        let via = *g.rng.pick(&GET_VIAS);
        g.op(format!("get {} via={}", show_usizes(&idx), via));
    }
}

fn gen_mgets_large(g: &mut Gen, rows: usize, cols: usize, tag: &str) {
    for r in 0..rows {
        for c in 0..cols {
            let via = *g.rng.pick(&MGET_VIAS);
            g.op(format!("mget {} {} via={}", r, c, via));
            g.count(&format!("large.mget.{}.in", tag));
        }
    }
    for _ in 0..12 {
        let (r, c) = (*g.rng.pick(&bset(rows)), *g.rng.pick(&bset(cols)));
        let via = *g.rng.pick(&MGET_VIAS);
        g.op(format!("mget {} {} via={}", r, c, via));
    }
}

/// "Large cases": inputs beyond the small sizes of the other sections — sides 8–12, 1×70 / 70×1,
/// dimensionality 5–6, deep stacks, many parts, 33–70 records — so that a fast path that only
/// runs from some size on is executed too.
fn gen_large(g: &mut Gen) {
    // Tensor::try_from with many elements and with 5–6 dimensions; its checked getters
    for lens in [vec![70usize], vec![8, 9], vec![12, 12], vec![2, 3, 2, 1, 3], vec![2, 2, 2, 2, 2, 2], vec![1, 70], vec![3, 1, 2, 2, 1, 3]] {
        let shape = named_shape(&lens);
        let p: usize = lens.iter().product();
        for n in [p, p - 1, p + 1] {
            g.op(format!("@ try_from {} {}", show_shape(&shape), n));
            g.count(&format!("large.try_from.D={}", lens.len()));
            if n == p {
                gen_gets_large(g, &lens, "tensor");
            }
        }
    }
    // tensors of dimensionality 5–6 (and long vectors) as receivers through every adaptor kind
    for lens in [vec![2usize, 1, 3, 2, 2], vec![2, 2, 1, 2, 3, 2], vec![33], vec![9, 8]] {
        let shape = named_shape(&lens);
        let d = lens.len();
        let names: Vec<&str> = shape.iter().map(|s| s.0).collect();
        let start = |g: &mut Gen| g.op(format!("@ tensor {}", show_shape(&shape)));
        // reverse every second dimension, then a mask and a clipped range on top (depth 3)
        start(g);
        let rev: Vec<&str> = (0..d).filter(|i| i % 2 == 0).map(|i| names[i]).collect();
        g.op(format!("reverse {}", show_names(&rev)));
        gen_gets_large(g, &lens, "reverse");
        let mut vl = lens.clone();
        let k = (0..d).max_by_key(|&i| lens[i]).unwrap();
        g.op(format!("mask from {}:0:1", names[k]));
        vl[k] -= 1;
        if vl[k] > 0 {
            gen_gets_large(g, &vl, "mask_of_reverse");
            g.op(format!("range from_strict {}:0:{}", names[k], vl[k]));
            g.op(format!("range from {}:{}:{}", names[d - 1], 0, MAX));
            gen_gets_large(g, &vl, "range_of_mask_of_reverse");
            g.op(format!("rename {}", show_names(&(0..d).map(|i| NAMES[(i + 1) % 6].to_uppercase()).collect::<Vec<_>>().iter().map(|s| s.as_str()).collect::<Vec<_>>())));
            gen_gets_large(g, &vl, "rename");
            g.count("large.stack_depth=5");
        }
        // access / transposition by a rotation and by the reversed order
        for op in ["access", "transpose"] {
            for rot in [1usize, d - 1] {
                start(g);
                let order: Vec<usize> = (0..d).map(|i| (i + rot) % d).collect();
                let list: Vec<&str> = order.iter().map(|&i| names[i]).collect();
                g.op(format!("{} {}", op, show_names(&list)));
                let vl: Vec<usize> = order.iter().map(|&i| lens[i]).collect();
                gen_gets_large(g, &vl, op);
            }
        }
        // select one dimension / expand by one
        if d <= 6 {
            start(g);
            g.op(format!("index {}:{}", names[d / 2], lens[d / 2] - 1));
            let rest: Vec<usize> = (0..d).filter(|i| *i != d / 2).map(|i| lens[i]).collect();
            gen_gets_large(g, &rest, "index");
        }
        if d <= 5 {
            start(g);
            g.op(format!("expand {}:x", d / 2));
            let mut v = lens.clone();
            v.insert(d / 2, 1);
            gen_gets_large(g, &v, "expand");
        }
    }
    // stacks and chains of longer sources
    g.op("@ stack a:33 3 0:s via=array".to_string());
    gen_gets_large(g, &[3, 33], "stack");
    g.op("@ stack a:3,b:11 4 2:s via=tuple".to_string());
    gen_gets_large(g, &[3, 11, 4], "stack");
    g.op("@ chain a:17|a:33|a:9 a via=array".to_string());
    gen_gets_large(g, &[59], "chain");
    g.op("@ chain a:2,b:17|a:2,b:16|a:2,b:1|a:2,b:36 b via=tuple".to_string());
    gen_gets_large(g, &[2, 70], "chain");
    // matrices with sides 8–12 and 1×70 / 70×1: ranges, reversals, stacks of depth 4–5
    for (rows, cols) in [(8usize, 9usize), (12, 12), (1, 70), (70, 1), (10, 11)] {
        g.op(format!("@ matrix {} {}", rows, cols));
        gen_mgets_large(g, rows, cols, "matrix");
        g.op(format!("@ matrix {} {}", rows, cols));
        let (mut vr, mut vc) = (rows, cols);
        for depth in 0..5 {
            if depth % 2 == 0 {
                let (rs, cs) = (if vr > 2 { 1 } else { 0 }, if vc > 2 { 1 } else { 0 });
                let (rl, cl) = (if depth == 0 { MAX } else { vr - rs }, if depth == 2 { MAX - 1 } else { vc - cs });
                g.op(format!("mrange {}:{} {}:{}", rs, rl, cs, cl));
                vr = rs.saturating_add(rl).min(vr) - rs;
                vc = cs.saturating_add(cl).min(vc) - cs;
            } else {
                g.op(format!("mreverse {} {}", depth % 4 / 2 + 1 - 1, 1));
            }
        }
        g.count("large.matrix_stack_depth=5");
        gen_mgets_large(g, vr, vc, "stack5");
        g.op(format!("tmatrix x y"));
        gen_gets_large(g, &[vr, vc], "tensor_ref_matrix");
    }
    // partition of a 12×12 matrix into 7×7 parts
    let (rp, cp) = (vec![1usize, 3, 4, 6, 9, 11], vec![2usize, 3, 5, 8, 10, 12]);
    for k in [0usize, 8, 16, 24, 27, 32, 40, 41, 47, 48] {
        g.op(format!("@ partition 12 12 {} {} via=partition", show_usizes(&rp), show_usizes(&cp)));
        g.op(format!("part {}", k));
        let mut rb = rp.clone();
        rb.push(12);
        let mut cb = cp.clone();
        cb.push(12);
        let (ri, ci) = (k / 7, k % 7);
        let pr = rb[ri] - if ri == 0 { 0 } else { rb[ri - 1] };
        let pc = cb[ci] - if ci == 0 { 0 } else { cb[ci - 1] };
        let (pr, pc) = if pr == 0 || pc == 0 { (0, 0) } else { (pr, pc) };
        gen_mgets_large(g, pr, pc, "part");
        g.count("large.part_of_49");
    }
    // conversions and decompositions at larger sizes (shape logic)
    for (r, c) in [(9usize, 9usize), (12, 5), (5, 12), (1, 70), (70, 1)] {
        g.op(format!("@ into_tensor {} {} x y via=into_tensor", r, c));
        gen_gets_large(g, &[r, c], "into_tensor");
        g.op(format!("@ try_into_scalar {} {}", r, c));
        for f in ["cholesky", "ldlt", "qr"] {
            if r * c <= 144 {
                g.op(format!("@ linalg {} {} {} 0 via=fn", f, r, c));
                g.op(format!("@ linalg {} {} {} 0 via=tensor", f, r, c));
                g.count("large.linalg");
            }
        }
    }
    // record iterators of 33–70 records
    for n in [33usize, 35, 64, 70] {
        let consistent: Vec<&str> = vec!["1"; n];
        let constants: Vec<&str> = vec!["c"; n];
        let mut late: Vec<&str> = vec!["0"; n];
        late[n - 2] = "2";
        let mut twice = late.clone();
        twice[17] = "1";
        for hl in [&consistent, &constants, &late, &twice] {
            let hs = hl.join(",");
            let mut rev = (*hl).clone();
            rev.reverse();
            let hs2 = rev.join(",");
            for lens in [vec![n], vec![n - 1], vec![5, 7], vec![7, 5], vec![1, n], vec![n, 1], vec![2, 5, 7], vec![8, 8], vec![2, 2, 2, 2, 2, 2], vec![HALF, 2]] {
                let shape = named_shape(&lens);
                g.op(format!("@ record tensor {} {}", show_shape(&shape), hs));
                g.op(format!("@ records tensor {} {}|{}", show_shape(&shape), hs, hs2));
                g.count("large.record.tensor");
                if lens.len() == 2 {
                    g.op(format!("@ record matrix rows:{},columns:{} {}", lens[0], lens[1], hs));
                    g.op(format!("@ records matrix rows:{},columns:{} {}|{}", lens[0], lens[1], hs, hs2));
                    g.count("large.record.matrix");
                }
            }
        }
    }
}


/// "Adversarial names": the fallible conversions and wrappers between tensors and matrices, and
/// the name-driven constructors, with the library's own interop names, prefixes of one another
/// and the empty name in unconventional positions, on non-square sizes.
fn gen_adversarial_names(g: &mut Gen) {
    let mut pairs: Vec<(String, String)> = [
        ("column", "row"), ("row", "column"), ("x", "row"), ("column", "y"), ("rows", "columns"),
        (EMPTY_NAME, "row"), ("column", EMPTY_NAME), ("row", "row"), (EMPTY_NAME, EMPTY_NAME), ("r", "c"),
        ("c", "r"), ("row", "rows"), ("samples", "features"),
    ]
    .iter()
    .map(|(a, b)| (a.to_string(), b.to_string()))
    .collect();
    for _ in 0..6 {
        let n = adversarial_names(&mut g.rng, 2);
        pairs.push((n[0].to_string(), n[1].to_string()));
    }
    let sizes = [(2usize, 3usize), (3, 2), (1, 4), (4, 1), (3, 5)];
    for (k, (n1, n2)) in pairs.iter().enumerate() {
        let (r, c) = sizes[k % sizes.len()];
        let distinct = n1 != n2;
        // Matrix::into_tensor / TryFrom, then the tensor seen as a matrix again
        for via in ["into_tensor", "try_from", "try_into"] {
            g.op(format!("@ into_tensor {} {} {} {} via={}", r, c, n1, n2, via));
            g.count("names.into_tensor");
            if distinct {
                gen_gets(g, &[r, c], true, "names.into_tensor");
                g.op("mtensor".to_string());
                gen_mgets(g, r, c, "names.matrix_ref_tensor");
            }
        }
        // TensorRefMatrix::with_names over a matrix and over a clipped / reversed view
        g.op(format!("@ matrix {} {}", r, c));
        g.op(format!("tmatrix {} {} via=with_names", n1, n2));
        g.count("names.with_names");
        if distinct {
            gen_gets(g, &[r, c], true, "names.tensor_ref_matrix");
            g.op("mtensor".to_string());
            gen_mgets(g, r, c, "names.matrix_ref_tensor");
            g.op(format!("tmatrix {} {} via=with_names", n2, n1));
            gen_gets(g, &[r, c], false, "names.tensor_ref_matrix2");
        } else {
            gen_mgets(g, r, c, "names.after_refusal");
        }
        g.op(format!("@ matrix {} {}", r + 1, c + 1));
        g.op(format!("mrange 1:{} 0:{}", MAX, c));
        g.op("mreverse 1 0".to_string());
        g.op(format!("tmatrix {} {} via=with_names", n1, n2));
        if distinct {
            gen_gets(g, &[r, c], false, "names.tensor_ref_matrix_of_view");
            g.op("mtensor".to_string());
            gen_mgets(g, r, c, "names.matrix_ref_tensor_of_view");
        }
        if !distinct {
            continue;
        }
        // a tensor with these names as a matrix, directly and after access / transposition
        g.op(format!("@ tensor {}:{},{}:{}", n1, r, n2, c));
        g.op("mtensor".to_string());
        g.count("names.matrix_ref_tensor_of_tensor");
        gen_mgets(g, r, c, "names.matrix_ref_tensor_of_tensor");
        g.op(format!("@ tensor {}:{},{}:{}", n1, r, n2, c));
        g.op(format!("access {},{}", n2, n1));
        gen_gets(g, &[c, r], true, "names.access");
        g.op("mtensor".to_string());
        gen_mgets(g, c, r, "names.matrix_ref_tensor_of_access");
        g.op(format!("@ tensor {}:{},{}:{}", n1, r, n2, c));
        g.op(format!("transpose {},{}", n2, n1));
        gen_gets(g, &[c, r], true, "names.transpose");
        g.op("mtensor".to_string());
        gen_mgets(g, c, r, "names.matrix_ref_tensor_of_transpose");
        // the name-driven range / mask constructors
        for kind in ["range", "mask"] {
            for mode in ["from", "from_strict"] {
                g.op(format!("@ tensor {}:{},{}:{}", n1, r + 1, n2, c + 1));
                g.op(format!("{} {} {}:1:1 via=tuple", kind, mode, n2));
                g.count("names.named_range");
                let vl = if kind == "range" { vec![r + 1, 1] } else { vec![r + 1, c] };
                gen_gets(g, &vl, false, "names.named_range");
                g.op(format!("@ tensor {}:{},{}:{}", n1, r + 1, n2, c + 1));
                g.op(format!("{} {} {}:0:1,{}:0:1", kind, mode, n1, n1));
                g.op(format!("{} {} {}x:0:1", kind, mode, n1));
            }
        }
        g.op(format!("@ tensor {}:{},{}:{}", n1, r, n2, c));
        g.op(format!("reverse {}", n2));
        gen_gets(g, &[r, c], true, "names.reverse");
        g.op(format!("index {}:0", n1));
        gen_gets(g, &[c], true, "names.index");
        g.op(format!("@ try_from {}:{},{}:{} {}", n1, r, n2, c, r * c));
        g.op(format!("@ is_valid {}:{},{}:{}", n1, r, n2, c));
        g.op(format!("@ record tensor {}:{},{}:{} {}", n1, r, n2, c, vec!["0"; r * c].join(",")));
    }
    // the same name twice / the empty name in three dimensions
    g.op(format!("@ try_from row:2,column:3,row:2 12"));
    g.op(format!("@ try_from {}:2,column:3,row:2 12", EMPTY_NAME));
    g.op(format!("@ is_valid {}:2,{}:3", EMPTY_NAME, EMPTY_NAME));
}

/// the conversions between `IndexRange` and `std::ops::Range<usize>`
fn gen_conversions(g: &mut Gen) {
    let pool: Vec<usize> = vec![0, 1, 2, 5, HALF - 1, HALF, MAX - 2, MAX - 1, MAX];
    for &a in &pool {
        for &b in &pool {
            let via = *g.rng.pick(&["from", "into"]);
            g.op(format!("@ to_range {} {} via={}", a, b, via));
            g.count(if a.checked_add(b).is_none() { "to_range.start+length_overflows" } else { "to_range.representable" });
            g.op(format!("@ from_range {} {}", a, b));
            g.count(if b < a { "from_range.end_before_start" } else { "from_range.ordered" });
        }
    }
}

fn ring(len: usize) -> Vec<usize> {
    let mut v = vec![0, len.saturating_sub(1), len, len + 1, MAX - 1, MAX];
    v.sort();
    v.dedup();
    v
}

/// all orders of the names of a shape
fn name_orders(names: &[&'static str]) -> Vec<Vec<&'static str>> {
    if names.len() <= 1 {
        return vec![names.to_vec()];
    }
    let mut out = vec![];
    for i in 0..names.len() {
        let mut rest = names.to_vec();
        let first = rest.remove(i);
        for mut p in name_orders(&rest) {
            p.insert(0, first);
            out.push(p);
        }
    }
    out
}

/// API surface: the fallible pub fns that have several receiver forms (copy-pasted impl blocks,
/// convenience methods), each on a non-identity, non-square configuration with valid and
/// invalid inputs.  The counters `surface.<fn>.<form>.<valid|invalid>` are what
/// props/c16_surface.json refers to.
fn gen_surface(g: &mut Gen) {
    // TensorAccess<_, RecordTensor (owned / & / &mut), D>::try_get_as_record
    let shapes: Vec<Vec<(&'static str, usize)>> = vec![
        vec![("c", 3), ("r", 2)],
        vec![("a", 2), ("b", 3), ("c", 4)],
        vec![("x", 4)],
        vec![("row", 1), ("column", 5)],
    ];
    for shape in &shapes {
        let names: Vec<&'static str> = shape.iter().map(|d| d.0).collect();
        for order in name_orders(&names) {
            // the shape as accessed
            let lens: Vec<usize> = order.iter().map(|n| shape.iter().find(|d| d.0 == *n).unwrap().1).collect();
            let mut candidates: Vec<Vec<usize>> = tuples(&lens.iter().map(|&l| (0..=l).collect::<Vec<_>>()).collect::<Vec<_>>());
            // indexes that are valid in the source order only, and the extremes
            candidates.push(shape.iter().map(|d| d.1 - 1).collect());
            candidates.push(lens.iter().map(|_| MAX).collect());
            for idx in candidates {
                if !g.thorough && shape.len() == 3 && !g.rng.chance(1, 3) {
                    continue;
                }
                let via = *g.rng.pick(&["owned", "ref", "mut", "index_by", "owned", "ref", "mut", "tensor_ref", "tensor_mut"]);
                let inside = idx.iter().zip(lens.iter()).all(|(i, l)| i < l);
                g.op(format!("@ record_get {} {} {} via={}", show_shape(shape), show_names(&order), show_usizes(&idx), via));
                g.count(&format!("surface.try_get_as_record.{}.{}", via, if inside { "valid" } else { "invalid" }));
                if order != names {
                    g.count("surface.try_get_as_record.non_identity_order");
                }
            }
        }
    }
    for (r, c) in [(2usize, 3usize), (3, 1)] {
        for i in ring(r) {
            for j in ring(c) {
                for via in ["record", "matrix_ref", "matrix_mut"] {
                    g.op(format!("@ record_mget {} {} {} {} via={}", r, c, i, j, via));
                    g.count(&format!("surface.record_matrix.{}.{}", via, if i < r && j < c { "valid" } else { "invalid" }));
                }
            }
        }
    }
    // FromUsize::from_usize
    for ty in [
        "u8", "i8", "u16", "i16", "u32", "i32", "u64", "i64", "u128", "i128", "usize", "isize", "wrapping_u8",
        "saturating_i16", "f32", "f64", "record_f64", "record_i8", "trace_i8",
    ] {
        for n in [0usize, 1, 127, 128, 255, 256, 32767, 32768, 65535, 65536, (1 << 31) - 1, 1 << 31, (1 << 32) - 1, 1 << 32, HALF - 1, HALF, MAX] {
            g.op(format!("@ from_usize {} {}", ty, n));
            g.count(&format!("surface.from_usize.{}", ty));
        }
    }
    // length_of / last_index_of / position_of
    for shape in &shapes {
        let mut names: Vec<String> = shape.iter().map(|d| d.0.to_string()).collect();
        names.extend(["zz".to_string(), "_empty_".to_string(), "rows".to_string()]);
        for name in &names {
            let present = shape.iter().any(|d| d.0 == name.as_str());
            for (f, vias) in [
                ("length_of", &["tensor", "view", "dims"][..]),
                ("last_index_of", &["tensor", "view", "dims"][..]),
                ("position_of", &["dims"][..]),
            ] {
                for via in vias {
                    g.op(format!("@ dim_lookup {} {} {} via={}", f, show_shape(shape), name, via));
                    g.count(&format!("surface.{}.{}.{}", f, via, if present { "valid" } else { "invalid" }));
                }
            }
        }
    }
    // the forwarding impls (&S, &mut S, Box<S>, Box<dyn …>) of the two traits.rs, over a
    // non-square source behind a non-identity access
    const FORWARD: [&str; 7] = ["ref_ref", "mut_ref", "mut_mut", "boxed", "boxed_mut", "box_dyn_ref", "box_dyn_mut"];
    g.op("@ tensor c:3,r:2".to_string());
    g.op("access r,c".to_string());
    for via in FORWARD {
        for idx in [[0usize, 0], [1, 2], [2, 1], [1, 3], [2, 0], [MAX, 0]] {
            g.op(format!("get {},{} via={}", idx[0], idx[1], via));
            g.count(&format!("surface.forward.tensor.{}.{}", via, if idx[0] < 2 && idx[1] < 3 { "valid" } else { "invalid" }));
        }
    }
    g.op("@ matrix 2 3".to_string());
    g.op("mreverse 1 0".to_string());
    for via in FORWARD {
        for (i, j) in [(0usize, 0usize), (1, 2), (2, 1), (1, 3), (2, 0), (MAX, 0)] {
            g.op(format!("mget {} {} via={}", i, j, via));
            g.count(&format!("surface.forward.matrix.{}.{}", via, if i < 2 && j < 3 { "valid" } else { "invalid" }));
        }
    }
    // determinant / inverse as methods of TensorView
    for (r, c, sing) in [(2usize, 2usize, 0), (2, 2, 1), (2, 3, 0), (3, 1, 0)] {
        for f in ["determinant", "inverse"] {
            g.op(format!("@ linalg {} {} {} {} via=tensor_view_method", f, r, c, sing));
            g.count(&format!("surface.tensor_view.{}.{}", f, if r == c && sing == 0 { "valid" } else { "invalid" }));
        }
    }
    // the lenient named methods of Tensor / TensorView
    let cases: Vec<(Vec<(&'static str, usize)>, Vec<&'static str>)> = vec![
        (vec![("c", 3), ("r", 2)], vec!["r:0:1", "c:1:2", "r:1:5,c:0:2", "c:2:18446744073709551615", "c:3:1", "r:0:0", "z:0:1", "c:0:1,c:1:1", "c:0:3", "c:0:3,r:0:2", "-"]),
        (vec![("a", 2), ("b", 3), ("c", 4)], vec!["b:1:1", "c:1:2,a:1:1", "a:0:2,b:0:3,c:0:4", "b:5:1", "c:3:9", "q:0:1,a:0:1"]),
    ];
    for (shape, args) in &cases {
        for arg in args {
            for kind in ["range", "mask"] {
                for via in ["tensor", "tensor_mut", "tensor_owned", "view", "view_mut", "view_owned"] {
                    g.op(format!("@ named {} {} {} via={}", kind, show_shape(shape), arg, via));
                    g.count(&format!("surface.{}.{}", kind, via));
                }
            }
        }
    }
}

pub fn gen(g: &mut Gen) {
    gen_adversarial_names(g);
    gen_large(g);
    gen_try_from(g);
    gen_access(g);
    gen_ranges(g);
    gen_adaptors(g);
    gen_matrices(g);
    gen_linalg(g);
    gen_records(g);
    gen_conversions(g);
    gen_surface(g);
}
